----------------------------- MODULE RangeRead -----------------------------
(* C23: ranged reads (hailtop.aiotools.fs.AsyncFS.open_from / read_from / read_range and the four back ends).

   An object of size n is the byte sequence <<1, 2, .., n>> (the byte at 0-based offset i is i+1, so a
   returned byte string says which offsets were read).

   Client calls (record `op`):
     read_from(start)                       = open_from(start) ; read()
     open_read(start, len)                  = open_from(start, length=len) ; read()             len = NoLen: no length
     open_chunked(start, len, k)            = open_from(start, length=len) ; read(k) until b''
     read_range(start, end, end_inclusive)  = open_from(start, length=m) ; readexactly(m)       m = len bytes requested

   What the property demands is the relation Ok(n, op, out) below (a relation, not an implementation).

   The module also models the byte-range protocol the three object stores are driven with, as a small state
   machine:  Call -> Request (client builds `Range: bytes=first-last`) -> Serve (server, RFC 7233: inclusive
   last-byte-pos, clamped to the representation, 416 when first-byte-pos is beyond the end) -> stream reads.
   TLC checks that this protocol satisfies Ok for every object size / offset / length (ProtocolOk), that a range
   header is never malformed, and that every call terminates.  HeaderBug # "none" is a deliberately wrong header
   (off by one), used by the check to show that ProtocolOk is falsifiable.

   Binding (B3): RangeReadGen writes all calls of the bounded universe; the harness performs them on the real
   LocalAsyncFS / GoogleStorageAsyncFS / S3AsyncFS / AzureAsyncFS (the latter three over in-memory stores that
   log every range request with what they served); RangeReadVerdict judges every outcome with Ok and every
   logged response of the fake stores against ServeRange (so the environment model used by the harness is itself
   validated against the TLA+ server).                                                                        *)
EXTENDS Integers, Sequences, SequencesExt, FiniteSets, TLC, Json, IOUtils

CONSTANTS MaxN,      \* largest object size
          Chunks,    \* chunk sizes k for open_chunked
          HeaderBug  \* "none" = the real header; "plus" / "minus" = off-by-one header (self-test of the property)

NoLen == -1
LastAdj == CASE HeaderBug = "none" -> 0 [] HeaderBug = "plus" -> 1 [] HeaderBug = "minus" -> -1
Lo(a, b) == IF a < b THEN a ELSE b

Obj(n) == [i \in 1..n |-> i]

\* bytes of the object at 0-based offsets s .. s+l-1 that exist
Span(n, s, l) == IF s >= n \/ l <= 0 THEN <<>> ELSE SubSeq(Obj(n), s + 1, Lo(s + l, n))

Kinds == {"read_from", "open_read", "open_chunked", "read_range"}
Streaming == {"read_from", "open_read", "open_chunked"}

Op(kind, start, len, k, incl) == [kind |-> kind, start |-> start, len |-> len, k |-> k, incl |-> incl]

Ops(n) ==
       { Op("read_from", s, NoLen, 0, FALSE) : s \in 0..n + 1 }
  \cup { Op("open_read", s, l, 0, FALSE) : s \in 0..n + 1, l \in {NoLen} \cup (0..n + 1) }
  \cup { Op("open_chunked", s, l, k, FALSE) : s \in 0..n + 1, l \in {NoLen} \cup (0..n + 1), k \in Chunks }
  \cup { Op("read_range", s, l, 0, i) : s \in 0..n + 1, l \in 0..n + 1, i \in BOOLEAN }

\* ---------------------------------------------------------------------------- the property
Bytes(d) == [kind |-> "bytes", data |-> d]
Eof      == [kind |-> "eof", data |-> <<>>]

\* the object's bytes in the requested range (clamped to the object)
Wanted(n, op) == IF op.len = NoLen THEN Span(n, op.start, n) ELSE Span(n, op.start, op.len)

Ok(n, op, out) ==
  IF op.kind \in Streaming
  THEN \* exactly the object's bytes in that range; for an empty range b'' or the EOF signal
       LET w == Wanted(n, op) IN
         \/ out.kind = "bytes" /\ out.data = w
         \/ out.kind = "eof" /\ w = <<>>
  ELSE \* read_range: exactly the requested span, or the unexpected-EOF signal when it is not all there
       IF op.len = 0
       THEN (out.kind = "bytes" /\ out.data = <<>>) \/ out.kind = "eof"
       ELSE IF op.start + op.len <= n
            THEN out.kind = "bytes" /\ out.data = Span(n, op.start, op.len)
            ELSE out.kind = "eof"

\* root-cause class of an outcome that is not Ok (used for violation signatures only)
Class(n, op, out) ==
  IF out.kind \notin {"bytes", "eof"} THEN out.kind
  ELSE IF out.kind = "eof" THEN "eof_but_span_available"
  ELSE IF op.kind = "read_range" /\ op.start + op.len > n THEN "bytes_but_span_unavailable"
  ELSE LET w == IF op.kind \in Streaming THEN Wanted(n, op) ELSE Span(n, op.start, op.len) IN
         IF Len(out.data) > Len(w) THEN "too_many_bytes"
         ELSE IF Len(out.data) < Len(w) THEN "too_few_bytes" ELSE "wrong_bytes"

\* ---------------------------------------------------------------------------- the server (RFC 7233)
NoRange == [first |-> -1, last |-> -1]

ServeRange(n, r) ==
  IF r.first = -1 THEN [status |-> 200, body |-> Obj(n)]                       \* no Range header
  ELSE IF r.first >= n THEN [status |-> 416, body |-> <<>>]                    \* unsatisfiable
  ELSE IF r.last # -1 /\ r.last < r.first THEN [status |-> 200, body |-> Obj(n)]   \* invalid spec: header ignored
  ELSE [status |-> 206,
        body |-> SubSeq(Obj(n), r.first + 1, IF r.last = -1 THEN n ELSE Lo(r.last, n - 1) + 1)]

\* ---------------------------------------------------------------------------- the protocol as a state machine
VARIABLES n, op, pc, req, resp, buf, out
vars == <<n, op, pc, req, resp, buf, out>>

NoResp == [status |-> 0, body |-> <<>>]

Init ==
  /\ n \in 0..MaxN
  /\ op \in Ops(n)
  /\ pc = "call"
  /\ req = NoRange
  /\ resp = NoResp
  /\ buf = <<>>
  /\ out = Bytes(<<>>)

\* AsyncFS.open_from: length == 0 never reaches the back end (EmptyReadableStream)
OpenEmpty ==
  /\ pc = "call" /\ op.len = 0
  /\ pc' = "stream" /\ buf' = <<>>
  /\ UNCHANGED <<n, op, req, resp, out>>

\* *._open_from: Range: bytes=<start>-[<start+length-1>]
Request ==
  /\ pc = "call" /\ op.len # 0
  /\ req' = [first |-> op.start, last |-> IF op.len = NoLen THEN -1 ELSE op.start + op.len - 1 + LastAdj]
  /\ pc' = "requested"
  /\ UNCHANGED <<n, op, resp, buf, out>>

Serve ==
  /\ pc = "requested"
  /\ resp' = ServeRange(n, req)
  /\ pc' = "served"
  /\ UNCHANGED <<n, op, req, buf, out>>

\* 416 -> UnexpectedEOFError out of open_from
Open416 ==
  /\ pc = "served" /\ resp.status = 416
  /\ out' = Eof /\ pc' = "done"
  /\ UNCHANGED <<n, op, req, resp, buf>>

OpenOk ==
  /\ pc = "served" /\ resp.status \in {200, 206}
  /\ buf' = resp.body /\ pc' = "stream"
  /\ UNCHANGED <<n, op, req, resp, out>>

ReadAll ==
  /\ pc = "stream" /\ op.kind \in {"read_from", "open_read"}
  /\ out' = Bytes(buf) /\ buf' = <<>> /\ pc' = "done"
  /\ UNCHANGED <<n, op, req, resp>>

ReadChunk ==
  /\ pc = "stream" /\ op.kind = "open_chunked"
  /\ LET m == Lo(op.k, Len(buf)) IN
       IF m = 0 THEN pc' = "done" /\ UNCHANGED <<buf, out>>
       ELSE /\ out' = Bytes(out.data \o SubSeq(buf, 1, m))
            /\ buf' = SubSeq(buf, m + 1, Len(buf))
            /\ pc' = "stream"
  /\ UNCHANGED <<n, op, req, resp>>

ReadExactly ==
  /\ pc = "stream" /\ op.kind = "read_range"
  /\ out' = IF Len(buf) >= op.len THEN Bytes(SubSeq(buf, 1, op.len)) ELSE Eof
  /\ pc' = "done"
  /\ UNCHANGED <<n, op, req, resp, buf>>

Next == OpenEmpty \/ Request \/ Serve \/ Open416 \/ OpenOk \/ ReadAll \/ ReadChunk \/ ReadExactly
Spec == Init /\ [][Next]_vars /\ WF_vars(Next)

TypeOK ==
  /\ n \in 0..MaxN /\ op \in Ops(n)
  /\ pc \in {"call", "requested", "served", "stream", "done"}
  /\ resp.status \in {0, 200, 206, 416}
  /\ out.kind \in {"bytes", "eof"}

\* the property, for the protocol
ProtocolOk == pc = "done" => Ok(n, op, out)
\* a client never sends a malformed byte-range-spec, and always asks for at least one byte
HeaderOk == pc \in {"requested", "served"} => req.first >= 0 /\ (req.last = -1 \/ req.last >= req.first)
\* a 206 body is exactly the clamped span (the server half of the argument)
ServedOk == pc = "served" /\ resp.status = 206 => resp.body = Wanted(n, op)
Terminates == <>(pc = "done")

\* reachability companions (expected to be violated: antecedents of the invariants are reachable)
NeverDoneEof == ~(pc = "done" /\ out.kind = "eof")
NeverPartial == ~(pc = "done" /\ out.kind = "bytes" /\ op.len # NoLen /\ 0 < Len(out.data) /\ Len(out.data) < op.len)

\* ---------------------------------------------------------------------------- B3: inputs and verdict (constant evaluation)
Inputs == UNION { { [n |-> m, op |-> o] : o \in Ops(m) } : m \in 0..MaxN }
\* (Gen and Verdict take a dummy argument so that TLC does not evaluate them eagerly in every run)
Gen(go) == ndJsonSerialize(IOEnv.RR_INPUTS, SetToSeq(Inputs))

\* The relation is tight: for every call it accepts exactly one byte string among all contiguous spans of the object
\* (or none, when only the EOF signal is acceptable), and it always accepts something.
Spans(m) == { Span(m, s, l) : s \in 0..m, l \in 0..m }
OkIsTight(go) == \A c \in Inputs :
               LET acc == { d \in Spans(c.n) : Ok(c.n, c.op, Bytes(d)) } IN
                 /\ Cardinality(acc) <= 1
                 /\ acc = {} => Ok(c.n, c.op, Eof)
                 /\ (c.op.kind = "read_range" /\ c.op.len > 0 /\ acc # {}) => ~Ok(c.n, c.op, Eof)

\* cases = [be, n, op, reqs: <<[first, last, status, body]>>, out: [kind, data]]
OutOf(c) == [kind |-> c.out.kind, data |-> c.out.data]
EnvOk(c) == \A i \in 1..Len(c.reqs) :
              LET r == c.reqs[i] s == ServeRange(c.n, [first |-> r.first, last |-> r.last]) IN
                s.status = r.status /\ s.body = r.body
CaseOk(c) == Ok(c.n, c.op, OutOf(c))
\* (the case file is read once: cs is passed as a value)
VerdictOf(cs) ==
  LET bad == { i \in 1..Len(cs) : ~CaseOk(cs[i]) } IN
    [cases |-> Len(cs),
     bad |-> SetToSeq({ [i |-> i, cls |-> Class(cs[i].n, cs[i].op, OutOf(cs[i]))] : i \in bad }),
     bad_env |-> SetToSeq({ i \in 1..Len(cs) : ~EnvOk(cs[i]) }),
     eof_ok |-> Cardinality({ i \in 1..Len(cs) : cs[i].out.kind = "eof" /\ i \notin bad }),
     nonempty_ok |-> Cardinality({ i \in 1..Len(cs) : cs[i].out.kind = "bytes" /\ Len(cs[i].out.data) > 0 /\ i \notin bad })]
Verdict(go) == JsonSerialize(IOEnv.RR_VERDICT, VerdictOf(ndJsonDeserialize(IOEnv.RR_CASES)))
=============================================================================
