---- MODULE CopyToolGen ----
(* Model-checks the multi-part machine of CopyTool (configuration PartSpec + invariants) and, before that,
   evaluates the constant-level obligations: the golden table of the repository is reproduced by Expected
   (report written for the harness), every case is well formed, and the case universe is written out. *)
EXTENDS CopyTool
ASSUME Golden(TRUE)
ASSUME Gen(TRUE)
====
