---------------------------- MODULE CopyToolTrace ----------------------------
(* Trace validation (B2) for the multi-part machine of CopyTool.  Each line of the ndjson file is one recorded copy of
   one file by the real Copier on LocalAsyncFS (part size and buffer size patched small):

     [size, ps, buf, ev |-> << [a |-> "Plan", nparts]                      nparts = 0: single-shot (_copy_file)
                               [a |-> "Single", pos, len]                  one read/write of _copy_file
                               [a |-> "Chunk", i, src, dst, len]           one loop iteration of _copy_part(i):
                                                                           open_from(src, length=len) ... write at dst
                               [a |-> "Done"] >>]                          Copier.copy returned

   Every event must be a step of CopyTool's machine with exactly the logged offsets; an event the machine cannot take
   is a deadlock of this specification (with the trace as counter-example).  All invariants of the machine are
   checked along the way, so "the destination is byte-identical" is established for the recorded interleavings of the
   real code, not only for the model's.                                                                            *)
EXTENDS CopyTool

\* the same TLC run first computes the verdict on the recorded outcomes of part 1 (constant evaluation, B3)
ASSUME Verdict(TRUE)

VARIABLES tr, l
tvars == <<pvars, tr, l>>

TraceInit ==
  /\ tr \in SeqSet(ndJsonDeserialize(IOEnv.CT_TRACES))
  /\ l = 1
  /\ Init
  /\ size = tr.size /\ ps = tr.ps /\ buf = tr.buf

TraceStep ==
  /\ l <= Len(tr.ev)
  /\ LET e == tr.ev[l] IN
       \/ /\ e.a = "Plan" /\ Plan
          /\ IF e.nparts = 0 THEN pc' = "single" ELSE pc' = "parts" /\ nparts' = e.nparts
       \/ /\ e.a = "Single" /\ SingleChunk
          /\ e.len > 0 /\ e.pos = spos /\ e.len = Lo(buf, size - spos)
       \/ /\ e.a = "Chunk" /\ pc = "parts" /\ e.i \in Parts /\ CopyChunk(e.i)
          /\ e.src = ChunkSrc(e.i) /\ e.dst = dpos[e.i] /\ e.len = ChunkLen(e.i)
       \/ /\ e.a = "Done"
          /\ \/ Finish
             \/ SingleChunk /\ pc' = "done"
  /\ l' = l + 1 /\ UNCHANGED tr

TraceDone == l > Len(tr.ev) /\ UNCHANGED tvars

TraceNext == TraceStep \/ TraceDone
TraceSpec == TraceInit /\ [][TraceNext]_tvars

\* a fully consumed trace ends in "done"
TraceEndsDone == l > Len(tr.ev) => pc = "done"
=============================================================================
