---- MODULE RangeReadGen ----
(* Model-checks RangeRead (configuration Spec + invariants) and, before that, evaluates the two constant-level
   obligations: the input universe is written for the harness, and the relation Ok is tight. *)
EXTENDS RangeRead
ASSUME Gen(TRUE)
ASSUME OkIsTight(TRUE)
====
