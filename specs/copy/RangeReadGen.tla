---- MODULE RangeReadGen ----
EXTENDS RangeRead
ASSUME Gen
====
