-------------------------------- MODULE DbTx --------------------------------
(* C27: gear/gear/database.py -- one call of a transactional operation (`@transaction(db)` function, or one of the
   retried one-shot methods of `Database`) against a MySQL server that may fail at any point.

   The server is a committed key-value `store`; every attempt of the call works on a connection of its own with a
   private set of pending writes (`pend`, -1 = key not written in this transaction).  The body of the transaction
   is a fixed sequence of at most MaxBody statements:
        <<"set", k, v>>   <<"inc", k>> (not idempotent: a duplicated or half-applied attempt is visible)
        <<"get", k>>      <<"boom">>   (the body itself raises an application error)

   One action per await of the code on the connection (= one round trip to the server):

     ConnectOk / ConnectFault(e)    Transaction.async_init: pool.acquire()
     BeginOk   / BeginFault(e)      Transaction.async_init: START TRANSACTION [READ ONLY]
     StmtOk    / StmtFault(e)       tx.just_execute / execute_update / execute_and_fetchone / ... : statement i
     Boom                           the body raises; __aexit__ sees an exception
     CommitOk  / CommitFault(e)     Transaction._aexit_1: conn.commit()
     Rollback(c)                    conn.rollback() in _aexit_1, and the rollback of pool.release (idempotent)
     Close(c)                       the background task _release_connection gives the connection back (closes the
                                    session; anything still pending is discarded by the server)
     Backoff                        retry_transient_mysql_errors: the error is retryable; sleep, then a new attempt
     Raise / Return                 the call ends

   A fault has a code e; what the code does to the *server side* of the connection is part of the environment:
     DeadCodes      the connection is lost: pending writes are discarded, a later rollback() is a silent no-op
                    (benign reading of DESIGN.md section 7 item 13)
     TxRollbackCodes  the server rolls the whole transaction back (deadlock victim, 1213)
     otherwise      only the failed statement has no effect (lock wait timeout 1205, duplicate key ...)
   A fault at COMMIT means "not applied".

   What the *client* does with e is the property:  RetryCodes must be retried, NoRetryCodes (and the application
   error "app") must not, AmbigCodes may go either way ((OperationalError, 1205), (OperationalError, 2006): not
   decidable offline which class PyMySQL raises / whether "gone away" counts as a lost connection).              *)
EXTENDS Integers, Sequences, FiniteSets

CONSTANTS Keys, Stmts, MaxBody, InitVals,
          RetryCodes, NoRetryCodes, AmbigCodes, DeadCodes, TxRollbackCodes,
          MaxFaults,      \* model bound: faults injected per call
          Eager           \* TRUE: partial-order reduction used to generate fault plans -- the clean-up of a finished
                          \* attempt (Rollback, Close) runs before anything else.  Sound for the properties below:
                          \* Rollback(c)/Close(c) touch only conns[c] of a finished attempt, which no other action reads.
                          \* FALSE: clean-up interleaves freely with the rest of the call (background task).

VARIABLES store, store0, body, pc, i, cid, conns, err, tries, commits, faults
vars == <<store, store0, body, pc, i, cid, conns, err, tries, commits, faults>>

Codes == RetryCodes \cup NoRetryCodes \cup AmbigCodes
None == [k \in Keys |-> -1]
Bodies == UNION { [1..n -> Stmts] : n \in 0..MaxBody }

View(c) == [k \in Keys |-> IF conns[c].pend[k] # -1 THEN conns[c].pend[k] ELSE store[k]]
Applied(p) == [k \in Keys |-> IF p[k] # -1 THEN p[k] ELSE store[k]]

\* the store a complete, single execution of the body produces from s (statements after a "boom" never run)
RECURSIVE Run(_, _, _)
Run(b, n, s) == IF n > Len(b) \/ b[n][1] = "boom" THEN s
                ELSE Run(b, n + 1, CASE b[n][1] = "set" -> [s EXCEPT ![b[n][2]] = b[n][3]]
                                     [] b[n][1] = "inc" -> [s EXCEPT ![b[n][2]] = s[b[n][2]] + 1]
                                     [] OTHER -> s)
Expected == Run(body, 1, store0)
HasBoom == \E n \in 1..Len(body) : body[n][1] = "boom"

TypeOK ==
  /\ store \in [Keys -> Nat] /\ store0 \in [Keys -> Nat]
  /\ pc \in {"connect", "begin", "body", "commit", "failed", "succeeded", "returned", "raised"}
  /\ i \in 1..(Len(body) + 1) /\ cid \in 0..Len(conns)
  /\ \A c \in 1..Len(conns) : /\ conns[c].st \in {"open", "dead", "closed"}
                              /\ conns[c].rel \in BOOLEAN
                              /\ conns[c].pend \in [Keys -> Nat \cup {-1}]
  /\ err \in Codes \cup {"none", "app"}
  /\ tries \in Nat /\ commits \in Nat /\ faults \in 0..MaxFaults

Init ==
  /\ store0 \in [Keys -> InitVals] /\ store = store0
  /\ body \in Bodies
  /\ pc = "connect" /\ i = 1 /\ cid = 0 /\ conns = <<>> /\ err = "none"
  /\ tries = 0 /\ commits = 0 /\ faults = 0

CanFault == faults < MaxFaults
\* (Eager only) nothing of the call proceeds while a finished attempt still has clean-up to do
Quiet == Eager => \A c \in 1..Len(conns) : ~conns[c].rel

\* server-side effect of fault e on connection c
Hit(c, e) == [conns EXCEPT ![c] = [st   |-> IF e \in DeadCodes THEN "dead" ELSE @.st,
                                   pend |-> IF e \in DeadCodes \cup TxRollbackCodes THEN None ELSE @.pend,
                                   rel  |-> TRUE]]

ConnectOk ==
  /\ pc = "connect" /\ Quiet
  /\ conns' = Append(conns, [st |-> "open", pend |-> None, rel |-> FALSE])
  /\ cid' = Len(conns) + 1 /\ pc' = "begin" /\ i' = 1
  /\ UNCHANGED <<store, store0, body, err, tries, commits, faults>>

ConnectFault(e) ==
  /\ pc = "connect" /\ Quiet /\ CanFault /\ e \in Codes
  /\ err' = e /\ pc' = "failed" /\ cid' = 0 /\ faults' = faults + 1
  /\ UNCHANGED <<store, store0, body, i, conns, tries, commits>>

BeginOk ==
  /\ pc = "begin" /\ Quiet
  /\ pc' = IF Len(body) = 0 THEN "commit" ELSE "body"
  /\ UNCHANGED <<store, store0, body, i, cid, conns, err, tries, commits, faults>>

BeginFault(e) ==
  /\ pc = "begin" /\ Quiet /\ CanFault /\ e \in Codes
  /\ conns' = Hit(cid, e) /\ err' = e /\ pc' = "failed" /\ faults' = faults + 1
  /\ UNCHANGED <<store, store0, body, i, cid, tries, commits>>

StmtOk ==
  /\ pc = "body" /\ Quiet /\ body[i][1] # "boom"
  /\ LET s == body[i] IN
     conns' = CASE s[1] = "set" -> [conns EXCEPT ![cid].pend[s[2]] = s[3]]
                [] s[1] = "inc" -> [conns EXCEPT ![cid].pend[s[2]] = View(cid)[s[2]] + 1]
                [] OTHER -> conns
  /\ i' = i + 1 /\ pc' = IF i = Len(body) THEN "commit" ELSE "body"
  /\ UNCHANGED <<store, store0, body, cid, err, tries, commits, faults>>

StmtFault(e) ==
  /\ pc = "body" /\ Quiet /\ body[i][1] # "boom" /\ CanFault /\ e \in Codes
  /\ conns' = Hit(cid, e) /\ err' = e /\ pc' = "failed" /\ faults' = faults + 1
  /\ UNCHANGED <<store, store0, body, i, cid, tries, commits>>

Boom ==
  /\ pc = "body" /\ Quiet /\ body[i][1] = "boom"
  /\ conns' = [conns EXCEPT ![cid].rel = TRUE] /\ err' = "app" /\ pc' = "failed"
  /\ UNCHANGED <<store, store0, body, i, cid, tries, commits, faults>>

CommitOk ==
  /\ pc = "commit" /\ Quiet
  /\ store' = Applied(conns[cid].pend)
  /\ conns' = [conns EXCEPT ![cid].pend = None, ![cid].rel = TRUE]
  /\ commits' = commits + 1 /\ pc' = "succeeded"
  /\ UNCHANGED <<store0, body, i, cid, err, tries, faults>>

CommitFault(e) ==
  /\ pc = "commit" /\ Quiet /\ CanFault /\ e \in Codes
  /\ conns' = Hit(cid, e) /\ err' = e /\ pc' = "failed" /\ faults' = faults + 1
  /\ UNCHANGED <<store, store0, body, i, cid, tries, commits>>

\* conn.rollback() of _aexit_1 and the rollback of pool.release: only on a connection the attempt is done with
Rollback(c) ==
  /\ c \in 1..Len(conns) /\ conns[c].rel /\ conns[c].st # "closed"
  /\ Eager => conns[c].pend # None
  /\ conns' = [conns EXCEPT ![c].pend = None]
  /\ UNCHANGED <<store, store0, body, pc, i, cid, err, tries, commits, faults>>

Close(c) ==
  /\ c \in 1..Len(conns) /\ conns[c].rel /\ conns[c].st # "closed"
  /\ Eager => conns[c].pend = None
  /\ conns' = [conns EXCEPT ![c] = [st |-> "closed", pend |-> None, rel |-> FALSE]]
  /\ UNCHANGED <<store, store0, body, pc, i, cid, err, tries, commits, faults>>

Backoff ==
  /\ pc = "failed" /\ Quiet /\ err \in RetryCodes \cup AmbigCodes
  /\ pc' = "connect" /\ err' = "none" /\ cid' = 0 /\ tries' = tries + 1
  /\ UNCHANGED <<store, store0, body, i, conns, commits, faults>>

Raise ==
  /\ pc = "failed" /\ Quiet /\ err \notin RetryCodes
  /\ pc' = "raised"
  /\ UNCHANGED <<store, store0, body, i, cid, conns, err, tries, commits, faults>>

Return ==
  /\ pc = "succeeded" /\ Quiet
  /\ pc' = "returned"
  /\ UNCHANGED <<store, store0, body, i, cid, conns, err, tries, commits, faults>>

Env  == \/ ConnectOk \/ BeginOk \/ StmtOk \/ Boom \/ CommitOk
        \/ \E e \in Codes : ConnectFault(e) \/ BeginFault(e) \/ StmtFault(e) \/ CommitFault(e)
Next == Env \/ (\E c \in 1..(MaxFaults + 1) : Rollback(c) \/ Close(c)) \/ Backoff \/ Raise \/ Return

Spec == Init /\ [][Next]_vars
FairSpec == Spec /\ WF_vars(Env) /\ WF_vars(Backoff) /\ WF_vars(Raise) /\ WF_vars(Return)
                 /\ \A c \in 1..(MaxFaults + 1) : WF_vars(Close(c))

(* ------------------------------------- the property C27 ----------------------------------------------- *)
\* "is retried after deadlocks, lock-wait timeouts, lost connections and connection limits"
C27_Retried    == [][(pc = "failed" /\ pc' # "failed" /\ err \in RetryCodes) => (pc' = "connect")]_vars
\* "is not retried after any other error"
C27_NotRetried == [][(pc = "failed" /\ pc' # "failed" /\ err \in NoRetryCodes \cup {"app"}) => (pc' = "raised")]_vars
\* "no retried or failed attempt leaves partial writes behind": at every moment the committed store is either
\* untouched or exactly the effect of one complete execution of the body
C27_NoPartialWrites == store = IF commits = 0 THEN store0 ELSE Expected
C27_AtMostOneCommit == commits <= 1
C27_Outcome == /\ (pc \in {"succeeded", "returned"}) => (commits = 1 /\ ~HasBoom)
               /\ (pc = "raised") => (commits = 0)
\* extra (not part of the verdict): when everything has settled no connection is left open
C27x_Released == (pc \in {"returned", "raised"} /\ \A c \in 1..Len(conns) : ~conns[c].rel)
                    => \A c \in 1..Len(conns) : conns[c].st = "closed"
C27_Terminates == <>(pc \in {"returned", "raised"})
C27x_AllClosed == <>[](\A c \in 1..Len(conns) : conns[c].st = "closed")
=============================================================================
