------------------------------ MODULE DbTxTrace ------------------------------
(* Trace validation (B2) for DbTx.  Each line of the ndjson file is one call of the real gear.database code
   (Database / Transaction / @transaction / retry_transient_mysql_errors) over the fake aiomysql pool, whose
   sessions follow a fault plan and log every round trip:

     [body |-> <<stmt, ...>>, store0 |-> [k1 |-> .., ...],
      ev |-> << [a |-> "ConnectOk"|"ConnectFault"|"BeginOk"|"BeginFault"|"StmtOk"|"StmtFault"|"Boom"|"CommitOk"|
                       "CommitFault"|"Rollback"|"Close"|"Backoff"|"Raise"|"Return",
                 e |-> error code (faults), c |-> connection (Rollback, Close), d |-> slept virtual ms (Backoff),
                 val |-> value a "get" returned (StmtOk), same |-> the call's own result/exception came out,
                 s |-> committed store after the step, p |-> pending writes of every connection after it
                       (both as value tuples in the order of KeyOrder)] >>]

   Every event must be a step of DbTx (Eager = FALSE: clean-up may interleave anywhere) whose successor state
   has exactly the logged store and pending writes.  Anything else deadlocks with the prefix as counter-example. *)
EXTENDS DbTx, Backoff, Json, IOUtils

Traces == ndJsonDeserialize(IOEnv.TRACE_FILE)
VARIABLES tid, l
tvars == <<vars, tid, l>>
Ev == Traces[tid].ev

TraceInit ==
  /\ tid \in 1..Len(Traces) /\ l = 1
  /\ store0 = Traces[tid].store0 /\ store = store0
  /\ body = Traces[tid].body
  /\ pc = "connect" /\ i = 1 /\ cid = 0 /\ conns = <<>> /\ err = "none"
  /\ tries = 0 /\ commits = 0 /\ faults = 0

KeyOrder == <<"k1", "k2">>
ASSUME { KeyOrder[j] : j \in 1..Len(KeyOrder) } = Keys

PostOk(e) ==
  /\ \A j \in 1..Len(KeyOrder) : store'[KeyOrder[j]] = e.s[j]
  /\ Len(e.p) = Len(conns')
  /\ \A c \in 1..Len(conns') : \A j \in 1..Len(KeyOrder) : conns'[c].pend[KeyOrder[j]] = e.p[c][j]

TraceStep ==
  /\ l <= Len(Ev)
  /\ LET e == Ev[l] IN
     /\ \/ e.a = "ConnectOk"    /\ ConnectOk
        \/ e.a = "ConnectFault" /\ ConnectFault(e.e)
        \/ e.a = "BeginOk"      /\ BeginOk
        \/ e.a = "BeginFault"   /\ BeginFault(e.e)
        \/ e.a = "StmtOk"       /\ StmtOk /\ (body[i][1] = "get" => e.val = View(cid)[body[i][2]])
        \/ e.a = "StmtFault"    /\ StmtFault(e.e)
        \/ e.a = "Boom"         /\ Boom
        \/ e.a = "CommitOk"     /\ CommitOk
        \/ e.a = "CommitFault"  /\ CommitFault(e.e)
        \/ e.a = "Rollback"     /\ Rollback(e.c)
        \/ e.a = "Close"        /\ Close(e.c)
        \* sleep_before_try(tries) with the incremented counter: inside the documented back-off band
        \/ e.a = "Backoff"      /\ Backoff /\ DelayOk(tries', 1000, 60000, 30, e.d)
        \/ e.a = "Raise"        /\ Raise /\ e.same
        \/ e.a = "Return"       /\ Return /\ e.same
     /\ PostOk(e)
  /\ l' = l + 1 /\ UNCHANGED tid

TraceDone == l > Len(Ev) /\ UNCHANGED tvars
TraceNext == TraceStep \/ TraceDone
TraceSpec == TraceInit /\ [][TraceNext]_tvars

\* a recorded call is complete: it returned or raised
TraceComplete == (l > Len(Ev)) => (pc \in {"returned", "raised"})
=============================================================================
