------------------------------- MODULE DbTxMC -------------------------------
(* Model-checking root for DbTx: statement alphabets (a .cfg file cannot hold tuples). *)
EXTENDS DbTx
StmtsSmall == { <<"set", "k1", 7>>, <<"inc", "k1">>, <<"inc", "k2">>, <<"get", "k1">>, <<"boom">> }
StmtsFull  == { <<"set", "k1", 7>>, <<"set", "k2", 3>>, <<"inc", "k1">>, <<"inc", "k2">>, <<"get", "k1">>, <<"get", "k2">>, <<"boom">> }
=============================================================================
