------------------------------ MODULE CiMerge ------------------------------
(* C30: ci/ci/github.py, WatchedBranch and PR -- when does the CI service merge a pull request?

   Three parties, kept in SEPARATE variables:

     GitHub (truth)   ghT, ghHead, ghOpen, ghRev, ghLab, ghExt, ghCi     changed by people and by CI's requests
     Batch service    batches                                             changed by CI's requests and by time
     CI's cache       ci  (= WatchedBranch + its PR objects + the position of the one running _update pass)

   CI is a single coroutine (WatchedBranch._update is non re-entrant: `updating`).  Every `await` on GitHub or
   on the Batch service is a request that is answered at SOME later moment, from the truth of THAT moment.
   One CI action of this module = "the pending request is served now and the code runs on, locally and
   deterministically, up to its next request" (operator Run = the control flow of _update/_update_github/
   _update_batch/_heal/try_to_merge between two requests).  Environment actions interleave freely between
   any two CI actions, so every fetch may be stale by the time it is used.

     request (ci.pc.k)  code
     branch             WatchedBranch._update_github: gh.getitem(.../git/refs/heads/<branch>)
     pulls              WatchedBranch._update_github: gh.getiter(.../pulls?state=open&base=<branch>) + PR.update_from_gh_json
     status(n)          PR._update_github: gh.post('/graphql') -> reviewDecision + ONE PAGE of the statusCheckRollup of
                        the LAST commit (one request, hence one action, per page)
     batch(n)           PR._update_batch: batch_client.list_batches(... source_sha=<cached head>) + status()
     post(n)            PR._heal -> post_github_status: gh.post(.../statuses/<cached head>)
     build(n)           PR._heal -> _start_build: batch.submit() of a test batch (source, target) = cached shas
     orphans            WatchedBranch._heal: list running test batches, cancel the unreferenced ones
     merge(n)           WatchedBranch.try_to_merge -> PR.merge: gh.put(.../pulls/n/merge, sha = cached head)

   Shas are abstracted: the k-th commit of PR n is k (1..MaxC, heads only move forward: every push creates a
   new commit), the target branch's commits are 1, 2, ... (a push and an accepted merge both create a new one);
   0 stands for None.                                                                                         *)
EXTENDS Naturals, Sequences, FiniteSets, TLC

CONSTANTS PRs,        \* pull request numbers, a set of small naturals (all target the watched branch)
          MaxC,       \* commits per PR
          MaxPush,    \* pushes to the target branch by others
          Reviews,    \* review decisions GitHub may report: APPROVED, REVIEW_REQUIRED, CHANGES_REQUESTED, API_NONE
          Labels,     \* labels people toggle: "WIP", "stacked PR", "prio:high", "do-not-test"
          ExtVals,    \* what the external required check may report: "success", "failure", "pending"
          PageSize,   \* contexts per page of the status query (the code asks for 10; 1 makes two contexts two pages)
          NotifyKinds,\* which entry points fire: "github" (webhook), "batch" (batch callback), "all" (periodic update)
          Budget      \* number of human events (pushes, reviews, labels, reports) after the arbitrary initial state

VARIABLES setup,      \* TRUE until the arbitrary initial GitHub state has been chosen
          ghT, npush, ghHead, ghOpen, ghRev, ghLab, ghExt, ghCi,
          batches,    \* sequence of [pr, src, tgt, st], id = index; st: running|success|failure|cancelled
          ci,         \* CI's cache and control state (record, see InitCi)
          budget,
          \* ---- history variables (what GitHub actually answered; not readable by CI) ------------------------
          seenT,      \* target sha returned by the latest `branch` request
          seenLab,    \* per PR: labels returned by the latest `pulls` request
          seenSt,     \* per PR: [sha, rev, ext] returned by the latest `status` request (sha = head it was for)
          used,       \* target shas (as fetched) that already justified a merge
          nmerged,    \* number of accepted merges
          bad         \* tags of property violations observed at accepted merges

vars == <<setup, ghT, npush, ghHead, ghOpen, ghRev, ghLab, ghExt, ghCi, batches, ci, budget,
          seenT, seenLab, seenSt, used, nmerged, bad>>
ghVars == <<ghT, npush, ghHead, ghOpen, ghRev, ghLab, ghExt, ghCi>>
histVars == <<seenT, seenLab, seenSt, used, nmerged, bad>>

DNM == {"WIP", "stacked PR"}          \* github.py DO_NOT_MERGE
Ctx == {"ci", "ext"}                  \* CI's own status context (GITHUB_STATUS_CONTEXT) and one external required check
MAXRUN == 3                           \* MAX_CONCURRENT_PR_BATCHES
BatchIds == 1..(Cardinality(PRs) * MaxC * (MaxPush + Cardinality(PRs) + 1) + 4)   \* a constant bound for the quantifier only

CtxSeq == <<"ext", "ci">>             \* the order in which GitHub lists a commit's contexts
P(k, n) == [k |-> k, n |-> n]
PG0 == [cur |-> 0, rd |-> "none", acc |-> [x \in Ctx |-> "absent"]]    \* locals of PR._update_github: cursor, review_decision, results
DefPR == [src |-> 0, lab |-> {}, rev |-> "none", lks |-> [x \in Ctx |-> "absent"],
          bat |-> 0, btgt |-> 0, bs |-> "none", intd |-> "pending"]

InitCi == [pc |-> P("idle", 0), q |-> <<>>, pg |-> PG0, sha |-> 0, prs |-> <<>>, pr |-> [n \in PRs |-> DefPR],
           gc |-> TRUE, bc |-> TRUE, sc |-> TRUE, upd |-> FALSE, crash |-> FALSE, nrun |-> 0, cand |-> 0]

Init ==
  /\ setup = TRUE
  /\ ghT = 1 /\ npush = 0
  /\ ghHead = [n \in PRs |-> 1]
  /\ ghOpen = [n \in PRs |-> TRUE]
  /\ ghRev = [n \in PRs |-> "REVIEW_REQUIRED"]
  /\ ghLab = [n \in PRs |-> {}]
  /\ ghExt = [n \in PRs |-> [k \in 1..MaxC |-> "absent"]]
  /\ ghCi = [n \in PRs |-> [k \in 1..MaxC |-> "absent"]]
  /\ batches = <<>>
  /\ ci = InitCi
  /\ budget = Budget
  /\ seenT = 0
  /\ seenLab = [n \in PRs |-> {}]
  /\ seenSt = [n \in PRs |-> [sha |-> 0, rev |-> "none", ext |-> "absent"]]
  /\ used = {} /\ nmerged = 0 /\ bad = {}

----------------------------------------------------------------------------
\* ---- helpers ------------------------------------------------------------------------------
RECURSIVE Asc(_)
Asc(S) == IF S = {} THEN <<>> ELSE LET m == CHOOSE x \in S : \A y \in S : x <= y IN <<m>> \o Asc(S \ {m})
SeqSet(s) == { s[i] : i \in 1..Len(s) }
MaxOf(S) == CHOOSE x \in S : \A y \in S : y <= x

\* PR.github_status_from_build_state (evaluated with the batch of that moment)
StatusOf(b, bat) == IF b \in {"failure", "error"} THEN "failure"
                    ELSE IF b = "success" /\ bat # 0 THEN "success" ELSE "pending"

\* PR.set_build_state: <<new PR record, state_changed>>; the intended status is recomputed only when the state changes
SetBS(p, b) == IF b = p.bs THEN <<p, FALSE>>
               ELSE LET i == StatusOf(b, p.bat) IN <<[p EXCEPT !.bs = b, !.intd = i], i # p.intd>>

AllSuccess(l) == \A x \in Ctx : l[x] \in {"absent", "success"}       \* all() over the dict's values
AnyFailure(l) == \E x \in Ctx : l[x] = "failure"

\* PR.merge_priority as one number (lexicographic: high priority, not do-not-merge, passed > unknown > failed, oldest)
Prio(p, n) == (IF "prio:high" \in p.lab THEN 1000 ELSE 0) + (IF p.lab \cap DNM = {} THEN 100 ELSE 0)
              + (IF AllSuccess(p.lks) THEN 20 ELSE IF AnyFailure(p.lks) THEN 0 ELSE 10) + (9 - n)

RECURSIVE ByPrio(_, _)
ByPrio(c, S) == IF S = {} THEN <<>>
                ELSE LET m == CHOOSE x \in S : \A y \in S : Prio(c.pr[y], y) <= Prio(c.pr[x], x) IN <<m>> \o ByPrio(c, S \ {m})

\* PR.is_mergeable without its assertion
Mergeable(c, n) == LET p == c.pr[n] IN
  /\ p.rev = "approved"
  /\ \E x \in Ctx : p.lks[x] # "absent"
  /\ AllSuccess(p.lks)
  /\ p.bat # 0 /\ p.btgt = c.sha                                      \* is_up_to_date
  /\ p.lab \cap DNM = {}

\* WatchedBranch._heal up to the first PR._heal: merge candidate, running batches, order
HealStart(c) ==
  LET S == SeqSet(c.prs)
      E == { n \in S : c.pr[n].rev = "approved" /\ ~AnyFailure(c.pr[n].lks) }
      cand == IF E = {} THEN 0 ELSE CHOOSE x \in E : \A y \in E : Prio(c.pr[y], y) <= Prio(c.pr[x], x)
  IN [c EXCEPT !.cand = cand,
               !.nrun = Cardinality({ n \in S : c.pr[n].bat # 0 /\ c.pr[n].bs = "none" }),
               !.q = ByPrio(c, S), !.pc = P("healq", 0)]

\* The code between two requests.  Positions that are requests (or idle) are fixed points.
RECURSIVE Run(_)
Run(c) ==
  CASE c.pc.k = "loop" ->                                            \* while github_changed or batch_changed or state_changed
         IF ~(c.gc \/ c.bc \/ c.sc) THEN [c EXCEPT !.pc = P("idle", 0), !.upd = FALSE, !.q = <<>>]
         ELSE IF c.gc THEN [c EXCEPT !.gc = FALSE, !.pc = P("branch", 0), !.q = <<>>]
         ELSE Run([c EXCEPT !.pc = P("afterGh", 0)])
    [] c.pc.k = "statusq" ->                                         \* for pr in new_prs.values(): await pr._update_github(gh)
         IF c.q = <<>> THEN Run([c EXCEPT !.pc = P("afterGh", 0)])
         ELSE [c EXCEPT !.pc = P("status", Head(c.q)), !.q = Tail(c.q)]
    [] c.pc.k = "afterGh" ->
         IF c.bc THEN Run([c EXCEPT !.bc = FALSE, !.pc = P("batchq", 0), !.q = c.prs])
         ELSE Run([c EXCEPT !.pc = P("afterBatch", 0)])
    [] c.pc.k = "batchq" ->                                          \* for pr in self.prs.values(): await pr._update_batch(...)
         IF c.q = <<>> THEN Run([c EXCEPT !.pc = P("afterBatch", 0)])
         ELSE [c EXCEPT !.pc = P("batch", Head(c.q)), !.q = Tail(c.q)]
    [] c.pc.k = "afterBatch" ->
         IF c.sc THEN Run(HealStart([c EXCEPT !.sc = FALSE]))
         ELSE Run([c EXCEPT !.pc = P("loop", 0)])
    [] c.pc.k = "healq" ->                                           \* for pr in prs_by_prio: await pr._heal(...)
         IF c.q = <<>> THEN [c EXCEPT !.pc = P("orphans", 0)]
         ELSE LET n == Head(c.q)
                  c1 == [c EXCEPT !.q = Tail(c.q)]
              IN IF c.sha = 0 THEN Run(c1)
                 ELSE IF c.pr[n].intd # c.pr[n].lks["ci"] THEN [c1 EXCEPT !.pc = P("post", n)]
                 ELSE Run([c1 EXCEPT !.pc = P("healB", n)])
    [] c.pc.k = "healB" ->                                           \* PR._heal after the status post
         LET n == c.pc.n
             p == c.pr[n]
             back == [c EXCEPT !.pc = P("healq", 0)]
         IN IF "do-not-test" \in p.lab THEN Run(back)
            ELSE IF p.bat = 0 \/ (c.cand = n /\ p.btgt # c.sha)
                 THEN IF c.cand = n \/ c.nrun < MAXRUN
                      THEN \* _start_build up to batch.submit(): batch = None, set_build_state(None)
                           LET r == SetBS([p EXCEPT !.bat = 0, !.btgt = 0], "none") IN
                           [c EXCEPT !.nrun = @ + 1, !.pr[n] = r[1], !.sc = @ \/ r[2], !.pc = P("build", n)]
                      ELSE Run(back)
                 ELSE Run(back)
    [] c.pc.k = "tryq" ->                                            \* for pr in prs_in_merge_priority_order(): ...
         IF c.q = <<>> THEN Run([c EXCEPT !.pc = P("loop", 0)])
         ELSE LET n == Head(c.q)
                  p == c.pr[n]
                  c1 == [c EXCEPT !.q = Tail(c.q)]
              IN IF p.lks["ci"] = "success" /\ p.bs # "success"
                 THEN \* the assertion in is_mergeable fails: the pass dies with AssertionError, flags stay
                      [c1 EXCEPT !.pc = P("idle", 0), !.upd = FALSE, !.crash = TRUE, !.q = <<>>]
                 ELSE IF Mergeable(c, n) THEN [c1 EXCEPT !.pc = P("merge", n)]
                 ELSE Run(c1)
    [] OTHER -> c

\* end of WatchedBranch._heal: (deploy_batch is None ...) and not frozen and mergeable -> try_to_merge
TryStart(c) == [c EXCEPT !.q = ByPrio(c, SeqSet(c.prs)), !.pc = P("tryq", 0)]

----------------------------------------------------------------------------
\* ---- environment: people and time ---------------------------------------------------------------------
Setup(rv, lb) ==
  /\ setup /\ setup' = FALSE
  /\ ghRev' = rv /\ ghLab' = lb
  /\ UNCHANGED <<ghT, npush, ghHead, ghOpen, ghExt, ghCi, batches, ci, budget, histVars>>

Spend == ~setup /\ budget > 0 /\ budget' = budget - 1 /\ setup' = setup

PushPR(n) ==
  /\ Spend /\ ghOpen[n] /\ ghHead[n] < MaxC
  /\ ghHead' = [ghHead EXCEPT ![n] = @ + 1]
  /\ UNCHANGED <<ghT, npush, ghOpen, ghRev, ghLab, ghExt, ghCi, batches, ci, histVars>>

PushTarget ==
  /\ Spend /\ npush < MaxPush
  /\ ghT' = ghT + 1 /\ npush' = npush + 1
  /\ UNCHANGED <<ghHead, ghOpen, ghRev, ghLab, ghExt, ghCi, batches, ci, histVars>>

Review(n, r) ==
  /\ Spend /\ ghOpen[n] /\ r # ghRev[n]
  /\ ghRev' = [ghRev EXCEPT ![n] = r]
  /\ UNCHANGED <<ghT, npush, ghHead, ghOpen, ghLab, ghExt, ghCi, batches, ci, histVars>>

Label(n, l) ==
  /\ Spend /\ ghOpen[n]
  /\ ghLab' = [ghLab EXCEPT ![n] = IF l \in @ THEN @ \ {l} ELSE @ \cup {l}]
  /\ UNCHANGED <<ghT, npush, ghHead, ghOpen, ghRev, ghExt, ghCi, batches, ci, histVars>>

\* the external required check reports on the PR's current head
Report(n, v) ==
  /\ Spend /\ ghOpen[n] /\ ghExt[n][ghHead[n]] # v
  /\ ghExt' = [ghExt EXCEPT ![n][ghHead[n]] = v]
  /\ UNCHANGED <<ghT, npush, ghHead, ghOpen, ghRev, ghLab, ghCi, batches, ci, histVars>>

BatchDone(b, ok) ==
  /\ ~setup /\ b \in 1..Len(batches) /\ batches[b].st = "running"
  /\ batches' = [batches EXCEPT ![b].st = IF ok THEN "success" ELSE "failure"]
  /\ UNCHANGED <<setup, ghVars, ci, budget, histVars>>

\* webhooks, batch callbacks and the periodic update: notify_github_changed / notify_batch_changed / update.
\* They may come at any time, late, or never; while a pass is running they only raise flags.
Notify(kind) ==
  /\ ~setup
  /\ LET c0 == [ci EXCEPT !.gc = @ \/ kind \in {"github", "all"}, !.bc = @ \/ kind \in {"batch", "all"}, !.sc = @ \/ kind = "all"]
     IN ci' = IF ci.upd THEN c0 ELSE Run([c0 EXCEPT !.upd = TRUE, !.crash = FALSE, !.pc = P("loop", 0)])
  /\ UNCHANGED <<setup, ghVars, batches, budget, histVars>>

----------------------------------------------------------------------------
\* ---- CI: one action per request ------------------------------------------------------------------------
FetchBranch ==
  /\ ci.pc.k = "branch"
  /\ ci' = Run([ci EXCEPT !.sha = ghT, !.sc = @ \/ (ghT # ci.sha), !.pc = P("pulls", 0)])
  /\ seenT' = ghT
  /\ UNCHANGED <<setup, ghVars, batches, budget, seenLab, seenSt, used, nmerged, bad>>

FetchPRs ==
  /\ ci.pc.k = "pulls"
  /\ LET open == { n \in PRs : ghOpen[n] }
         known == SeqSet(ci.prs)
         moved(n) == n \in known /\ ghHead[n] # ci.pr[n].src
         relab(n) == n \in known /\ ghLab[n] # ci.pr[n].lab
         new(n) == IF n \notin open THEN DefPR
                   ELSE IF n \notin known THEN [DefPR EXCEPT !.src = ghHead[n], !.lab = ghLab[n]]
                   ELSE IF moved(n)      \* update_from_gh_json: new head resets sha, batch, build state
                        THEN [ci.pr[n] EXCEPT !.lab = ghLab[n], !.src = ghHead[n], !.bat = 0, !.btgt = 0, !.bs = "none", !.intd = "pending"]
                        ELSE [ci.pr[n] EXCEPT !.lab = ghLab[n]]
         sc == \E n \in open : n \notin known \/ moved(n) \/ relab(n)
         bc == \E n \in open : n \notin known \/ moved(n)
     IN ci' = Run([ci EXCEPT !.prs = Asc(open), !.pr = [n \in PRs |-> new(n)], !.sc = @ \/ sc, !.bc = @ \/ bc,
                             !.q = Asc(open), !.pc = P("statusq", 0)])
  /\ seenLab' = [n \in PRs |-> IF ghOpen[n] THEN ghLab[n] ELSE seenLab[n]]
  /\ UNCHANGED <<setup, ghVars, batches, budget, seenT, seenSt, used, nmerged, bad>>

RevState(r) == IF r = "APPROVED" THEN "approved" ELSE IF r = "CHANGES_REQUESTED" THEN "changes_requested" ELSE "pending"

\* One PAGE of the status query: PR._update_github asks for the contexts of the last commit PageSize at a time
\* (`first: 10, after: <cursor>`), one awaited request per page, until hasNextPage is false (or the commit has no
\* rollup at all).  Every page is answered for the head of THAT moment; the review decision is kept from the first
\* page; only after the last page are review_state and last_known_github_status replaced.
FetchStatus(n) ==
  /\ ci.pc = P("status", n)
  /\ LET h == ghHead[n]                                   \* commits(last: 1): the head NOW, whatever CI has cached
         val(x) == IF x = "ci" THEN ghCi[n][h] ELSE ghExt[n][h]
         all == SelectSeq(CtxSeq, LAMBDA x : val(x) # "absent")          \* statusCheckRollup is null when empty
         cur == ci.pg.cur
         first == cur = 0
         upto == IF cur + PageSize < Len(all) THEN cur + PageSize ELSE Len(all)
         page == IF cur < Len(all) THEN SeqSet(SubSeq(all, cur + 1, upto)) ELSE {}
         more == Len(all) > cur + PageSize                                \* pageInfo.hasNextPage
         rd == IF first THEN ghRev[n] ELSE ci.pg.rd
         acc == [x \in Ctx |-> IF x \in page THEN val(x) ELSE ci.pg.acc[x]]
         rs == RevState(rd)
         p == ci.pr[n]
     IN /\ ci' = IF more THEN [ci EXCEPT !.pg = [cur |-> cur + PageSize, rd |-> rd, acc |-> acc]]
                 ELSE Run([ci EXCEPT !.pr[n].rev = rs, !.pr[n].lks = acc, !.sc = @ \/ rs # p.rev \/ acc # p.lks,
                                     !.pg = PG0, !.pc = P("statusq", 0)])
        /\ seenSt' = [seenSt EXCEPT ![n] =
                        [sha |-> IF first \/ seenSt[n].sha = h THEN h ELSE 0,      \* 0: pages came from different commits
                         rev |-> IF first THEN ghRev[n] ELSE seenSt[n].rev,
                         ext |-> IF "ext" \in page THEN ghExt[n][h] ELSE IF first THEN "absent" ELSE seenSt[n].ext]]
  /\ UNCHANGED <<setup, ghVars, batches, budget, seenT, seenLab, used, nmerged, bad>>

UpdateBatch(n) ==
  /\ ci.pc = P("batch", n)
  /\ LET p == ci.pr[n]
         S == { i \in 1..Len(batches) : batches[i].pr = n /\ batches[i].src = p.src /\ batches[i].st # "cancelled" }
         i == MaxOf(S)
         r == IF S = {} THEN SetBS([p EXCEPT !.bat = 0, !.btgt = 0], "none")
              ELSE IF batches[i].st = "running" THEN <<[p EXCEPT !.bat = i, !.btgt = batches[i].tgt], FALSE>>
              ELSE <<SetBS([p EXCEPT !.bat = i, !.btgt = batches[i].tgt], batches[i].st)[1], TRUE>>
     IN ci' = Run([ci EXCEPT !.pr[n] = r[1], !.sc = @ \/ r[2], !.pc = P("batchq", 0)])
  /\ UNCHANGED <<setup, ghVars, batches, budget, histVars>>

PostStatus(n) ==
  /\ ci.pc = P("post", n)
  /\ LET p == ci.pr[n] IN
     /\ ghCi' = [ghCi EXCEPT ![n][p.src] = p.intd]
     /\ ci' = Run([ci EXCEPT !.pr[n].lks["ci"] = p.intd, !.pc = P("healB", n)])
  /\ UNCHANGED <<setup, ghT, npush, ghHead, ghOpen, ghRev, ghLab, ghExt, batches, budget, histVars>>

StartBuild(n) ==
  /\ ci.pc = P("build", n)
  /\ batches' = Append(batches, [pr |-> n, src |-> ci.pr[n].src, tgt |-> ci.sha, st |-> "running"])
  /\ ci' = Run([ci EXCEPT !.pr[n].bat = Len(batches) + 1, !.pr[n].btgt = ci.sha, !.pc = P("healq", 0)])
  /\ UNCHANGED <<setup, ghVars, budget, histVars>>

Orphans ==
  /\ ci.pc.k = "orphans"
  /\ LET seen == { ci.pr[n].bat : n \in SeqSet(ci.prs) } IN
     batches' = [i \in 1..Len(batches) |-> IF batches[i].st = "running" /\ i \notin seen
                                           THEN [batches[i] EXCEPT !.st = "cancelled"] ELSE batches[i]]
  /\ ci' = Run(TryStart(ci))
  /\ UNCHANGED <<setup, ghVars, budget, histVars>>

\* What an accepted merge of PR n must satisfy (the property), judged on what GitHub and Batch really
\* answered to CI's latest requests -- not on CI's own book-keeping:
MergeTags(n) ==
  LET p == ci.pr[n]
      h == ghHead[n]
      B == IF p.bat \in 1..Len(batches) THEN batches[p.bat] ELSE [pr |-> 0, src |-> 0, tgt |-> 0, st |-> "none"]
  IN (IF seenSt[n].rev # "APPROVED" THEN {"review"} ELSE {})
     \cup (IF seenLab[n] \cap DNM # {} THEN {"label"} ELSE {})
     \cup (IF seenSt[n].sha # h THEN {"stale"} ELSE {})                       \* checks were fetched for another commit
     \cup (IF seenSt[n].ext \notin {"absent", "success"} \/ ghCi[n][h] # "success" THEN {"checks"} ELSE {})
     \cup (IF B.pr # n \/ B.src # h \/ B.st # "success" THEN {"batch"} ELSE {})    \* its test batch: this head, succeeded
     \cup (IF B.tgt = 0 \/ B.tgt # seenT THEN {"target"} ELSE {})              \* ... against the target sha as last fetched
     \cup (IF seenT \in used THEN {"twice"} ELSE {})                           \* one merge per fetched target sha

\* GitHub accepts the merge only if the `sha` parameter is the PR's head (409 otherwise)
MergeOk(n) ==
  /\ ci.pc = P("merge", n)
  /\ ghOpen[n] /\ ci.pr[n].src = ghHead[n]
  /\ ghOpen' = [ghOpen EXCEPT ![n] = FALSE]
  /\ ghT' = ghT + 1
  /\ bad' = bad \cup MergeTags(n)
  /\ used' = used \cup {seenT}
  /\ nmerged' = nmerged + 1
  /\ ci' = Run([ci EXCEPT !.gc = TRUE, !.sha = 0, !.sc = TRUE, !.cand = 0, !.pc = P("loop", 0)])
  /\ UNCHANGED <<setup, npush, ghHead, ghRev, ghLab, ghExt, ghCi, batches, budget, seenT, seenLab, seenSt>>

MergeRefused(n) ==
  /\ ci.pc = P("merge", n)
  /\ ~(ghOpen[n] /\ ci.pr[n].src = ghHead[n])
  /\ ci' = Run([ci EXCEPT !.pc = P("tryq", 0)])
  /\ UNCHANGED <<setup, ghVars, batches, budget, histVars>>

Env == \/ \E rv \in [PRs -> Reviews], lb \in [PRs -> SUBSET Labels] : Setup(rv, lb)
       \/ \E n \in PRs : PushPR(n) \/ (\E r \in Reviews : Review(n, r)) \/ (\E l \in Labels : Label(n, l))
                         \/ (\E v \in ExtVals : Report(n, v))
       \/ PushTarget
       \/ \E b \in BatchIds, ok \in BOOLEAN : BatchDone(b, ok)
       \/ \E kind \in NotifyKinds : Notify(kind)

CI == \/ FetchBranch \/ FetchPRs \/ Orphans
      \/ \E n \in PRs : FetchStatus(n) \/ UpdateBatch(n) \/ PostStatus(n) \/ StartBuild(n) \/ MergeOk(n) \/ MergeRefused(n)

Next == Env \/ CI
Spec == Init /\ [][Next]_vars

----------------------------------------------------------------------------
\* ---- the property ------------------------------------------------------------------------------------
\* "merges a pull request only if it is approved, ..."
C30_Approved      == "review" \notin bad
\* "... is not labelled do-not-merge, ..."
C30_NotDoNotMerge == "label" \notin bad
\* "... every reported check on its current head commit succeeded, ..." : the checks CI relied on were those of
\* the commit that was merged (GitHub's sha test makes that commit the PR's true head), none of them non-success
C30_ChecksOfHead  == "stale" \notin bad
C30_ChecksSucceeded == "checks" \notin bad
\* "... and its test batch ran against the target branch's current commit" : the batch belongs to this PR and
\* head, succeeded, and its target sha is what GitHub returned for the branch at CI's latest look
C30_BatchOfHead   == "batch" \notin bad
C30_BatchOnTarget == "target" \notin bad
\* "it merges at most one pull request per target-branch update"
C30_OnePerTarget  == "twice" \notin bad

\* ---- what makes the above work (checked as invariants too) ---------------------------------------------
Stat == {"absent", "success", "failure", "pending"}
TypeOK ==
  /\ ci.pc.k \in {"idle", "branch", "pulls", "status", "batch", "post", "build", "orphans", "merge"}
  /\ ci.sha \in 0..ghT
  /\ \A n \in PRs : /\ ci.pr[n].src \in 0..MaxC /\ ci.pr[n].bat \in 0..Len(batches)
                    /\ ci.pr[n].rev \in {"none", "approved", "pending", "changes_requested"}
                    /\ ci.pr[n].bs \in {"none", "success", "failure"} /\ ci.pr[n].intd \in {"pending", "success", "failure"}
                    /\ \A x \in Ctx : ci.pr[n].lks[x] \in Stat
  /\ (ci.pc.k = "idle") = ~ci.upd
\* the cached batch's attributes are those of the service, it is a batch of this PR and cached head
CacheBatch == \A n \in PRs : LET p == ci.pr[n] IN p.bat # 0 =>
                 /\ batches[p.bat].pr = n /\ batches[p.bat].src = p.src /\ batches[p.bat].tgt = p.btgt
\* a cached "success" build state belongs to a successful batch, or to none
BuildStateTrue == \A n \in PRs : LET p == ci.pr[n] IN (p.bs = "success" /\ p.bat # 0) => batches[p.bat].st = "success"
\* the cached target sha is exactly what the last branch fetch returned, or forgotten
CacheTarget == ci.sha \in {0, seenT}
\* a merge request is only ever sent with a known target
MergeNeedsTarget == ci.pc.k = "merge" => ci.sha # 0 /\ Mergeable(ci, ci.pc.n)
\* CI's success status on a commit is backed by a successful batch of that commit
CiStatusBacked == \A n \in PRs, k \in 1..MaxC : ghCi[n][k] = "success" =>
                    \E i \in 1..Len(batches) : batches[i].pr = n /\ batches[i].src = k /\ batches[i].st = "success"

\* ---- reachability probes (each is expected to be VIOLATED; vacuity guards) ------------------------------
Probe_NoMerge   == nmerged = 0
Probe_NoSecond  == nmerged < 2
Probe_NoCrash   == ~ci.crash
Probe_NoRefusal == ~(ci.pc.k = "merge" /\ ~(ghOpen[ci.pc.n] /\ ci.pr[ci.pc.n].src = ghHead[ci.pc.n]))
=============================================================================
