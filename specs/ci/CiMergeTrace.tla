---------------------------- MODULE CiMergeTrace ----------------------------
(* Trace validation (B2) for CiMerge.  Each line of the ndjson file is one recorded execution of the real
   ci.github.WatchedBranch / PR objects against the fake GitHub / Batch service (checks/_ci_fake.py):
     [ev |-> << [a |-> action name, (arguments), post |-> Snap of the implementation + environment], ... >>]
   Every event must be a step of CiMerge with the logged arguments whose successor state projects (Snap) to
   the logged post-state.  All invariants of CiMerge (the property) are evaluated along the way; a trace that
   cannot be continued is a deadlock of this specification.  PRs must be 1..N here (functions = JSON arrays). *)
EXTENDS CiMerge, Json, IOUtils

Traces == ndJsonDeserialize(IOEnv.TRACE_FILE)
VARIABLES tid, l
tvars == <<vars, tid, l>>

TraceInit == Init /\ tid \in 1..Len(Traces) /\ l = 1

Ev == Traces[tid].ev

Flags(S) == [x \in Labels |-> x \in S]
SnapPR(p) == [src |-> p.src, lab |-> Flags(p.lab), rev |-> p.rev, lks |-> p.lks, bat |-> p.bat, btgt |-> p.btgt,
              bs |-> p.bs, intd |-> p.intd]
Snap == [ghT |-> ghT, npush |-> npush, ghHead |-> ghHead, ghOpen |-> ghOpen, ghRev |-> ghRev,
         ghLab |-> [n \in PRs |-> Flags(ghLab[n])], ghExt |-> ghExt, ghCi |-> ghCi, batches |-> batches,
         ci |-> [pc |-> ci.pc, sha |-> ci.sha, prs |-> ci.prs, pr |-> [n \in PRs |-> SnapPR(ci.pr[n])],
                 gc |-> ci.gc, bc |-> ci.bc, sc |-> ci.sc, upd |-> ci.upd, crash |-> ci.crash,
                 nrun |-> ci.nrun, cand |-> ci.cand]]

Act(e) ==
  CASE e.a = "Setup"       -> Setup(e.rv, [n \in PRs |-> SeqSet(e.lb[n])])
    [] e.a = "PushPR"      -> PushPR(e.n)
    [] e.a = "PushTarget"  -> PushTarget
    [] e.a = "Review"      -> Review(e.n, e.r)
    [] e.a = "Label"       -> Label(e.n, e.l)
    [] e.a = "Report"      -> Report(e.n, e.v)
    [] e.a = "BatchDone"   -> BatchDone(e.b, e.ok)
    [] e.a = "Notify"      -> Notify(e.kind)
    [] e.a = "FetchBranch" -> FetchBranch
    [] e.a = "FetchPRs"    -> FetchPRs
    [] e.a = "FetchStatus" -> FetchStatus(e.n)
    [] e.a = "UpdateBatch" -> UpdateBatch(e.n)
    [] e.a = "PostStatus"  -> PostStatus(e.n)
    [] e.a = "StartBuild"  -> StartBuild(e.n)
    [] e.a = "Orphans"     -> Orphans
    [] e.a = "Merge"       -> IF e.ok THEN MergeOk(e.n) ELSE MergeRefused(e.n)
    [] OTHER -> FALSE

TraceStep ==
  /\ l <= Len(Ev)
  /\ Act(Ev[l])
  /\ Snap' = Ev[l].post
  /\ l' = l + 1 /\ UNCHANGED tid

TraceDone == l > Len(Ev) /\ UNCHANGED tvars

TraceNext == TraceStep \/ TraceDone
TraceSpec == TraceInit /\ [][TraceNext]_tvars
=============================================================================
