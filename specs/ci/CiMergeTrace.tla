---------------------------- MODULE CiMergeTrace ----------------------------
(* Trace validation (B2) for CiMerge.  Each line of the ndjson file is one recorded execution of the real
   ci.github.WatchedBranch / PR objects against the fake GitHub / Batch service (checks/_ci_fake.py):
     [ev |-> << [a |-> action name, (arguments), post |-> CI's cache + pending request + environment], ... >>]
   Every event must be a step of CiMerge with the logged arguments whose successor state agrees (PostOk) with
   the logged post-state.  All invariants of CiMerge (the property) are evaluated along the way; a trace that
   cannot be continued is a deadlock of this specification.  PRs must be 1..N here (functions = JSON arrays). *)
EXTENDS CiMerge, Json, IOUtils

Traces == ndJsonDeserialize(IOEnv.TRACE_FILE)
VARIABLES tid, l
tvars == <<vars, tid, l>>

TraceInit == Init /\ tid \in 1..Len(Traces) /\ l = 1

Ev == Traces[tid].ev

\* what is compared: CI's whole cache and pending request, and the part of the environment CI's requests change
\* (the rest of the environment changes only by the logged human actions themselves)
PROk(p, j) == /\ p.src = j.src /\ p.lab = SeqSet(j.lab) /\ p.rev = j.rev /\ p.lks = j.lks /\ p.bat = j.bat
              /\ p.btgt = j.btgt /\ p.bs = j.bs /\ p.intd = j.intd
PostOk(j) ==
  /\ ghT' = j.ghT /\ ghOpen' = j.ghOpen /\ ghCi' = j.ghCi /\ batches' = j.batches
  /\ LET c == ci' d == j.ci IN
     /\ c.pc = d.pc /\ c.sha = d.sha /\ c.prs = d.prs /\ \A n \in PRs : PROk(c.pr[n], d.pr[n])
     /\ c.gc = d.gc /\ c.bc = d.bc /\ c.sc = d.sc /\ c.upd = d.upd /\ c.crash = d.crash
     /\ c.nrun = d.nrun /\ c.cand = d.cand

Act(e) ==
  CASE e.a = "Setup"       -> Setup(e.rv, [n \in PRs |-> SeqSet(e.lb[n])])
    [] e.a = "PushPR"      -> PushPR(e.n)
    [] e.a = "PushTarget"  -> PushTarget
    [] e.a = "Review"      -> Review(e.n, e.r)
    [] e.a = "Label"       -> Label(e.n, e.l)
    [] e.a = "Report"      -> Report(e.n, e.v)
    [] e.a = "BatchDone"   -> BatchDone(e.b, e.ok)
    [] e.a = "Notify"      -> Notify(e.kind)
    [] e.a = "FetchBranch" -> FetchBranch
    [] e.a = "FetchPRs"    -> FetchPRs
    [] e.a = "FetchStatus" -> FetchStatus(e.n)
    [] e.a = "UpdateBatch" -> UpdateBatch(e.n)
    [] e.a = "PostStatus"  -> PostStatus(e.n)
    [] e.a = "StartBuild"  -> StartBuild(e.n)
    [] e.a = "Orphans"     -> Orphans
    [] e.a = "Merge"       -> IF e.ok THEN MergeOk(e.n) ELSE MergeRefused(e.n)
    [] OTHER -> FALSE

TraceStep ==
  /\ l <= Len(Ev)
  /\ Act(Ev[l])
  /\ PostOk(Ev[l].post)
  /\ l' = l + 1 /\ UNCHANGED tid

TraceDone == l > Len(Ev) /\ UNCHANGED tvars

TraceNext == TraceStep \/ TraceDone
TraceSpec == TraceInit /\ [][TraceNext]_tvars
=============================================================================
