---- MODULE SubmitValidateVerdict ----
EXTENDS SubmitValidate
ASSUME Verdict(ndJsonDeserialize(IOEnv.SV_CASES))
====
