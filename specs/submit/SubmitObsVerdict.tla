---- MODULE SubmitObsVerdict ----
EXTENDS SubmitObs
ASSUME Verdict(ndJsonDeserialize(IOEnv.SO_OBS))
====
