----------------------------- MODULE BatchSubmit -----------------------------
(* C09 (and the id bookkeeping of C08): the submission protocol between retrying clients and the batch front end.

   Clients (hailtop/batch_client/aioclient.py Batch._submit) submit ONE update each to the same batch: the first client
   also creates the batch.  An update with a single bunch goes through a fast path (create-fast / update-fast),
   otherwise: create (or updates/create) ; job-group bunch ; job bunches (in parallel) ; commit.
   Every request a client has issued stays re-deliverable for ever (`sent`): a retrying client re-sends after a lost
   response, so the server may handle any issued request any number of times, in any order, interleaved with the
   other client's requests.  The fast-path handlers run several transactions; each transaction is one step of a
   handler instance (`hs`), so two deliveries of the same request can interleave.

   Server transactions (batch/batch/front_end/front_end.py):
     TxCreateBatch   _create_batch          : token lookup, else insert batch + root group
     TxCreateUpdate  _create_batch_update   : token lookup, else reserve the next job-id / group-id ranges
     TxGroups        _create_job_groups     : ordering check against the last inserted group id
     TxJobs          _create_jobs           : insert the bunch; a duplicate key on its first job means "already inserted"
     TxCommit        commit_batch_update    : staged job count must equal the declared count; idempotent            *)
EXTENDS Naturals, Integers, FiniteSets, Sequences, TLC

CONSTANTS Clients,      \* e.g. {"c1", "c2"}
          Creator,      \* the client that creates the batch
          NJ, NG,       \* NJ[c], NG[c]: jobs / job groups of client c's update
          Bunches,      \* Bunches[c]: sequence of sets of in-update job ids (the job bunches, contiguous runs)
          MaxDeliveries \* bound on handler instances per request

VARIABLES nbatch,       \* number of batch rows with the creator's token
          upds,         \* sequence of update rows [tok, sj, nj, sg, ng, committed]
          jobs,         \* set of <<absolute job id, update id>> rows
          groups,       \* set of <<absolute group id, update id>> rows (root group 0 excluded)
          stg,          \* stg[u] = staged n_jobs of update u (root group row, summed over tokens)
          bnj,          \* batches.n_jobs
          sent,         \* requests issued so far
          ndeliv,       \* ndeliv[r] = handler instances started for request r
          hs,           \* set of running handler instances [req, n, pc]
          resp,         \* requests for which a (successful) response has been produced at least once
          cpc, cuid, cstart, cgstart   \* client: program counter, learned update id, learned start job / group id

vars == <<nbatch, upds, jobs, groups, stg, bnj, sent, ndeliv, hs, resp, cpc, cuid, cstart, cgstart>>

Tok(c) == c                                   \* update token of client c (the batch token is the creator's)
NBunch(c) == Len(Bunches[c])
Fast(c) == NBunch(c) + (IF NG[c] > 0 THEN 1 ELSE 0) <= 1   \* everything fits one bunch
Req == [t : {"create", "create_fast", "create_update", "update_fast", "groups", "commit"}, c : Clients, k : {0}]
       \cup [t : {"jobs"}, c : Clients, k : 1..3]
UpdIdx(tok) == { i \in 1..Len(upds) : upds[i].tok = tok }
UpdOf(c) == CHOOSE i \in UpdIdx(Tok(c)) : TRUE

Init ==
  /\ nbatch = 0 /\ upds = <<>> /\ jobs = {} /\ groups = {} /\ stg = [u \in 1..Cardinality(Clients) |-> 0] /\ bnj = 0
  /\ sent = {} /\ ndeliv = [r \in Req |-> 0] /\ hs = {} /\ resp = {}
  /\ cpc = [c \in Clients |-> "init"] /\ cuid = [c \in Clients |-> 0] /\ cstart = [c \in Clients |-> 0]
  /\ cgstart = [c \in Clients |-> 0]

\* ---- server transactions ----------------------------------------------------------------------------------------
TxCreateBatch == nbatch' = IF nbatch = 0 THEN 1 ELSE nbatch
TxCreateUpdate(c) ==
  IF UpdIdx(Tok(c)) # {} THEN UNCHANGED upds
  ELSE LET n == Len(upds)
           sj == IF n = 0 THEN 1 ELSE upds[n].sj + upds[n].nj
           sg == IF n = 0 THEN 1 ELSE upds[n].sg + upds[n].ng
       IN upds' = Append(upds, [tok |-> Tok(c), sj |-> sj, nj |-> NJ[c], sg |-> sg, ng |-> NG[c], committed |-> FALSE])
MaxGroup == IF groups = {} THEN 0 ELSE CHOOSE m \in { g[1] : g \in groups } : \A g \in groups : g[1] <= m
\* one bunch with all NG[c] groups: accepted only if it continues the last inserted group id
TxGroups(c) ==
  LET u == UpdOf(c) IN groups' = groups \cup { <<upds[u].sg + i - 1, u>> : i \in 1..NG[c] }
TxJobs(c, k) ==
  LET u == UpdOf(c)
      ids == { upds[u].sj + i - 1 : i \in Bunches[c][k] }
      first == upds[u].sj + (CHOOSE i \in Bunches[c][k] : \A j \in Bunches[c][k] : i <= j) - 1
  IN IF \E r \in jobs : r[1] = first                             \* duplicate key on the first row: bunch already inserted
     THEN UNCHANGED <<jobs, stg>>
     ELSE /\ jobs' = jobs \cup { <<i, u>> : i \in ids }
          /\ stg' = [stg EXCEPT ![u] = @ + Cardinality(ids)]
TxCommit(c) ==
  LET u == UpdOf(c) IN
  IF upds[u].committed THEN UNCHANGED <<upds, bnj>>
  ELSE /\ upds' = [upds EXCEPT ![u].committed = TRUE]
       /\ bnj' = bnj + upds[u].nj

\* the transactions a request's handler runs, in order
Script(r) ==
  CASE r.t = "create"        -> IF NJ[r.c] + NG[r.c] > 0 THEN <<"CB", "CU">> ELSE <<"CB">>
    [] r.t = "create_update" -> <<"CU">>
    [] r.t = "groups"        -> <<"G">>
    [] r.t = "jobs"          -> <<"J">>
    [] r.t = "commit"        -> <<"CM">>
    [] r.t = "create_fast"   -> <<"CB", "CU">> \o (IF NG[r.c] > 0 THEN <<"G">> ELSE <<>>) \o (IF NJ[r.c] > 0 THEN <<"J">> ELSE <<>>) \o <<"CM">>
    [] r.t = "update_fast"   -> <<"CU">> \o (IF NG[r.c] > 0 THEN <<"G">> ELSE <<>>) \o (IF NJ[r.c] > 0 THEN <<"J">> ELSE <<>>) \o <<"CM">>

Deliver(r) ==                  \* the server starts handling (a copy of) an issued request
  /\ r \in sent /\ ndeliv[r] < MaxDeliveries
  /\ ndeliv' = [ndeliv EXCEPT ![r] = @ + 1]
  /\ hs' = hs \cup {[req |-> r, n |-> ndeliv[r] + 1, pc |-> 1]}
  /\ UNCHANGED <<nbatch, upds, jobs, groups, stg, bnj, sent, resp, cpc, cuid, cstart, cgstart>>

\* outcome of one transaction inside a handler: "cont" (go on), "ok" (answer 200 now, skip the rest: the fast paths
\* treat 'update is already committed' as success), "err" (answer 4xx/5xx now)
IsFast(r) == r.t \in {"create_fast", "update_fast"}
Outcome(r, op) ==
  LET c == r.c IN
  CASE op \in {"G", "J", "CM"} /\ UpdIdx(Tok(c)) = {} -> "err"                                     \* 404: no such update
    [] op = "CU" /\ nbatch = 0 -> "err"
    [] op = "G" /\ upds[UpdOf(c)].committed -> IF IsFast(r) THEN "ok" ELSE "err"
    [] op = "G" /\ upds[UpdOf(c)].sg # MaxGroup + 1 -> "err"                                        \* not submitted in order
    [] op = "J" /\ upds[UpdOf(c)].committed -> IF IsFast(r) THEN "ok" ELSE "err"
    [] op = "CM" /\ ~upds[UpdOf(c)].committed /\ stg[UpdOf(c)] # upds[UpdOf(c)].nj -> "err"         \* wrong number of jobs
    [] OTHER -> "cont"

StepH(h) ==                    \* one transaction of a running handler; after the last one the response goes out
  /\ h \in hs
  /\ LET r == h.req  s == Script(r)  op == s[h.pc]  out == Outcome(r, op) IN
     /\ IF out # "cont" THEN UNCHANGED <<nbatch, upds, jobs, groups, stg, bnj>>
        ELSE CASE op = "CB" -> TxCreateBatch /\ UNCHANGED <<upds, jobs, groups, stg, bnj>>
               [] op = "CU" -> TxCreateUpdate(r.c) /\ UNCHANGED <<nbatch, jobs, groups, stg, bnj>>
               [] op = "G"  -> TxGroups(r.c) /\ UNCHANGED <<nbatch, upds, jobs, stg, bnj>>
               [] op = "J"  -> TxJobs(r.c, IF r.t = "jobs" THEN r.k ELSE 1) /\ UNCHANGED <<nbatch, upds, groups, bnj>>
               [] op = "CM" -> TxCommit(r.c) /\ UNCHANGED <<nbatch, jobs, groups, stg>>
     /\ IF out = "cont" /\ h.pc < Len(s)
        THEN hs' = (hs \ {h}) \cup {[h EXCEPT !.pc = @ + 1]} /\ UNCHANGED resp
        ELSE /\ hs' = hs \ {h}
             /\ resp' = IF out = "err" THEN resp ELSE resp \cup {r}
  /\ UNCHANGED <<sent, ndeliv, cpc, cuid, cstart, cgstart>>

Step(r, n) == \E h \in hs : h.req = r /\ h.n = n /\ StepH(h)

\* ---- clients -----------------------------------------------------------------------------------------------------------------
\* Batch._submit: the creator goes first, the other clients need the batch to exist (they hold its id).  A client moves on
\* when a response to its outstanding request(s) exists; what it learns are the ids the server reports.
RQ(t, c, k) == [t |-> t, c |-> c, k |-> k]
OpenReq(c) == RQ(IF Fast(c) THEN (IF c = Creator THEN "create_fast" ELSE "update_fast") ELSE (IF c = Creator THEN "create" ELSE "create_update"), c, 0)
Client(c) ==
  /\ \/ /\ cpc[c] = "init" /\ (c = Creator \/ nbatch > 0)
        /\ sent' = sent \cup {OpenReq(c)} /\ cpc' = [cpc EXCEPT ![c] = IF Fast(c) THEN "fast" ELSE "opening"]
        /\ UNCHANGED <<cuid, cstart, cgstart>>
     \/ /\ cpc[c] = "opening" /\ OpenReq(c) \in resp /\ UpdIdx(Tok(c)) # {}
        /\ cuid' = [cuid EXCEPT ![c] = UpdOf(c)]
        /\ IF NG[c] > 0 THEN sent' = sent \cup {RQ("groups", c, 0)} /\ cpc' = [cpc EXCEPT ![c] = "groups"]
           ELSE sent' = sent \cup { RQ("jobs", c, k) : k \in 1..NBunch(c) } /\ cpc' = [cpc EXCEPT ![c] = "jobs"]
        /\ UNCHANGED <<cstart, cgstart>>
     \/ /\ cpc[c] = "groups" /\ RQ("groups", c, 0) \in resp
        /\ IF NBunch(c) > 0 THEN sent' = sent \cup { RQ("jobs", c, k) : k \in 1..NBunch(c) } /\ cpc' = [cpc EXCEPT ![c] = "jobs"]
           ELSE sent' = sent \cup {RQ("commit", c, 0)} /\ cpc' = [cpc EXCEPT ![c] = "committing"]
        /\ UNCHANGED <<cuid, cstart, cgstart>>
     \/ /\ cpc[c] = "jobs" /\ \A k \in 1..NBunch(c) : RQ("jobs", c, k) \in resp          \* bounded_gather: all bunches in flight
        /\ sent' = sent \cup {RQ("commit", c, 0)} /\ cpc' = [cpc EXCEPT ![c] = "committing"]
        /\ UNCHANGED <<cuid, cstart, cgstart>>
     \/ /\ cpc[c] \in {"committing", "fast"} /\ (IF cpc[c] = "fast" THEN OpenReq(c) ELSE RQ("commit", c, 0)) \in resp
        /\ cpc' = [cpc EXCEPT ![c] = "done"] /\ cuid' = [cuid EXCEPT ![c] = UpdOf(c)]
        /\ cstart' = [cstart EXCEPT ![c] = upds[UpdOf(c)].sj] /\ cgstart' = [cgstart EXCEPT ![c] = upds[UpdOf(c)].sg]
        /\ UNCHANGED sent
  /\ UNCHANGED <<nbatch, upds, jobs, groups, stg, bnj, ndeliv, hs, resp>>

Next == (\E r \in Req : Deliver(r)) \/ (\E r \in Req, n \in 1..MaxDeliveries : Step(r, n)) \/ (\E c \in Clients : Client(c))
Spec == Init /\ [][Next]_vars

-----------------------------------------------------------------------------
\* ---- C09 -------------------------------------------------------------------------------------------------------------------------
C09_OneBatch == nbatch <= 1
C09_OneUpdatePerToken == \A i, j \in 1..Len(upds) : upds[i].tok = upds[j].tok => i = j
\* ranges are contiguous, disjoint and in update order
C09_Ranges == \A i \in 1..Len(upds) :
  /\ upds[i].sj = 1 + (IF i = 1 THEN 0 ELSE upds[i - 1].sj + upds[i - 1].nj - 1)
  /\ upds[i].sg = 1 + (IF i = 1 THEN 0 ELSE upds[i - 1].sg + upds[i - 1].ng - 1)
\* every job row lies in its update's range, exists once, and is counted once
C09_JobsOnce ==
  /\ \A r \in jobs : r[2] \in 1..Len(upds) /\ upds[r[2]].sj <= r[1] /\ r[1] < upds[r[2]].sj + upds[r[2]].nj
  /\ \A r1, r2 \in jobs : r1[1] = r2[1] => r1 = r2
  /\ \A u \in 1..Len(upds) : stg[u] = Cardinality({ r \in jobs : r[2] = u })
  /\ \A r \in groups : r[2] \in 1..Len(upds) /\ upds[r[2]].sg <= r[1] /\ r[1] < upds[r[2]].sg + upds[r[2]].ng
C09_CountOnce == bnj = Cardinality({ r \in jobs : upds[r[2]].committed })
\* the absolute ids a client computes (start + in-update id - 1) are the ids of its own job rows
C09_ClientIds == \A c \in Clients : cpc[c] = "done" /\ cuid[c] # 0 =>
  /\ cstart[c] = upds[cuid[c]].sj /\ cgstart[c] = upds[cuid[c]].sg /\ upds[cuid[c]].tok = Tok(c)
  /\ { r[1] : r \in { x \in jobs : x[2] = cuid[c] } } = { cstart[c] + i - 1 : i \in 1..NJ[c] }
  /\ upds[cuid[c]].committed
=============================================================================
