----------------------------- MODULE SubmitObs -----------------------------
(* C09, end-to-end stage: the REAL client (hailtop.batch_client.aioclient.Batch.submit: bunching, fast / multi-bunch paths,
   update tokens, absolute-id computation) submits several updates to the REAL front-end handlers through an in-process
   transport that duplicates requests, re-delivers old requests and "loses" responses (the request is handled, the client
   sees a transient failure and its retry is handled again).  After each run the server tables and the client's view are
   recorded; this module states the C09 clauses over one such observation and TLC evaluates them for every recorded run.

   o.upds   : sequence of [id, tok, sj, nj, sg, ng, committed]     (batch_updates, in update-id order)
   o.jobs   : sequence of <<job id, update id>>                     (jobs rows)
   o.groups : sequence of <<group id, update id>>                   (job_groups rows, root excluded)
   o.staged : sequence of staged job counts per update (root group row, summed over tokens); -1 when cleaned up
   o.subs   : the client's submissions: [tok, nj, ng, ids (absolute job ids the client computed), gids]              *)
EXTENDS Naturals, Integers, FiniteSets, Sequences, SequencesExt, TLC, Json, IOUtils

ToSetO(s) == { s[i] : i \in 1..Len(s) }
OneBatch(o) == o.nbatch = 1
OneUpdatePerToken(o) == \A i, j \in 1..Len(o.upds) : o.upds[i].tok = o.upds[j].tok => i = j
Ranges(o) == \A i \in 1..Len(o.upds) :
  /\ o.upds[i].id = i
  /\ o.upds[i].sj = 1 + (IF i = 1 THEN 0 ELSE o.upds[i - 1].sj + o.upds[i - 1].nj - 1)
  /\ o.upds[i].sg = 1 + (IF i = 1 THEN 0 ELSE o.upds[i - 1].sg + o.upds[i - 1].ng - 1)
JobsOnce(o) ==
  /\ \A k \in 1..Len(o.jobs) : LET r == o.jobs[k] IN
        /\ r[2] \in 1..Len(o.upds) /\ o.upds[r[2]].sj <= r[1] /\ r[1] < o.upds[r[2]].sj + o.upds[r[2]].nj
        /\ \A m \in 1..Len(o.jobs) : o.jobs[m][1] = r[1] => m = k
  /\ \A u \in 1..Len(o.upds) : o.staged[u] = -1 \/ o.staged[u] = Cardinality({ k \in 1..Len(o.jobs) : o.jobs[k][2] = u })
  /\ \A k \in 1..Len(o.groups) : LET r == o.groups[k] IN
        /\ r[2] \in 1..Len(o.upds) /\ o.upds[r[2]].sg <= r[1] /\ r[1] < o.upds[r[2]].sg + o.upds[r[2]].ng
        /\ \A m \in 1..Len(o.groups) : o.groups[m][1] = r[1] => m = k
CountOnce(o) == o.bnj = Cardinality({ k \in 1..Len(o.jobs) : o.upds[o.jobs[k][2]].committed })
\* every completed client submission is exactly one committed update whose rows are the ids the client computed
ClientIds(o) == \A s \in 1..Len(o.subs) : LET c == o.subs[s] IN
  \E u \in 1..Len(o.upds) :
     /\ o.upds[u].tok = c.tok /\ o.upds[u].committed /\ o.upds[u].nj = c.nj /\ o.upds[u].ng = c.ng
     /\ ToSetO(c.ids) = { o.jobs[k][1] : k \in { m \in 1..Len(o.jobs) : o.jobs[m][2] = u } }
     /\ Len(c.ids) = c.nj /\ \A i \in 1..Len(c.ids) : c.ids[i] = o.upds[u].sj + i - 1
     /\ \A i \in 1..Len(c.gids) : c.gids[i] = o.upds[u].sg + i - 1
NoExtraUpdates(o) == Len(o.upds) = Len(o.subs)

Clauses == <<"OneBatch", "OneUpdatePerToken", "Ranges", "JobsOnce", "CountOnce", "ClientIds", "NoExtraUpdates">>
Holds(o, c) == CASE c = "OneBatch" -> OneBatch(o) [] c = "OneUpdatePerToken" -> OneUpdatePerToken(o) [] c = "Ranges" -> Ranges(o)
                 [] c = "JobsOnce" -> JobsOnce(o) [] c = "CountOnce" -> CountOnce(o) [] c = "ClientIds" -> ClientIds(o)
                 [] c = "NoExtraUpdates" -> NoExtraUpdates(o)
Verdict(obs) == JsonSerialize(IOEnv.SO_VERDICT,
   [n |-> Len(obs), bad |-> SetToSeq({ <<i, Clauses[k]>> : i \in 1..Len(obs), k \in 1..Len(Clauses) }
                                      \ { p \in (1..Len(obs)) \X ToSetO(Clauses) : Holds(obs[p[1]], p[2]) })])
=============================================================================
