---- MODULE SubmitValidateGen ----
EXTENDS SubmitValidate
ASSUME Gen
====
