--------------------------- MODULE SubmitValidate ---------------------------
(* C08: what the jobs/create (and create-fast / update-fast) endpoints may accept.

   World: a batch whose update 1 is committed and holds jobs 1..E (E = 0: there is no earlier update); the next update is open with the reserved job-id range
   S..S+N-1 (S = E+1) and may already hold some of its jobs.  A request is a bunch of job specs with contiguous
   in-update ids (the schema validator enforces contiguity); each job names absolute parent ids and in-update parent ids.

   Accept(b) is the property's rule: every job id lies in the update's reserved range and every parent is a job that
   precedes the job in the batch and -- if it belongs to an earlier update -- already exists.  Anything else must be
   rejected and must leave the tables unchanged.                                                                  *)
EXTENDS Naturals, Integers, FiniteSets, Sequences, SequencesExt, TLC, Json, IOUtils

E == atoi(IOEnv.SV_E)   \* jobs of the committed update 1 (0: the open update is the batch's first)
N == 2          \* declared size of update 2
S == E + 1      \* its start job id

InIds  == 0..(N + 1)            \* in-update ids a client may send (0 and N+1 are out of range)
AbsIds == 0..(E + N + 1)        \* absolute parent ids a client may send
SmallSets(U) == { X \in SUBSET U : Cardinality(X) <= 2 }
OneSets(U)   == { X \in SUBSET U : Cardinality(X) <= 1 }

JobSpec == [id : InIds, abs : SmallSets(AbsIds), rel : OneSets(InIds)]
\* single-job bunches, and two-job bunches with contiguous ids
Bunches == { <<j>> : j \in JobSpec }
           \cup { <<j1, j2>> : j1 \in [id : InIds, abs : OneSets(AbsIds), rel : {{}}],
                              j2 \in [id : InIds, abs : OneSets(AbsIds), rel : OneSets(InIds)] }
Contiguous(b) == \A k \in 1..(Len(b) - 1) : b[k + 1].id = b[k].id + 1
Inputs == { b \in Bunches : Contiguous(b) }

AbsId(j) == S + j.id - 1
Parents(j) == j.abs \cup { S + p - 1 : p \in j.rel }
JobOk(j) ==
  /\ 1 <= j.id /\ j.id <= N
  \* no self, later or non-positive parent; earlier-update parents (<= E) exist.  An in-update parent id <= 0 denotes a job
  \* of the previous update (start + id - 1): odd, but it is an existing earlier job, so the graph can finish.
  /\ \A p \in Parents(j) : 1 <= p /\ p < AbsId(j)
Accept(b) == \A k \in 1..Len(b) : JobOk(b[k])
\* the same parent named twice (once absolutely, once in-update): the property does not say; either answer is fine
Twice(b) == \E k \in 1..Len(b) : b[k].abs \cap { S + p - 1 : p \in b[k].rel } # {}

Gen == ndJsonSerialize(IOEnv.SV_INPUTS, SetToSeq({ [b |-> [k \in 1..Len(b) |-> [id |-> b[k].id, abs |-> SetToSeq(b[k].abs), rel |-> SetToSeq(b[k].rel)]]] : b \in Inputs }))

\* ---- verdict over recorded calls: [b, accepted, unchanged, rows (absolute ids inserted), edges (<<child, parent>> stored)] ----------------
CaseBunch(c) == [k \in 1..Len(c.b) |-> [id |-> c.b[k].id, abs |-> ToSet(c.b[k].abs), rel |-> ToSet(c.b[k].rel)]]
Ok(c) ==
  LET b == CaseBunch(c) IN
  IF Accept(b) /\ Twice(b) /\ ~c.accepted THEN c.unchanged
  ELSE IF Accept(b)
  THEN /\ c.accepted
       \* "can always finish": once the rest of the update is submitted and committed and every job that becomes Ready is run to
       \* Success, every job of the batch reaches a terminal state and the batch is complete
       /\ c.fin
       /\ ToSet(c.rows) = { AbsId(b[k]) : k \in 1..Len(b) }
       /\ ToSet(c.edges) = UNION { { <<AbsId(b[k]), p>> : p \in Parents(b[k]) } : k \in 1..Len(b) }
  ELSE ~c.accepted /\ c.unchanged
Verdict(cases) == JsonSerialize(IOEnv.SV_VERDICT,
                    [n |-> Len(cases), accepted |-> Cardinality({ i \in 1..Len(cases) : Accept(CaseBunch(cases[i])) }),
                     bad |-> SetToSeq({ i \in 1..Len(cases) : ~Ok(cases[i]) })])
=============================================================================
