.PHONY: setup selftest
setup:
	@mkdir -p build
	@test -d build/pydeps/numpy || /venv/bin/pip install -q --no-index --find-links /opt/veriftools/wheels --target build/pydeps numpy
	@/venv/bin/python -m compileall -q vlib checks >/dev/null
	@/venv/bin/python vlib/tlaval.py
	@if [ -d vlib/minimysql/tests ]; then /venv/bin/python -m vlib.minimysql.tests.run; fi
	@echo setup ok
