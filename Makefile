.PHONY: setup selftest
setup:
	@/venv/bin/python -m compileall -q vlib checks >/dev/null
	@/venv/bin/python vlib/tlaval.py
	@if [ -d vlib/minimysql/tests ]; then /venv/bin/python -m vlib.minimysql.tests.run; fi
	@echo setup ok
