"""C38 - the GVCF/VDS combiner merges every input exactly once (plan, save/crash/resume) and imports with an even
genome partitioning that covers every base exactly once with intervals no longer than requested.

Specs: specs/combiner/Combiner.tla (+ CombinerTrace.tla) and specs/combiner/GenomePartition.tla.

(1) TLC checks Combiner exhaustively over a parameter space chosen in Init (GVCF counts, dataset sample counts,
    branch factors, batch sizes, external-header mode) with Save / Crash / Load enabled at every step: partition
    invariants on the in-memory and the saved plan, output = permutation of the inputs, no redo after the output
    exists, variant strictly decreasing per step, write-once paths, and termination under fairness.
(2) B1: the complete labelled state graph is replayed edge by edge on the real VariantDatasetCombiner
    (step()/save()/load_combiner()) running under the fake hl of checks/_combiner.py, comparing the plan, the
    saved plan and the lineage of every dataset in the fake file system after every edge.
(3) B2: random larger runs (explicit step/save/crash/load and the real run() loop with crashes injected after a
    step) are logged and validated by TLC against CombinerTrace.
(4) B3: calculate_even_genome_partitioning is called with the real GRCh37/GRCh38 contig lengths for interval
    sizes around every L/k (k <= 64) +- 2 and the two defaults; TLC judges every call with GenomePartition.Ok.
"""
from __future__ import annotations

import json
import random
import re
from concurrent.futures import ThreadPoolExecutor
from math import floor, log

from vlib import loader, tlc, walk, tlaval

from . import _combiner as C

LEVEL = "model_checking"
MANIFEST = {
    "technique": "TLA+ specs Combiner (merge plan with save/crash/load, parameters chosen in Init) and GenomePartition (call/return relation) checked by TLC; state-graph replay (B1) and TLC trace validation (B2) of the real VariantDatasetCombiner under a lineage-recording fake hl; TLC-judged call/return conformance (B3) of calculate_even_genome_partitioning",
    "text": "All interleavings of step/save/crash/load for every parameter combination of a bounded space (GVCF counts, input dataset sample counts, branch factors, batch sizes, with/without external header) explored exhaustively by TLC: every input is in exactly one live dataset at every step for both the in-memory and the saved plan, the output is a permutation of the inputs, each step decreases the variant, and the run terminates under fairness. Every edge of the state graph is replayed on the real class (real combine.py merge functions, real plan (de)serialisation incl. locus intervals) and larger random runs incl. the real run() loop are accepted by the spec. The genome partitioning is called for interval sizes around every L/k, k<=64 (+-2), the two defaults and every size in a band for the mitochondrial contig, on the GRCh37/GRCh38 primary contigs (all 50 in the thorough tier), and each result is judged by TLC against 'covers 1..L exactly once, no interval longer than requested'.",
    "note": "Trusts TLC and the fake hl in checks/_combiner.py (tables, matrix tables, expressions, IR nodes, VariantDataset/read_vds/write, file system are fakes that propagate lineage; uuid4 is replaced by a counter, i.e. assumed fresh). NOT covered: the Hail engine itself (that merged rows/entries are right), GVCF import expressions, calculate_new_intervals (replaced by a recorder), dtype() parsing of the matrix types inside save/load (table lookup; interval and locus (de)serialisation is the real code), crashes in the middle of a step, new_combiner() argument handling. floor(log(n, bf)) is a parameter of the spec fed with the platform's values.",
    "design_ref": "DESIGN.md section 5, C38; section 7 item 8",
}

INVS = ["TypeOK", "C38_MemPartition", "C38_DiskPartition", "C38_Final", "C38_NoRedo", "C38_Names"]
PROPS = ["C38_Variant", "C38_WriteOnce"]
ACTIONS = ["StepGvcfs", "StepVdses", "Save", "Crash", "Load", "LoadRefused"]


def _flt(maxbf, maxn, table=None):
    """FLT[bf][n] = floor(log(n, bf)) as the platform computes it (the code's own expression)."""
    rows = []
    for bf in range(1, maxbf + 1):
        if bf == 1:
            rows.append(())
        elif table is not None:
            rows.append(tuple(table(bf, n) for n in range(1, maxn + 1)))
        else:
            rows.append(tuple(floor(log(n, bf)) for n in range(1, maxn + 1)))
    return tuple(rows)


def _exact_floor_log(n, b):
    k = 0
    while b ** (k + 1) <= n:
        k += 1
    return k


def _mc_module(name, base, vds_choices, flt):
    return (f"---- MODULE {name} ----\nEXTENDS {base}\n"
            f"MC_VdsChoices == {{{', '.join(tlaval.to_tla(tuple(v)) for v in vds_choices)}}}\n"
            f"MC_FLT == {tlaval.to_tla(flt)}\n====\n")


def _consts(maxg, bfs, batches, exts, maxepoch, maxcrash):
    def s(xs):
        return "{" + ", ".join(tlaval.to_tla(x) for x in xs) + "}"
    return {"MaxG": maxg, "VdsChoices": "<- MC_VdsChoices", "BFs": s(bfs), "Batches": s(batches), "Exts": s(exts),
            "MaxEpoch": maxepoch, "MaxCrash": maxcrash, "FLT": "<- MC_FLT"}


def _js(o):
    """JSON-safe copy (dict keys -> str, tuples/sets -> lists)."""
    if isinstance(o, dict):
        return {(k if isinstance(k, str) else repr(k)): _js(v) for k, v in o.items()}
    if isinstance(o, (list, tuple, set, frozenset)):
        return [_js(x) for x in o]
    return o


def _report_spec_violations(ctx, res, what, consts):
    for v in res.violations:
        ctx.violation(f"spec:{v.name}", {"run": what, "config": consts, "trace": [(h, tlaval.to_py(s) if s else s) for h, s in v.trace][-6:]})


# ------------------------------------------------------------------------------------------------------
def _prep(wd, tag, cfg, flt_table=None, spec=None, props=PROPS, invs=INVS):
    maxn = cfg["maxg"] + max(sum(v) for v in cfg["vds"])
    flt = _flt(max(cfg["bfs"]), maxn, flt_table)
    (wd / f"MC{tag}.tla").write_text(_mc_module(f"MC{tag}", "Combiner", cfg["vds"], flt))
    consts = _consts(cfg["maxg"], cfg["bfs"], cfg["batches"], cfg["exts"], cfg["maxepoch"], cfg["maxcrash"])
    (wd / f"MC{tag}.cfg").write_text(tlc.mk_cfg(spec=spec, constants=consts, invariants=invs, properties=props))
    return consts


def _spec_jobs(ctx, wd):
    """(1) exhaustive TLC runs on the spec alone: (tag, what, consts, coverage?, dump?)."""
    if ctx.quick:
        main = dict(maxg=3, vds=[(), (3, 1), (1, 2, 5)], bfs=[2, 3], batches=[1, 2], exts=[False, True], maxepoch=2, maxcrash=1)
        live = dict(maxg=3, vds=[(), (3, 1)], bfs=[2], batches=[1, 2], exts=[False], maxepoch=3, maxcrash=2)
        adv = dict(main, exts=[False], vds=[(), (1, 2, 5)])
        advs = ["scrambled"]
    else:
        main = dict(maxg=5, vds=[(), (1,), (3, 1), (1, 2, 5), (2, 2, 2, 9)], bfs=[2, 3, 4], batches=[1, 2], exts=[False, True], maxepoch=3, maxcrash=2)
        live = dict(maxg=4, vds=[(), (3, 1), (1, 2, 5)], bfs=[2, 3], batches=[1, 2], exts=[False, True], maxepoch=3, maxcrash=2)
        adv = dict(main, exts=[False], maxg=4)
        advs = ["zero", "scrambled", "decreasing"]
    jobs = [("main", "exhaustive Combiner (safety; all parameters chosen in Init)", _prep(wd, "main", main), True, None)]
    # the properties do not depend on the binning function: adversarial tables
    r = random.Random(ctx.seed).randrange(1 << 30)
    tables = {"zero": lambda bf, n: 0, "scrambled": lambda bf, n: (n * 2654435761 + r + bf) % 4, "decreasing": lambda bf, n: max(0, 3 - n // 3)}
    for name in advs:
        jobs.append(("adv" + name, f"exhaustive Combiner with adversarial binning table '{name}'", _prep(wd, "adv" + name, adv, flt_table=tables[name]), False, None))
    jobs.append(("live", "liveness C38_Terminates under WF(Step), WF(Load), bounded crashes",
                 _prep(wd, "live", live, spec="FairSpec", props=["C38_Terminates"], invs=[]), False, None))
    if not ctx.quick:
        # random simulation far beyond the exhaustive bounds (all invariants and action properties checked on every step)
        big = dict(maxg=14, vds=[(), (1,), (7, 1, 1), (1, 2, 5, 30), (2, 2, 2, 9, 9, 27), (64, 1, 8, 1, 1, 3, 3)], bfs=[2, 3, 5], batches=[1, 2, 3],
                   exts=[False, True], maxepoch=6, maxcrash=4)
        jobs.append(("sim", "random simulation of Combiner with large parameters (14 GVCFs, 7 datasets, 5 reloads)",
                     _prep(wd, "sim", big), False, None, {"simulate": "num=4000", "depth": 120, "seed": ctx.seed + 1}))
    return jobs


def _graph_cfgs(ctx):
    if ctx.quick:
        return [dict(maxg=2, vds=[(3, 1)], bfs=[2], batches=[1, 2], exts=[False], maxepoch=3, maxcrash=1),
                dict(maxg=3, vds=[(), (1, 2, 5)], bfs=[2, 3], batches=[1], exts=[False, True], maxepoch=2, maxcrash=1)]
    return [dict(maxg=4, vds=[(), (1, 2, 5)], bfs=[2, 3], batches=[1, 2], exts=[False], maxepoch=3, maxcrash=1),
            dict(maxg=3, vds=[(2, 2, 2, 9)], bfs=[2, 3, 4], batches=[1], exts=[False, True], maxepoch=3, maxcrash=1)]


def _graph_jobs(ctx, wd):
    return [(f"g{n}", f"Combiner state graph #{n} for replay", _prep(wd, f"g{n}", cfg), False, f"g{n}") for n, cfg in enumerate(_graph_cfgs(ctx))]


def _run_job(wd, job, workers, seed=None):
    tag, what, consts, cov, dump = job[:5]
    extra = job[5] if len(job) > 5 else {}
    return tlc.run(wd, f"MC{tag}", f"MC{tag}.cfg", workers=workers, coverage=cov, dump=dump, **extra)


def _collect_spec(ctx, job, res):
    tag, what, consts, cov, dump = job[:5]
    ctx.add_tlc(res, what)
    if len(job) > 5 and "simulate" in job[5]:
        m = re.search(r"The number of states generated: (\d+)", res.out)
        t = re.findall(r"(\d+) traces generated", res.out)
        if not m or not t or int(m.group(1)) == 0:
            raise RuntimeError("simulation produced no states")
        ctx.cov["simulation"] = {"states_checked": int(m.group(1)), "traces": int(t[-1]), "depth": job[5].get("depth")}
        ctx.cov["transitions"] += int(m.group(1))
    if cov and not res.violations:
        # vacuity guard.  (vlib.tlc's coverage regex does not match actions whose body starts with LET: TLC prints
        # "<StepGvcfs line .. of module Combiner (119 3 130 48)>: d:t" for those, so the output is parsed here.)
        taken = {m.group(1): int(m.group(3)) for m in re.finditer(
            r"^<(\w+) line \d+, col \d+ to line \d+, col \d+ of module \w+(?: \([\d ]+\))?>: (\d+):(\d+)", res.out, re.M)}
        missing = [a for a in ACTIONS if taken.get(a, 0) == 0]
        if missing:
            raise RuntimeError(f"vacuous run {what}: actions never taken: {missing}")
        ctx.cov.setdefault("actions_taken", {})[what] = {a: taken[a] for a in ACTIONS}
    _report_spec_violations(ctx, res, what, consts)


def _replay_graph(ctx, wd, ns, n, cfg, res):
    """(2) B1: replay one labelled state graph on the real class."""
    if res.violations:
        return 0, 0
    g = tlc.parse_dot(wd / f"g{n}.dot")
    labels = {}
    for (_s, lab, _d) in g.edges:
        labels[lab] = labels.get(lab, 0) + 1
    if any(a not in labels for a in ACTIONS):
        raise RuntimeError(f"vacuous graph: labels {labels}")
    walks = walk.cover_walks(g, rng=random.Random(ctx.seed))
    seen = set()
    mism = 0
    views = {}

    def view(nid):
        if nid not in views:
            views[nid] = C.spec_view(g.nodes[nid])
        return views[nid]

    call = {"StepGvcfs": "step", "StepVdses": "step", "Save": "save", "Crash": "crash", "Load": "load", "LoadRefused": "load_refused"}
    for w in walks:
        if not w or mism >= 5:
            continue
        par = tlaval.to_py(g.nodes[w[0][0]]["par"])
        impl = C.Impl(ns, par)
        d = walk.diff_states(view(w[0][0]), impl.project())
        if d:
            ctx.violation("replay:init:" + ",".join(sorted(d)), {"par": par, "diff": _js(d)})
            mism += 1
            continue
        path = []
        for (src, lab, dst) in w:
            path.append(lab)
            try:
                ok = getattr(impl, call[lab])()
            except Exception as e:  # noqa
                if not C.impl_exception_is_finding(ns, e):
                    raise
                ctx.violation(f"replay:{lab}:exception:{type(e).__name__}", {"par": par, "path": path, "error": repr(e)})
                mism += 1
                break
            if lab == "LoadRefused" and not ok:
                ctx.violation("replay:LoadRefused:not-refused", {"par": par, "path": path})
                mism += 1
                break
            seen.add((src, lab, dst))
            d = walk.diff_states(view(dst), impl.project())
            if d:
                ctx.violation(f"replay:{lab}:" + ",".join(sorted(d)), {"par": par, "path": path, "diff": _js(d)})
                mism += 1
                break
    # vacuity: resumed runs that reach the output, and refused loads, are in the graph
    resumed_final = sum(1 for v in views.values() if (0, "out", 0, 0) in v["store"] and v["mem"]["alive"] and v["mem"]["epoch"] > 1)
    stats = {"config": {k: (v if k != "vds" else [list(x) for x in v]) for k, v in cfg.items()}, "nodes": len(g.nodes),
             "edges": len(set(g.edges)), "edges_covered": len(seen), "walks": len(walks), "initial_states": len(g.init), "labels": labels,
             "states_with_output_after_resume": resumed_final}
    ctx.cov.setdefault("graph_replay", []).append(stats)
    if not mism and stats["edges_covered"] != stats["edges"]:
        raise RuntimeError(f"graph not covered: {stats}")
    if not mism and resumed_final == 0:
        raise RuntimeError("vacuous graph: no resumed run reaches the output")
    if n == 0:
        steps = [x for x in g.edges if x[1] == "StepVdses" and x[0] != x[2]]
        if steps:
            e = steps[len(steps) // 2]
            ctx.sample({"kind": "graph-edge", "edge": e[1], "par": tlaval.to_py(g.nodes[e[0]]["par"]),
                        "source": tlaval.to_py(g.nodes[e[0]]["mem"]), "target": tlaval.to_py(g.nodes[e[2]]["mem"])})
    return len(seen), len(walks)


# ------------------------------------------------------------------------------------------------------
def _post(p):
    """Projected implementation state as JSON for TLC.  TLC cannot compare values of different types, so anything that
    is not a well-formed leaf (an int) becomes 0, which is no input; the harness reports such states itself (cols_ok)."""
    def li(xs):
        return [x if isinstance(x, int) and not isinstance(x, bool) else 0 for x in xs]

    def pth(t):
        return [t[0], str(t[1]), t[2], t[3]]

    return {"mem": {"alive": p["mem"]["alive"], "gvcfs": li(p["mem"]["gvcfs"]), "names": li(p["mem"]["names"]),
                    "bins": [[b, [{"path": pth(d["path"]), "n": d["n"]} for d in p["mem"]["bins"][b]]] for b in sorted(p["mem"]["bins"])],
                    "job": p["mem"]["job"], "epoch": p["mem"]["epoch"]},
            "disk": {"saved": p["disk"]["saved"], "gvcfs": li(p["disk"]["gvcfs"]), "names": li(p["disk"]["names"]),
                     "vdses": [{"path": pth(d["path"]), "n": d["n"]} for d in p["disk"]["vdses"]]},
            "store": [{"p": pth(k), "leaves": li(v)} for k, v in sorted(p["store"].items(), key=repr)],
            "nextepoch": p["nextepoch"]}


class _CrashNow(BaseException):
    pass


def _traces_generate(ctx, wd, ns):
    """(3) B2: random larger executions of the real class (validated by TLC in _traces_validate)."""
    ntr, maxg, maxv, maxn = (60, 30, 5, 40) if ctx.quick else (500, 60, 7, 90)
    rng = random.Random(ctx.seed * 7919 + 38)
    lines = []
    pars = []
    cols_bad = []
    exome = {}
    vdc = ns.vdc
    for k in range(ntr):
        bf = rng.choice([2, 2, 3, 3, 4, 5, 7])
        par = {"ng": rng.choice([0, 1, 2, rng.randint(0, maxg), rng.randint(0, maxg)]),
               "vn": [rng.choice([1, 1, 2, bf, bf * bf, bf ** 3, rng.randint(1, maxn)]) for _ in range(rng.choice([0, 0, 1, 2, rng.randint(0, maxv)]))],
               "bf": bf, "batch": rng.choice([1, 1, 2, 3]), "ext": rng.random() < 0.3}
        par["vn"] = [min(n, maxn * 3) for n in par["vn"]]
        if par["ng"] + len(par["vn"]) == 0:
            par["ng"] = 1
        if par["ext"] and par["ng"] == 0:
            par["ext"] = False
        intervals = None
        rg = "GRCh38"
        if k % 10 == 3:  # tie the two halves together: the plan carries the partitioning computed by the real function
            rg = rng.choice(["GRCh37", "GRCh38"])
            if rg not in exome:
                exome[rg] = ns.combine.calculate_even_genome_partitioning(ns.refs[rg], vdc.VariantDatasetCombiner.default_exome_interval_size)
            intervals = exome[rg]
        impl = C.Impl(ns, par, intervals=intervals, rg=rg)
        ev = []

        def log(a):
            p = impl.project()
            if not p["cols_ok"]:
                cols_bad.append((k, len(ev), a))
            ev.append({"a": a, "post": _post(p)})

        try:
            if k % 3 == 0:
                # the real run() loop; a crash is injected after a step with some probability
                orig_step, orig_save = vdc.VariantDatasetCombiner.step, vdc.VariantDatasetCombiner.save
                budget = [rng.randint(0, 3)]

                def step(self):
                    orig_step(self)
                    log("Step")
                    if budget[0] > 0 and rng.random() < 0.35:
                        budget[0] -= 1
                        raise _CrashNow()

                def save(self):
                    orig_save(self)
                    log("Save")

                vdc.VariantDatasetCombiner.step, vdc.VariantDatasetCombiner.save = step, save
                try:
                    for _ in range(50):
                        try:
                            C.set_world(impl.w)
                            impl.comb.run()
                            break
                        except _CrashNow:
                            impl.crash()
                            log("Crash")
                            if impl.w.fs.exists(C.OUT + "/reference_data/_SUCCESS") and json.loads(impl.w.files[C.SAVE])["gvcfs"] + json.loads(impl.w.files[C.SAVE])["vdses"]:
                                if not impl.load_refused():
                                    ctx.violation("trace:LoadRefused:not-refused", {"par": par, "events": len(ev)})
                                log("LoadRefused")
                                break
                            impl.load()
                            log("Load")
                finally:
                    vdc.VariantDatasetCombiner.step, vdc.VariantDatasetCombiner.save = orig_step, orig_save
            else:
                for _ in range(80):
                    ops = []
                    alive = impl.comb is not None
                    saved = C.SAVE in impl.w.files
                    if alive and not impl.comb.finished:
                        ops += ["Step"] * 5
                    if alive:
                        ops += ["Save"] * (3 if not impl.comb.finished else 1)
                    if alive and saved:
                        ops += ["Crash"]
                    if saved:
                        d = json.loads(impl.w.files[C.SAVE])
                        refusing = impl.w.fs.exists(C.OUT + "/reference_data/_SUCCESS") and bool(d["gvcfs"] or d["vdses"])
                        ops += ["LoadRefused"] if refusing else (["Load"] * (1 if alive else 6))
                    if not ops or (alive and impl.comb.finished and rng.random() < 0.4):
                        break
                    a = rng.choice(ops)
                    if a == "LoadRefused":
                        if not impl.load_refused():
                            ctx.violation("trace:LoadRefused:not-refused", {"par": par, "events": len(ev)})
                    else:
                        getattr(impl, a.lower())()
                    log(a)
        except Exception as e:  # noqa
            if not C.impl_exception_is_finding(ns, e):
                raise
            ctx.violation(f"trace:exception:{type(e).__name__}", {"par": par, "events": [x["a"] for x in ev], "error": repr(e)})
            continue
        pars.append(par)
        lines.append(json.dumps({"par": par, "ev": ev}))
    for (k, pos, a) in cols_bad[:3]:
        ctx.violation(f"trace:{a}:cols", {"trace": k, "position": pos, "what": "sample ids of a written dataset are not those of its inputs in order"})
    tf = wd / "traces.ndjson"
    tf.write_text("\n".join(lines) + "\n")
    maxbf = max(p["bf"] for p in pars)
    maxtot = max(p["ng"] + sum(p["vn"]) for p in pars)
    flt = _flt(maxbf, maxtot)
    anomalies = [(bf, n) for bf in range(2, maxbf + 1) for n in range(1, maxtot + 1) if flt[bf - 1][n - 1] != _exact_floor_log(n, bf)]
    ctx.cov["float_log_anomalies_in_range"] = anomalies[:10]
    (wd / "MCtrace.tla").write_text(_mc_module("MCtrace", "CombinerTrace", [()], flt))
    consts = _consts(0, [2], [1], [False], 1000, 1000)
    (wd / "MCtrace.cfg").write_text(tlc.mk_cfg(spec="TraceSpec", constants=consts, invariants=INVS, properties=PROPS, deadlock=True))
    return lines, tf, maxg, maxv


def _traces_validate(ctx, wd, lines, tf, maxg, maxv, tres):
    nev = sum(len(json.loads(x)["ev"]) for x in lines)
    ctx.add_tlc(tres, f"trace validation of {len(lines)} executions of the real combiner (up to {maxg} GVCFs, {maxv} datasets)")
    if not tres.violations and tres.distinct < nev:
        raise RuntimeError(f"trace validation explored {tres.distinct} states for {nev} events")
    for v in tres.violations:
        last = v.trace[-1][1] if v.trace else {}
        tid, l = last.get("tid"), last.get("l")
        t = json.loads(lines[tid - 1]) if tid else {"ev": [], "par": None}
        evs = t["ev"]
        nxt = evs[l - 1] if tid and l and l <= len(evs) else None
        ctx.violation(f"trace:{v.kind}:{v.name}:{nxt['a'] if nxt else 'end'}",
                      {"trace_id": tid, "position": l, "par": t["par"], "next_event": nxt, "spec_state": tlaval.to_py(last),
                       "events": [e["a"] for e in evs[:l]]})
    if lines:
        t0 = json.loads(lines[0])
        ctx.sample({"kind": "impl-trace", "par": t0["par"], "events": [e["a"] for e in t0["ev"]][:20], "final_mem": t0["ev"][-1]["post"]["mem"] if t0["ev"] else None})
    return len(lines), nev


# ------------------------------------------------------------------------------------------------------
PRIMARY = {"GRCh37": [str(i) for i in range(1, 23)] + ["X", "Y", "MT"],
           "GRCh38": [f"chr{i}" for i in range(1, 23)] + ["chrX", "chrY", "chrM"]}


def _partition_env(ctx, wd):
    return {"GP_LEMMA_L": 3 if ctx.quick else 4, "GP_LEMMA_OUT": wd / "lemma.json", "GP_CONTIGS": wd / "contigs.ndjson",
            "GP_KMAX": 64, "GP_INPUTS": wd / "gp_inputs.ndjson", "GP_CASES": wd / "gp_cases.ndjson", "GP_VERDICT": wd / "gp_verdict.json"}


def _partition_gen(ctx, wd, ns):
    """TLC: the lemma (IsPartition <=> direct definition on small L) and the input universe."""
    vdc = ns.vdc
    defaults = [vdc.VariantDatasetCombiner.default_genome_interval_size, vdc.VariantDatasetCombiner.default_exome_interval_size]
    env = _partition_env(ctx, wd)
    if ctx.quick:
        chosen = [("GRCh38", c) for c in ("chr1", "chr21", "chrX", "chrY", "chrM")] + [("GRCh37", c) for c in ("MT",)]
    else:
        chosen = [(g, c) for g in PRIMARY for c in PRIMARY[g]]
    with open(env["GP_CONTIGS"], "w") as f:
        for g, c in chosen:
            # for the mitochondrial contig additionally EVERY size in a band (many short intervals per call)
            band = ((100, 200) if ctx.quick else (1, 400)) if c in ("chrM", "MT") else (1, 0)
            f.write(json.dumps({"rg": g, "contig": c, "L": ns.refs[g].lengths[c], "defaults": defaults,
                                "band_lo": band[0], "band_hi": band[1]}) + "\n")
    tlc.evaluate(wd, "GenomePartitionGen", env=env)
    return chosen, defaults


def _partition_calls(ctx, wd, ns, chosen, defaults):
    """(4) B3 for calculate_even_genome_partitioning: call the real function on the TLC-generated universe."""
    fn = ns.combine.calculate_even_genome_partitioning
    env = _partition_env(ctx, wd)
    lemma = json.loads((wd / "lemma.json").read_text())
    if not lemma.get("checked") or lemma["partitions_of_3_by_2"] < 1:
        raise RuntimeError(f"partition lemma not established: {lemma}")
    ctx.cov["partition_lemma"] = lemma
    inputs = [json.loads(x) for x in open(env["GP_INPUTS"]).read().splitlines() if x.strip()]
    inputs.sort(key=lambda r: (r["rg"], r["contig"], r["size"]))
    # one synthetic reference genome per contig under test: the real name and real length of that contig, every other
    # primary contig shortened to 1 base (calc_parts treats contigs independently; only the tested contig is judged)
    rgs = {}

    def rg_for(g, c):
        if (g, c) not in rgs:
            real = ns.refs[g]
            lengths = {x: (real.lengths[x] if x == c else 1) for x in PRIMARY[g]}
            rgs[(g, c)] = ns.RG.ReferenceGenome(g, list(PRIMARY[g]), lengths, [], [], [], [], True)
        return rgs[(g, c)]

    def rec(iv):
        return {"start": iv.start.position, "end": iv.end.position, "incl_start": bool(iv.includes_start), "incl_end": bool(iv.includes_end)}

    cases = []
    for r in inputs:
        assert r["L"] == ns.refs[r["rg"]].lengths[r["contig"]] and r["L"] < 2 ** 31 and r["size"] < 2 ** 31
        out = fn(rg_for(r["rg"], r["contig"]), r["size"])
        ivs = [rec(iv) for iv in out if iv.start.contig == r["contig"]]
        if any(iv.start.contig != iv.end.contig for iv in out):
            raise RuntimeError("interval spanning contigs")
        cases.append({**r, "ivs": ivs, "mode": "one-contig"})
    # whole real genomes: the two defaults (and, thorough, sizes L/k of the largest contig), judged per contig
    whole = [(g, s) for g in PRIMARY for s in defaults]
    if not ctx.quick:
        whole += [(g, -(-ns.refs[g].lengths[PRIMARY[g][0]] // k)) for g in PRIMARY for k in (1, 2, 3, 5, 8, 13, 21, 34, 55, 64)]
    for g, s in whole:
        out = fn(ns.refs[g], s)
        if {iv.start.contig for iv in out} - set(PRIMARY[g]):
            raise RuntimeError("interval on a non-primary contig")
        for c in PRIMARY[g]:
            cases.append({"rg": g, "contig": c, "L": ns.refs[g].lengths[c], "size": s, "mode": "whole-genome",
                          "ivs": [rec(iv) for iv in out if iv.start.contig == c]})
    with open(env["GP_CASES"], "w") as f:
        for c in cases:
            f.write(json.dumps({k: c[k] for k in ("rg", "contig", "L", "size", "ivs")}) + "\n")
    return cases, whole


def _partition_verdict(ctx, wd, chosen, cases, whole):
    verdict = json.loads((wd / "gp_verdict.json").read_text())
    if verdict["n"] != len(cases):
        raise RuntimeError(f"verdict over {verdict['n']} cases, expected {len(cases)}")
    by_sig = {}
    for b in verdict["bad"]:
        c = cases[b["i"] - 1]
        for cat in b["cats"]:
            by_sig.setdefault(cat, []).append(c)
    for cat, cs in sorted(by_sig.items()):
        cs.sort(key=lambda c: (c["mode"] != "whole-genome", len(c["ivs"]), c["L"]))
        c = cs[0]
        sizes = [(iv["end"] - (0 if iv["incl_end"] else 1)) - (iv["start"] + (0 if iv["incl_start"] else 1)) + 1 for iv in c["ivs"]]
        ctx.violation(f"partition:{cat}", {"occurrences": len(cs), "of_cases": len(cases), "example": {
            "reference_genome": c["rg"], "contig": c["contig"], "contig_length": c["L"], "interval_size": c["size"], "mode": c["mode"],
            "n_intervals": len(c["ivs"]), "first": c["ivs"][:2], "last": c["ivs"][-2:], "max_interval_bases": max(sizes) if sizes else 0,
            "last_base_covered": max((iv["end"] - (0 if iv["incl_end"] else 1) for iv in c["ivs"]), default=0)},
            "more": [{"rg": x["rg"], "contig": x["contig"], "size": x["size"]} for x in cs[1:6]]})
    ctx.cov["partition"] = {"cases": len(cases), "ok": verdict["ok"], "bad": len(verdict["bad"]), "contigs": len(chosen),
                            "whole_genome_calls": len(whole), "bad_by_category": {k: len(v) for k, v in by_sig.items()}}
    if verdict["ok"] == 0:
        raise RuntimeError("vacuous: the specification accepts no result at all")
    mid = cases[len(cases) // 2]
    ctx.sample({"kind": "partition-call", "rg": mid["rg"], "contig": mid["contig"], "L": mid["L"], "size": mid["size"],
                "n_intervals": len(mid["ivs"]), "first": mid["ivs"][:1], "last": mid["ivs"][-1:]})
    return len(cases), sum(len(c["ivs"]) for c in cases)


def run(ctx):
    import time

    loader.install()
    ns = C.load()
    wd = tlc.prepare_dir(ctx.build / "tlc", ["combiner"])
    t0 = time.time()
    phases = {}
    sjobs = _spec_jobs(ctx, wd)
    gjobs = _graph_jobs(ctx, wd)
    per = max(2, ctx.workers // 4)
    with ThreadPoolExecutor(max_workers=len(sjobs) + len(gjobs) + 3) as ex:
        fut_g = [ex.submit(_run_job, wd, j, per) for j in gjobs]
        fut_gen = ex.submit(_partition_gen, ctx, wd, ns)
        fut_s = [ex.submit(_run_job, wd, j, per) for j in sjobs]
        # meanwhile (python): B2 traces of the real class, handed to TLC; partition calls, handed to TLC; graph replay
        lines, tf, maxg, maxv = _traces_generate(ctx, wd, ns)
        fut_tr = ex.submit(tlc.run, wd, "MCtrace", "MCtrace.cfg", workers=per, env={"TRACE_FILE": tf}, timeout=3000)
        phases["traces_generated_s"] = round(time.time() - t0, 1)
        chosen, defaults = fut_gen.result()
        cases, whole = _partition_calls(ctx, wd, ns, chosen, defaults)
        fut_v = ex.submit(tlc.evaluate, wd, "GenomePartitionVerdict", env=_partition_env(ctx, wd), timeout=3000)
        phases["partition_calls_done_s"] = round(time.time() - t0, 1)
        edges = walks = 0
        for n, (job, f) in enumerate(zip(gjobs, fut_g)):
            res = f.result()
            _collect_spec(ctx, job, res)
            e, w = _replay_graph(ctx, wd, ns, n, _graph_cfgs(ctx)[n], res)
            edges += e
            walks += w
        phases["replay_done_s"] = round(time.time() - t0, 1)
        ntr, nev = _traces_validate(ctx, wd, lines, tf, maxg, maxv, fut_tr.result())
        fut_v.result()
        ncases, nivs = _partition_verdict(ctx, wd, chosen, cases, whole)
        for job, f in zip(sjobs, fut_s):
            _collect_spec(ctx, job, f.result())
        phases["all_tlc_done_s"] = round(time.time() - t0, 1)
    ctx.cov["phase_wall_s"] = phases
    ctx.cov["traces_validated_against_impl"] = ntr + walks
    ctx.cov["trace_events"] = nev
    ctx.cov["evaluations"] = nev + edges + ncases
    ctx.cov["distinct_nontrivial"] = edges + ncases
    ctx.cov["partition_intervals_judged"] = nivs
    ctx.cov["exhaustive"] = True
    ctx.cov["rule"] = ("exhaustive TLC exploration of Combiner for the listed parameter spaces (parameters are chosen in Init); every edge of "
                       "the dumped state graphs replayed on the real class with full plan/saved-plan/lineage comparison; random runs "
                       "(explicit ops and the real run() loop with injected crashes) validated by TLC; partitioning: all sizes "
                       "floor/ceil(L/k)+-2, k<=64, plus the two defaults per listed contig, each call judged by TLC; "
                       "distinct_nontrivial = graph edges replayed + partition calls judged")
    ctx.assume("uuid.uuid4() never repeats (replaced by a counter)",
               "a crash loses exactly the in-memory combiner; the file system keeps every dataset and the saved plan; crashes happen between public calls (not in the middle of step() or save())",
               "the fake hl engine combines datasets as the concatenation of their inputs' columns in argument order (Table.multi_way_zip_join / _zip_join_producers)",
               "input datasets have >= 1 sample; GVCFs have one sample each",
               "calc_parts treats contigs independently, so a contig may be tested in a reference genome whose other contigs are shortened")
