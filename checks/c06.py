"""C06 - batch and job-group completion reflect their jobs.

Spec specs/batchdb/BatchDB.tla + BatchDBProps.tla (the batch database as a transition system; one action per stored-procedure
call / @transaction block).  Verdict: (1) TLC checks the property's formulas exhaustively on the specification for a basket of
programs, with the scenarios of recorded findings avoided; (2) B1: walks covering the labelled state graph are executed on the
real SQL (batch/sql, interpreted by vlib/minimysql) and the real Python front end, full projected state compared after every
step; (3) each recorded finding is reproduced through TLC's counter-example replayed on the code.
"""
from checks import _batchdb as B

LEVEL = "model_checking"
MANIFEST = {
    "technique": "TLA+ spec BatchDB checked exhaustively by TLC per program; labelled state-graph replay (B1) on the real stored procedures/triggers (MiniMySQL interpreter) and real front-end Python with exact state comparison; graph replay by a rewinding traversal (every edge class, then every edge); overlapping-transactions stage: a second request runs inside the first at every statement boundary under a two-transaction isolation model of MiniMySQL and the result must be that of a serial order in the TLC graph",
    "text": "Nested groups, multi-update submission, completion and cancellation are explored; batch/group state is complete exactly when all committed jobs of the subtree are terminal, n_jobs and tallies equal the counts, committing an update with jobs re-opens.",
    "note": "Trusts TLC; MiniMySQL's rendering of MySQL semantics for the subset used (unit-tested, unknown constructs abort with exit 2); atomic serialisable transactions; one batch/user/instance collection with shard tokens summed out; bounded programs (<=4 jobs, <=3 groups, <=2 updates, <=2 attempts, <=2 instances). Recorded findings are excluded from the main run by scenario guards and reproduced separately. The overlapping-transactions stage trusts the isolation model of vlib/minimysql/isolation.py (consistent reads, predicate locks approximating InnoDB next-key locks, lock waits; approximations err towards waiting).",
    "design_ref": "DESIGN.md section 5, c06",
}

INVARIANTS = ["C06_Batch", "C06_Groups", "C06_Counts"]
PROPERTIES = []
QUICK = ['nest_s', 'grp2']
THOROUGH = ['nest_s', 'grp2', 'chain2', 'upd2', 'diamond', 'clean', 'sib', 'nest', 'ffroot', 'ff_s', 'upd3', 'vee2']
FINDINGS = []


def run(ctx):
    B.run_property(ctx, "C06", INVARIANTS, PROPERTIES, QUICK, THOROUGH, FINDINGS, overlap=['grp2', 'upd2', 'sib2i'])
