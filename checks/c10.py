"""C10 - instance free-core accounting is exact.

Spec specs/batchdb/BatchDB.tla + BatchDBProps.tla (the batch database as a transition system; one action per stored-procedure
call / @transaction block).  Verdict: (1) TLC checks the property's formulas exhaustively on the specification for a basket of
programs, with the scenarios of recorded findings avoided; (2) B1: walks covering the labelled state graph are executed on the
real SQL (batch/sql, interpreted by vlib/minimysql) and the real Python front end, full projected state compared after every
step; (3) each recorded finding is reproduced through TLC's counter-example replayed on the code.
"""
from checks import _batchdb as B

LEVEL = "model_checking"
MANIFEST = {
    "technique": "TLA+ spec BatchDB checked exhaustively by TLC per program; labelled state-graph replay (B1) on the real stored procedures/triggers (MiniMySQL interpreter) and real front-end Python with exact state comparison; graph replay by a rewinding traversal (every edge class, then every edge); overlapping-transactions stage: a second request runs inside the first at every statement boundary under a two-transaction isolation model of MiniMySQL and the result must be that of a serial order in the TLC graph",
    "text": "Second stage: specs/batchdb/DriverMem.tla adds the driver's in-memory copy (Instance._free_cores_mcpu/_state as adjusted by PoolScheduler and the job.py wrappers, including a lost deactivate reply); its graph is replayed on the real Instance objects and wrappers. First stage: All histories of attempts on one or two instances (schedule, creating, start, complete, unschedule, orphan clean-up, deactivation; duplicate and stale reports) are explored; for every pending/active instance free = total - cores of un-ended attempts, inactive instances report all cores free.",
    "note": "Trusts TLC; MiniMySQL's rendering of MySQL semantics for the subset used (unit-tested, unknown constructs abort with exit 2); atomic serialisable transactions; one batch/user/instance collection with shard tokens summed out; bounded programs (<=4 jobs, <=3 groups, <=2 updates, <=2 attempts, <=2 instances). Recorded findings are excluded from the main run by scenario guards and reproduced separately. The overlapping-transactions stage trusts the isolation model of vlib/minimysql/isolation.py (consistent reads, predicate locks approximating InnoDB next-key locks, lock waits; approximations err towards waiting).",
    "design_ref": "DESIGN.md section 5, c10",
}

INVARIANTS = ["C10_Free"]
PROPERTIES = []
QUICK = ['retry_s', 'jpim_s']
THOROUGH = ['retry_s', 'jpim_s', 'chain2', 'billing_s', 'jpim', 'retry']
FINDINGS = [("pendrel", "jpim_s", ["C10_Free"])]


def run(ctx):
    from checks import _drivermem

    B.run_property(ctx, "C10", INVARIANTS, PROPERTIES, QUICK, THOROUGH, FINDINGS, budget_quick=30, overlap=['retry_s'])
    # second stage: the driver's in-memory copy (real Instance objects + real job.py wrappers) against DriverMem
    steps, walks = _drivermem.run_memory_stage(ctx)
    ctx.cov["evaluations"] += steps
    ctx.cov["traces_validated_against_impl"] += walks
    # third stage: the same accounting behind the driver's HTTP API (specs/batchdb/DriverApi.tla): requests from workers, impostors and
    # stale workers, requests overtaken by deactivation / removal / restart; tables and in-memory copy compared after every request
    from checks import _driverapi

    _driverapi.run_api_stage(ctx, footprint={"inst", "att", "mfree", "mst"}, budget_quick=8, budget_thorough=120, quick_programs=["api1q"],
                               thorough_programs=["api1q", "api2i", "api2a"])
