"""C29 - an accepted post-login `next` URL takes the browser to one of the deployment's own hosts.

Spec: specs/fn/NextUrl.tla - the WHATWG basic URL parser as a TLA+ state machine over a token alphabet (what the
browser does with the string), a model of what auth.auth.validate_next_page_url does (urllib netloc equality), the
property Safe checked by TLC over all words up to a bound.  Binding B3: TLC enumerates the words, the harness
concretises every token several ways and calls the REAL validate_next_page_url, TLC judges every recorded answer
(accepted => the browser does not land on another host).
"""
from __future__ import annotations

import json

from vlib import loader, tlc

LEVEL = "model_checking"
MANIFEST = {
    "technique": "TLA+ specification of the WHATWG URL parser state machine and of the validator (NextUrl.tla); TLC model-checks "
                 "Safe over all token words up to a bound, then enumerates the words and judges every recorded answer of the real "
                 "validate_next_page_url (call/return conformance, B3)",
    "text": "Exhaustive over all words over 17 tokens (schemes, //, /, \\, @, :, ?, #, ., good host, other host, digit, tab/newline, "
            "space/C0 control) up to a stated length and over a 8-token core to a larger length, each concretised several ways "
            "(case, four deployment hosts, look-alike hosts, control characters), plus insertion probes on longer URLs. The browser side "
            "is the WHATWG parser written as a TLA+ state machine; the verdict for every call is computed by TLC.",
    "note": "Trusts: TLC + CommunityModules; the rendering of the WHATWG basic URL parser / host parser in NextUrl.tla restricted to "
            "the token alphabet (percent-encoding only as one token for an encoded delimiter; no IDNA, IPv6 literals, non-ASCII); the token->string table in checks/c29.py; the "
            "reading that a URL which navigates to no host (javascript:, unknown scheme, parse failure, fragment only) does not 'land elsewhere'.",
    "design_ref": "DESIGN.md section 5, C29",
}

SERVICES = ["batch", "auth", "ci", "monitoring"]


def reps(good_hosts):
    """token -> concrete spellings; index 0 is the canonical spelling"""
    dom = good_hosts[0].split(".", 1)[1]  # hail.test
    return {
        "https": ["https:", "HTTPS:", "hTtPs:"],
        "http": ["http:", "HTTP:"],
        "js": ["javascript:", "JavaScript:", "data:", "x-app:", "vbscript:"],  # non-special schemes only
        "ss": ["//"], "s": ["/"], "bs": ["\\"], "at": ["@"], "colon": [":"], "q": ["?"], "hash": ["#"], "dot": ["."],
        # the same hosts for a browser (host names are case-insensitive); the validator compares text
        "good": list(good_hosts) + [good_hosts[0].upper(), good_hosts[1].title()],
        # genuinely different hosts: foreign domain, deployment host as a label prefix of a foreign domain, sibling
        # names under the deployment's domain that are not one of the four services, the bare domain (the www site)
        "evil": ["evil.com", f"{good_hosts[0]}.evil.com", f"evil{good_hosts[0]}", dom, f"batch-{dom}", f"internal.{dom}",
                 f"{good_hosts[1]}-x.io"],
        "digit": ["1", "2"],
        "pct": ["%2F", "%2f", "%23", "%3F", "%40", "%3A", "%5C"],
        "tab": ["\t", "\n", "\r"],
        "sp": [" ", "\x0b", "\x0c", "\x01", "\x1f", "\x00"],
    }


def concretise(R, w, variant):
    return "".join(R[t][(variant + i) % len(R[t])] for i, t in enumerate(w))


def canonical(R, w):
    return "".join(R[t][0] for t in w)


def features(w):
    f = []
    if not any(t in ("https", "http", "js") for t in w[:1]):
        f.append("noscheme")
    elif w[0] != "https":
        f.append(w[0])
    for t, name in (("bs", "backslash"), ("at", "userinfo"), ("colon", "colon"), ("sp", "space"), ("tab", "tab")):
        if t in w:
            f.append(name)
    if "ss" not in w:
        f.append("no-double-slash")
    return "+".join(f) or "plain"


def run(ctx):
    loader.install()
    import auth.auth as A
    from aiohttp import web
    from urllib.parse import urlparse

    good_hosts = [urlparse(A.deploy_config.external_url(s, "/")).netloc for s in SERVICES]
    if good_hosts != [f"{s}.hail.test" for s in SERVICES]:
        raise RuntimeError(f"unexpected deployment hosts from deploy_config: {good_hosts}")
    base = urlparse(A.deploy_config.external_url("auth", "/login"))
    if base.scheme != "https" or base.netloc != good_hosts[1]:
        raise RuntimeError(f"the specification assumes the base URL https://{good_hosts[1]}/..., got {base}")
    R = reps(good_hosts)
    other_errors = {}

    def accepts(s):
        try:
            A.validate_next_page_url(s)
            return True
        except web.HTTPBadRequest:
            return False
        except Exception as e:  # noqa: BLE001  (e.g. ValueError from urllib): the request fails, nothing is accepted
            other_errors[type(e).__name__] = other_errors.get(type(e).__name__, 0) + 1
            return False

    mc, mccore, full, core, nvar = (3, 4, 4, 5, 3) if ctx.quick else (4, 5, 5, 6, 4)
    wd = tlc.prepare_dir(ctx.build / "tlc", ["fn"])
    env = {"NU_MC": mc, "NU_MCCORE": mccore, "NU_FULL": full, "NU_CORE": core, "NU_INPUTS": wd / "inputs.ndjson",
           "NU_CASES": wd / "cases.ndjson", "NU_VERDICT": wd / "verdict.ndjson"}

    # ---- (1) TLC: the property holds for the MODEL of the validator, every parser run terminates, sanity of the parser ----
    (wd / "MC.cfg").write_text(tlc.mk_cfg(invariants=["TypeOK", "Terminates", "Safe", "HostNeedsSlashesOrHttp", "StepIsRun"]))
    res = tlc.run(wd, "NextUrl", "MC.cfg", workers=ctx.workers, coverage=True, env=env)
    ctx.add_tlc(res, f"NextUrl: URL parser runs on all words <= {mc} over 17 tokens and <= {mccore} over the 8-token core; Safe for the modelled validator")
    for v in res.violations:
        if v.name == "Safe":
            # the model of the validator is unsafe: show it; the real function is judged below on the same word
            ctx.note(f"TLC: the MODEL of the validator accepts a word that lands elsewhere: {v.trace[-1][1] if v.trace else v}")
        else:
            raise RuntimeError(f"NextUrl.tla is not self-consistent: {v.kind} {v.name} {v.trace[-1:]}")
    ctx.require_covered(res, ["Next"], "NextUrl")
    # the model distinguishes validators: the hostname-based one must be caught (parser differential  //evil\@good)
    # (thorough tier: as a TLC counter-example; both tiers: counted by the verdict module on the judged words, weak_unsafe > 0)
    if not ctx.quick:
        (wd / "Weak.cfg").write_text(tlc.mk_cfg(invariants=["WeakSafe"]))
        r = tlc.run(wd, "NextUrl", "Weak.cfg", workers=ctx.workers, env=dict(env, NU_MC=1, NU_MCCORE=5))
        weak = [v for v in r.violations if v.name == "WeakSafe"]
        if not weak:
            raise RuntimeError("vacuity: TLC did not find the parser differential against the weaker validator")
        ctx.cov["weaker_validator_counterexample"] = [str(x) for x in (weak[0].trace[-1][1] or {}).get("w", ())] if weak[0].trace else None

    # ---- (2) inputs from TLC, answers from the real validator -----------------------------------------------------------------
    (wd / "Idle.cfg").write_text(tlc.mk_cfg(init="IdleInit", next="IdleNext"))
    words = []
    for part in ("full", "core"):  # two parts: TLC's limit on the size of a set
        _evaluate(wd, "NextUrlGen", dict(env, NU_PART=part))
        words += [json.loads(l)["w"] for l in open(env["NU_INPUTS"]) if l.strip()]
    n_tlc_words = len(words)
    # insertion probes on longer URLs (beyond the length bound): every token at every position
    bases = [["https", "ss", "good", "s", "evil", "q", "evil"], ["ss", "good", "colon", "digit", "digit", "s"],
             ["https", "ss", "evil", "s", "good"], ["https", "ss", "good", "dot", "evil", "s"], ["sp", "https", "ss", "good", "hash", "at", "evil"],
             ["https", "ss", "evil", "at", "good", "s"], ["http", "ss", "good", "colon", "digit", "at", "evil", "s"], ["s", "evil", "s", "good"],
             ["https", "ss", "good", "at", "evil", "s"], ["ss", "good", "at", "evil"], ["https", "ss", "good", "dot", "at", "evil", "s"]]
    toks = sorted(R)
    seenw = {tuple(w) for w in words}
    for b in bases:
        for pos in range(len(b) + 1):
            for t in toks + [None]:
                w = b[:pos] + ([t] if t else []) + b[pos:]
                if tuple(w) not in seenw:
                    seenw.add(tuple(w))
                    words.append(w)
    cases, strings, ncalls = [], [], 0
    for w in words:
        ss = [concretise(R, w, v + ctx.seed) for v in range(nvar)]
        acc = [accepts(s) for s in ss]
        canon = accepts(canonical(R, w))
        ncalls += nvar + 1
        cases.append({"w": w, "acc": acc, "canon": canon})
        strings.append(ss)
    with open(env["NU_CASES"], "w") as f:
        for c in cases:
            f.write(json.dumps(c) + "\n")

    # ---- (3) TLC judges ----------------------------------------------------------------------------------------------------------
    _evaluate(wd, "NextUrlVerdict", env)
    judged = [json.loads(l) for l in open(env["NU_VERDICT"]) if l.strip()]
    assert len(judged) == len(cases), (len(judged), len(cases))
    lands = {}
    for j in judged:
        lands[j["lands"]] = lands.get(j["lands"], 0) + 1
    verdict = {"accepted": sum(1 for c in cases if any(c["acc"])), "lands": lands,
               "accepted_good": sum(1 for c, j in zip(cases, judged) if any(c["acc"]) and j["lands"] == "good"),
               "accepted_none": sum(1 for c, j in zip(cases, judged) if any(c["acc"]) and j["lands"] == "none"),
               "weak_unsafe": sum(1 for j in judged if j["weak"] and j["lands"] == "other")}
    if "not-a-word" in lands:
        raise RuntimeError("harness produced a word outside the specification's alphabet")
    if min(verdict["accepted_good"], lands.get("other", 0), lands.get("self", 0), lands.get("none", 0), verdict["weak_unsafe"]) == 0:
        raise RuntimeError(f"vacuous verdict: {verdict}")
    for i, (c, j) in enumerate(zip(cases, judged)):
        if j["ok"]:
            continue
        accepted = [s for s, a in zip(strings[i], c["acc"]) if a]
        ctx.violation(f"nexturl:accepted-lands-{j['lands']}:{features(c['w'])}",
                      {"tokens": c["w"], "accepted_strings": accepted, "browser_lands": j["lands"],
                       "codepoints": [[ord(x) for x in s] for s in accepted[:1]]})
    # information only: aiohttp re-serialises the Location header through yarl; is the host still the accepted one?
    moved, nloc = [], 0
    for ss, c in zip(strings, cases):
        for s_, a in zip(ss, c["acc"]):
            if a:
                nloc += 1
                try:
                    loc = web.HTTPFound(s_).headers["Location"]
                    if urlparse(loc).netloc not in good_hosts:
                        moved.append((s_, loc))
                except Exception as e:  # noqa: BLE001
                    moved.append((s_, repr(e)))
    ctx.cov["location_headers_rebuilt_by_aiohttp"] = {"checked": nloc, "host_changed_or_error": len(moved)}
    if moved:
        ctx.note(f"aiohttp (this sandbox's version) rewrote {len(moved)} accepted URL(s) so that the Location header's netloc is no longer "
                 f"the accepted host, e.g. {moved[0]!r} (information only; the property is judged on the accepted string)")
    drift = [c for c, j in zip(cases, judged) if j["model"] != c["canon"]]
    if drift:
        ctx.note(f"the TLA+ model of the validator (PyAccepts) and the real function disagree on {len(drift)} word(s) in canonical spelling, "
                 f"e.g. {drift[0]['w']} real={drift[0]['canon']}; the verdict above is on the real answers")
    if other_errors:
        ctx.note(f"validate_next_page_url raised something other than HTTPBadRequest (counted as not accepted): {other_errors}")
    ctx.cov.update(traces_validated_against_impl=ncalls, evaluations=ncalls,
                   distinct_nontrivial=sum(1 for c in cases if len(c["w"]) >= 2), exhaustive=True,
                   rule=f"TLC model-checks the parser state machine and Safe(model validator) on all words <= {mc} (16 tokens) / <= {mccore} (core); "
                        f"B3: all {n_tlc_words} words <= {full} over 17 tokens (15 at length 5: without '?') and <= {core} over the 8-token core, plus {len(words) - n_tlc_words} insertion "
                        f"probes on longer URLs, each concretised {nvar} ways + canonical; every answer of the real validator judged by TLC; "
                        "non-trivial = word of >= 2 tokens")
    ctx.cov["states"] += 2 * ncalls
    ctx.cov["transitions"] += ncalls
    ctx.cov["verdict_counts"] = verdict
    ctx.cov["model_drift"] = len(drift)
    acc_cases = [i for i, c in enumerate(cases) if any(c["acc"])]
    for i in acc_cases[:3] + acc_cases[len(acc_cases) // 2:len(acc_cases) // 2 + 2]:
        ctx.sample({"tokens": cases[i]["w"], "strings": strings[i], "accepted": cases[i]["acc"]})
    ctx.sample({"tokens": ["ss", "evil", "bs", "at", "good"], "string": concretise(R, ["ss", "evil", "bs", "at", "good"], 0),
                "accepted": accepts(concretise(R, ["ss", "evil", "bs", "at", "good"], 0))})
    ctx.assume("a browser follows the redirect with the WHATWG URL parser against the base https://auth.<domain>/...; NextUrl.tla renders that "
               "parser for the token alphabet (no percent-encoding, IDNA mapping, IPv6 literals or non-ASCII characters); the browser is taken to "
               "receive the accepted string (aiohttp's yarl re-serialisation of the Location header is measured and reported, not modelled)",
               "good hosts are exactly the netlocs of deploy_config.external_url(s, '/') for batch, auth, ci, monitoring (default namespace, "
               "domain hail.test); the same name in another letter case or with a trailing dot is the same host; every other name, including "
               "other names under the deployment's domain, is another host",
               "a URL that navigates to no host (javascript:/unknown scheme, fragment only, URL parse failure) is not 'landing elsewhere'; "
               "a relative reference lands on the auth service's own origin",
               "tokens are represented by the strings in checks/c29.py reps(); a string is judged through its token word",
               "a call/return pair is a two-state behaviour; states/transitions count those in addition to the TLC runs")


def _evaluate(wd, module, env):
    """constant evaluation of an ASSUME-only module; NextUrl declares variables, so a one-state behaviour spec is given"""
    r = tlc.run(wd, module, "Idle.cfg", workers=1, env=env, timeout=1700, heap="12g")
    if r.violations:
        raise tlc.TLCFailure(f"evaluation of {module} failed: {[(v.kind, v.name) for v in r.violations]}\n{r.out[-2000:]}")
    return r
