"""Harness for C31: runs the REAL Hail front end (whole `hail` package, loaded offline through vlib.loader + the
MiniPEG stand-in for parsimonious) on names and type terms enumerated by TLC (specs/typestr/TypeTerms.tla) and records
what it printed / parsed as code points, for TLC to judge.

Real code exercised:
  hail.utils.java.escape_parsable / unescape_parsable          hail.utils.misc.escape_id / escape_str / parsable_strings
  hail.expr.types: HailType.__str__, ._parsable_string(), dtype(), ==     hail.expr.type_parsing (grammar + visitor)
  hail.ir: Ref / GetField / SelectFields / Str / NA rendered with str()
  hail.genetics.ReferenceGenome (built with _builtin=True: no backend) and hail.backend.Backend.get_reference /
  add_reference (the registry methods of the real class, bound to a registry object that is only a dict holder)
"""
from __future__ import annotations

import json
import re
import unicodedata
from concurrent.futures import ThreadPoolExecutor
from pathlib import Path

from vlib import loader, tlc

_H = None

PRIM = {"_tint32": "int32", "_tint64": "int64", "_tfloat32": "float32", "_tfloat64": "float64", "_tbool": "bool",
        "_tstr": "str", "_tcall": "call"}
UNARY = {"tarray": "array", "tset": "set", "tstream": "stream", "tinterval": "interval"}


class H:
    pass


def load():
    """Import the whole hail package offline and give it a reference-genome registry (no backend)."""
    global _H
    if _H is not None:
        return _H
    loader.install()
    import hail as hl
    from hail import ir
    from hail.backend.backend import Backend
    from hail.genetics.reference_genome import ReferenceGenome
    from hail.utils import java, misc

    class _Registry:  # holds the dict; look-up and registration are the real Backend methods
        def __init__(self):
            self._references = {}

        get_reference = Backend.get_reference
        add_reference = Backend.add_reference
        _add_reference_to_scala_backend = Backend._add_reference_to_scala_backend

    class _Context:
        def __init__(self):
            self._backend = _Registry()
            self._default_ref = None

        @property
        def default_reference(self):
            return self._default_ref

    ctxobj = _Context()
    java.Env._hc = ctxobj
    h = H()
    h.hl, h.ir, h.java, h.misc, h.RG, h.registry = hl, ir, java, misc, ReferenceGenome, ctxobj._backend
    h.rgs = {}
    _H = h
    return h


def s2c(s):
    return [ord(c) for c in s]


def c2s(cps):
    return "".join(chr(c) for c in cps)


def rg(h, name):
    """A reference genome called `name` (constructor of the real class; _builtin=True skips the backend call), registered
    through the real Backend.add_reference."""
    if name not in h.rgs:
        g = h.RG(name, ["1"], {"1": 10}, _builtin=True)
        h.registry.add_reference(g)
        h.rgs[name] = g
    return h.rgs[name]


def build(h, t):
    hl = h.hl
    k = t["k"]
    if k in PRIM.values():
        return getattr(hl, "t" + k)
    a = [build(h, x) for x in t["args"]]
    if k in UNARY.values():
        return getattr(hl, "t" + k)(a[0])
    if k == "ndarray":
        return hl.tndarray(a[0], t["n"])
    if k == "dict":
        return hl.tdict(a[0], a[1])
    if k == "tuple":
        return hl.ttuple(*a)
    if k == "struct":
        names = [c2s(n) for n in t["names"]]
        assert len(set(names)) == len(names)
        return hl.tstruct(**dict(zip(names, a)))
    if k == "locus":
        return hl.tlocus(rg(h, c2s(t["names"][0])))
    raise ValueError(k)


def term(h, T):
    """The term of a real type object (for the comparison of the real parser's result with the specification's)."""
    cn = type(T).__name__
    mk = lambda k, names=(), args=(), n=0: {"k": k, "names": [list(x) for x in names], "args": list(args), "n": n}
    if cn in PRIM:
        return mk(PRIM[cn])
    if cn in UNARY:
        inner = T.point_type if cn == "tinterval" else T.element_type
        return mk(UNARY[cn], args=[term(h, inner)])
    if cn == "tndarray":
        return mk("ndarray", args=[term(h, T.element_type)], n=T.ndim)
    if cn == "tdict":
        return mk("dict", args=[term(h, T.key_type), term(h, T.value_type)])
    if cn == "ttuple":
        return mk("tuple", args=[term(h, x) for x in T.types])
    if cn == "tstruct":
        return mk("struct", names=[s2c(f) for f in T.fields], args=[term(h, x) for x in T.types])
    if cn == "tlocus":
        return mk("locus", names=[s2c(T.reference_genome.name)])
    return mk("other:" + cn)


def combine(cps):
    """Surrogate pairs -> the astral code point (same function as Combine in TypeLex.tla; used for statistics only)."""
    out, i = [], 0
    while i < len(cps):
        if i + 1 < len(cps) and 0xD800 <= cps[i] < 0xDC00 and 0xDC00 <= cps[i + 1] < 0xE000:
            out.append(0x10000 + ((cps[i] - 0xD800) << 10) + (cps[i + 1] - 0xDC00))
            i += 2
        else:
            out.append(cps[i])
            i += 1
    return out


def real_parse_ident(h, p: str):
    """What the real type parser makes of the text p in identifier position: (accepted, name)."""
    try:
        T = h.hl.dtype("struct{" + p + ": int32}")
    except Exception:  # noqa: BLE001  (ParseError / VisitationError / UnicodeDecodeError ...: the parse is rejected)
        return False, []
    if type(T).__name__ != "tstruct" or len(T) != 1 or T.types[0] != h.hl.tint32:
        return False, []
    return True, s2c(T.fields[0])


def id_cases(h, names):
    """For every name: the three real printers, and what the real parser reads back from the type-string form."""
    hl = h.hl
    out = []
    for n in names:
        s = c2s(n)
        p = h.java.escape_parsable(s)
        ok, back = real_parse_ident(h, p)
        # the same name as reference genome of a locus type: print, parse, compare (real tlocus / get_reference)
        try:
            tl = hl.tlocus(rg(h, s))
            lrt = hl.dtype(str(tl)) == tl
        except Exception:  # noqa: BLE001
            lrt = False
        out.append({"n": n, "e": "parsable", "p": s2c(p), "pyok": ok and lrt, "pyname": back})
        out.append({"n": n, "e": "id", "p": s2c(h.misc.escape_id(s)), "pyok": False, "pyname": []})
        out.append({"n": n, "e": "str", "p": s2c('"' + h.misc.escape_str(s) + '"'), "pyok": False, "pyname": []})
    return out


def probe_cases(h, probes, models=("ue", "id", "fix_id", "fix_parsable")):
    """The specification's printer models fed to the real parser (binds the Python reader of the specification)."""
    out = []
    seen = set()
    for pr in probes:
        for m in models:
            key = tuple(pr[m])
            if key in seen:
                continue
            seen.add(key)
            ok, back = real_parse_ident(h, c2s(pr[m]))
            out.append({"n": pr["n"], "m": m, "p": pr[m], "pyok": ok, "pyname": back})
    return out


def which_model(h, probes):
    """Which printer model the real printers follow (information; never part of a verdict)."""
    agree = {"escape_parsable": {"ue": 0, "fix_parsable": 0}, "escape_id": {"id": 0, "fix_id": 0}, "escape_str": {"str": 0, "fix_str": 0}}
    for pr in probes:
        s = c2s(pr["n"])
        real = {"escape_parsable": s2c(h.java.escape_parsable(s)), "escape_id": s2c(h.misc.escape_id(s)),
                "escape_str": s2c('"' + h.misc.escape_str(s) + '"')}
        for fn, ms in agree.items():
            for m in ms:
                ms[m] += real[fn] == pr[m]
    return agree, len(probes)


def type_cases(h, terms):
    hl, ir = h.hl, h.ir
    out = []
    for t in terms:
        T = build(h, t)
        s = str(T)
        q = T._parsable_string()
        try:
            back = hl.dtype(s)
            ok, eq, r = True, bool(back == T), term(h, back)
        except Exception:  # noqa: BLE001
            ok, eq, r = False, False, {"k": "void", "names": [], "args": [], "n": 0}
        out.append({"t": t, "s": s2c(s), "q": s2c(q), "pyok": ok, "eq": eq, "r": r, "ir": s2c(str(ir.NA(T)))})
    return out


def ir_cases(h, names):
    hl, ir = h.hl, h.ir
    out = []
    for n in names:
        s = c2s(n)
        T = hl.tstruct(**{s: hl.tint32})
        out.append({"n": n, "tpl": "getfield", "x": s2c(str(ir.GetField(ir.Ref(s, T), s)))})
        out.append({"n": n, "tpl": "select", "x": s2c(str(ir.SelectFields(ir.Ref(s, T), [s])))})
        out.append({"n": n, "tpl": "str", "x": s2c(str(ir.Str(s)))})
        out.append({"n": n, "tpl": "strs", "x": s2c(h.misc.parsable_strings([s]))})
    return out


def calibrate(meta):
    """The character tables of TypeLex.tla against the real `re` (Python columns) and against the general categories the JDK
    documents for Character.isJavaIdentifierStart/Part (Java columns; the JVM itself is not available).  Returns mismatches."""
    bad = []
    dom = list(range(128)) + list(meta["classified"])
    pw = {c for c in dom if re.fullmatch(r"\w", chr(c))}
    ps = {c for c in dom if re.fullmatch(r"\s", chr(c))}
    if pw != set(meta["pyword"]):
        bad.append(("pyword", sorted(pw ^ set(meta["pyword"]))))
    if ps != set(meta["pyspace"]):
        bad.append(("pyspace", sorted(ps ^ set(meta["pyspace"]))))

    def jstart(c):
        cat = unicodedata.category(chr(c))
        return cat[0] == "L" or cat in ("Nl", "Sc", "Pc")

    def jpart(c):
        cat = unicodedata.category(chr(c))
        ignorable = c <= 8 or 0x0E <= c <= 0x1B or 0x7F <= c <= 0x9F or cat == "Cf"
        return jstart(c) or cat in ("Nd", "Mn", "Mc") or ignorable

    bmp = [c for c in dom if c < 65536]
    if {c for c in bmp if jstart(c)} != set(meta["javastart"]):
        bad.append(("javastart", sorted({c for c in bmp if jstart(c)} ^ set(meta["javastart"]))))
    if {c for c in bmp if jpart(c)} != set(meta["javapart"]):
        bad.append(("javapart", sorted({c for c in bmp if jpart(c)} ^ set(meta["javapart"]))))
    return bad


# ---------------------------------------------------------------------------------------------- TLC plumbing
def read_ndjson(path):
    return [json.loads(l) for l in Path(path).read_text().splitlines() if l.strip()]


def write_ndjson(path, rows):
    with open(path, "w") as f:
        for r in rows:
            f.write(json.dumps(r) + "\n")


def chunks(rows, k):
    k = max(1, min(k, len(rows)))
    size = (len(rows) + k - 1) // k
    return [rows[i:i + size] for i in range(0, len(rows), size)]


def parallel_eval(base: Path, module: str, jobs, timeout=3000):
    """jobs: list of env dicts; each is one TLC constant evaluation of `module` in its own directory (concurrently)."""
    def one(ix_env):
        ix, env = ix_env
        wd = tlc.prepare_dir(base / f"{module}_{ix}", ["typestr"])
        tlc.evaluate(wd, module, env=env, timeout=timeout, heap="3g")
        return ix
    with ThreadPoolExecutor(max_workers=min(8, max(1, len(jobs)))) as ex:
        list(ex.map(one, list(enumerate(jobs))))
