"""C30 - the CI service merges only approved, not do-not-merge, fully checked PRs whose test batch ran against the
target branch's (last fetched) commit, at most one per target-branch update (ci/ci/github.py WatchedBranch, PR).

Spec specs/ci/CiMerge.tla: GitHub's truth, the Batch service and CI's cache are separate variables; every await of
WatchedBranch._update on GitHub/Batch is its own action, people push/review/label/report and batches finish in
between.  (1) TLC checks the property (seven invariants over what GitHub/Batch really answered, judged at every
accepted merge) and the supporting cache invariants exhaustively.  (2) B1: the complete labelled state graph
is replayed edge by edge on the REAL WatchedBranch/PR objects against a fake GitHub/Batch (checks/_ci_fake.py),
comparing CI's whole cache, its pending request and the environment after every step.  (3) B2: long random
histories with more PRs/commits/pushes are executed on the real objects and validated by TLC as behaviours of
the spec, all invariants evaluated at every step.  (4) larger spec configurations by TLC simulation.
"""
from __future__ import annotations

import json
import random
import re

from vlib import loader, tlc, walk, tlaval

from . import _ci_fake as F

LEVEL = "model_checking"
MANIFEST = {
    "technique": "TLA+ spec CiMerge (GitHub truth / Batch service / CI cache as separate variables, one action per awaited request of WatchedBranch._update) checked exhaustively by TLC; state-graph replay (B1) and TLC trace validation (B2) against the real ci.github.WatchedBranch and PR objects driven request-by-request against a fake GitHub and Batch service",
    "text": "All interleavings of pushes to the PR and to the target branch, reviews, label changes, check reports, batch completions, webhook/callback/periodic notifications and every single GitHub/Batch request of an update pass are explored for 1-2 PRs; at every merge GitHub accepts, the PR was approved, carried no do-not-merge label, the checks CI read were those of the merged head commit and none was unsuccessful, its successful test batch was built for that head against the target sha CI last fetched, and that target sha had not already justified another merge. The real classes are shown to take exactly the modelled steps on the whole state graph and on random longer histories.",
    "note": "Staleness that no client of GitHub can avoid (a review dismissed, a label added, a check failing or the target branch moving between CI's last fetch and its merge request) is outside the property: 'current' is judged on GitHub's answers to CI's latest requests, plus GitHub's own refusal to merge when the request's sha is not the PR's head (modelled; PR heads only move to new commits). All reported checks are 'required' ones (the code ignores non-required contexts by design). Faults (GitHub/Batch errors, lost responses), merge conflicts, deploys (deployable=False), frozen mode, invalidated batches and a CI restart are not in the model. _start_build runs for real with the shell/build.yaml leaves stubbed. Trusts TLC and the fake environment (itself compared with the spec's environment variables at every step).",
    "design_ref": "DESIGN.md section 5, C30",
}

PROPERTY = ["C30_Approved", "C30_NotDoNotMerge", "C30_ChecksOfHead", "C30_ChecksSucceeded", "C30_BatchOfHead",
            "C30_BatchOnTarget", "C30_OnePerTarget"]
SUPPORT = ["TypeOK", "CacheBatch", "BuildStateTrue", "CacheTarget", "MergeNeedsTarget", "CiStatusBacked"]
INVS = PROPERTY + SUPPORT
ACTIONS = ["Setup", "PushPR", "PushTarget", "Review", "Label", "Report", "BatchDone", "Notify", "FetchBranch", "FetchPRs",
           "FetchStatus", "UpdateBatch", "PostStatus", "StartBuild", "Orphans", "MergeOk", "MergeRefused"]


def tset(xs):
    return "{" + ", ".join(json.dumps(x) if isinstance(x, str) else str(x) for x in xs) + "}"


K3 = ["github", "batch", "all"]


def consts(prs, maxc, maxpush, reviews, labels, ext, budget, kinds=K3, page=1):
    return {"PageSize": page, "PRs": tset(prs), "MaxC": maxc, "MaxPush": maxpush, "Reviews": tset(reviews), "Labels": tset(labels),
            "ExtVals": tset(ext), "NotifyKinds": tset(kinds), "Budget": budget}


def spec_violation(ctx, v, cfg, what):
    tr = [(h, tlaval.to_py(s) if s else None) for h, s in v.trace]
    ctx.violation(f"spec:{v.name}", {"config": cfg, "run": what, "actions": [h for h, _ in tr], "last_state": tr[-1][1] if tr else None},
                  replay={"config": cfg, "trace": tr})


# ---------------------------------------------------------------------------------------------------------
def random_history(mod, rng, prs, maxc, maxpush, reviews, labels, ext, nsteps, page=1):
    """Drive the real objects with a random environment; returns the event list (B2)."""
    impl = F.Impl(mod, prs, maxc, page)
    P = impl.P
    ev = []

    def post():
        # CI's whole cache + pending request, and the part of the environment that CI's requests change
        p = impl.project()
        ci = dict(p["ci"])
        ci["prs"] = list(ci["prs"])
        ci["pr"] = [{**x, "lab": sorted(x["lab"])} for x in ci["pr"]]
        return {"ghT": p["ghT"], "ghOpen": list(p["ghOpen"]), "ghCi": [list(x) for x in p["ghCi"]],
                "batches": list(p["batches"]), "ci": ci}

    def log(e):
        e["post"] = post()
        ev.append(e)

    good = rng.random() < 0.7     # mostly start from a state where merging is near
    rv = [("APPROVED" if (good and rng.random() < 0.85) else rng.choice(reviews)) for _ in P]
    lb = [sorted(l for l in labels if rng.random() < (0.07 if good else 0.3)) for _ in P]
    impl.do_setup(rv, lb)
    log({"a": "Setup", "rv": rv, "lb": lb})
    w = impl.w
    noise = rng.choice([0.02, 0.05, 0.1, 0.25])
    for _ in range(nsteps):
        running = [i + 1 for i, b in enumerate(w.batches) if b.st == "running"]
        ops = []
        if rng.random() < noise:
            for n in (n for n in P if w.open[n]):
                if w.head[n] < maxc:
                    ops.append(("PushPR", n))
                ops += [("Review", n), ("Label", n), ("Report", n), ("Report", n)]
            if w.npush < maxpush:
                ops.append(("PushTarget",))
        if not ops:
            if impl.pending is not None:
                ops += [("ci",)] * 12 + [("Notify",)]
            ops += [("BatchDone", b) for b in running] * (1 if impl.pending is not None else 6)
            if impl.pending is None:
                ops += [("Notify",)] * (1 if running else 4)
        op = rng.choice(ops)
        if op[0] == "ci":
            kind, n = impl.pending.kind, impl.pending.n
            resp = impl.serve(kind, n)
            name = {v: k for k, v in F.CI_ACTIONS.items() if k not in ("MergeOk", "MergeRefused")}.get(kind, "Merge")
            e = {"a": name}
            if kind in ("status", "batch", "post", "build", "merge"):
                e["n"] = n
            if kind == "merge":
                e["ok"] = not isinstance(resp, BaseException)
            log(e)
        elif op[0] == "PushPR":
            impl.push_pr(op[1]); log({"a": "PushPR", "n": op[1]})
        elif op[0] == "PushTarget":
            impl.push_target(); log({"a": "PushTarget"})
        elif op[0] == "Review":
            r = rng.choice([x for x in reviews if x != w.rev[op[1]]])
            impl.review(op[1], r); log({"a": "Review", "n": op[1], "r": r})
        elif op[0] == "Label":
            l = rng.choice(labels)
            impl.label(op[1], l); log({"a": "Label", "n": op[1], "l": l})
        elif op[0] == "Report":
            cur = w.ext[op[1]][w.head[op[1]]]
            v = rng.choice([x for x in ext if x != cur] if rng.random() < 0.4 or cur == "success" else ["success"])
            impl.report(op[1], v); log({"a": "Report", "n": op[1], "v": v})
        elif op[0] == "BatchDone":
            ok = rng.random() < 0.8
            impl.batch_done(op[1], ok); log({"a": "BatchDone", "b": op[1], "ok": ok})
        elif op[0] == "Notify":
            kind = rng.choice(["github", "batch", "all", "all"])
            impl.notify(kind); log({"a": "Notify", "kind": kind})
    merges = list(w.merged_log)
    impl.close()
    return ev, merges


def run(ctx):
    loader.install()
    import ci.github as mod

    wd = tlc.prepare_dir(ctx.build / "tlc", ["ci"])
    R2 = ["APPROVED", "REVIEW_REQUIRED"]
    R4 = ["APPROVED", "REVIEW_REQUIRED", "CHANGES_REQUESTED", "API_NONE"]

    # ---- (1)+(2) exhaustive model checking, and replay of the whole graph on the real classes ---------------------
    #          prs    maxc push reviews labels   ext                      budget kinds            replay page-size
    SF = ["success", "failure"]
    if ctx.quick:
        configs = [((1,), 2, 1, R2, ["WIP"], ["failure"], 1, ["all"], True, 1),
                   ((1, 2), 2, 1, ["APPROVED"], [], ["failure"], 0, ["batch", "all"], True, 1)]
    else:
        configs = [((1,), 2, 1, R2, ["WIP"], SF, 1, K3, True, 1),
                   ((1, 2), 2, 1, R2, ["WIP"], SF, 0, K3, True, 2),
                   ((1,), 2, 1, R4, ["WIP", "prio:high"], SF + ["pending"], 2, K3, False, 1),
                   ((1,), 2, 1, R2, ["WIP"], SF, 3, K3, False, 1),
                   ((1, 2), 2, 1, R2, ["WIP"], SF, 1, K3, False, 1),
                   ((1, 2), 2, 1, ["APPROVED"], [], ["failure"], 2, ["batch", "all"], False, 1)]
    total_edges = total_walks = 0
    reached_two = False
    for i, (prs, maxc, maxpush, reviews, labels, ext, budget, kinds, replay, page) in enumerate(configs):
        cfg = consts(prs, maxc, maxpush, reviews, labels, ext, budget, kinds, page)
        what = f"exhaustive CiMerge PRs={len(prs)} commits={maxc} target pushes={maxpush} page size={page} human events={budget} (+arbitrary initial reviews/labels)"
        (wd / f"MC{i}.cfg").write_text(tlc.mk_cfg(constants=cfg, invariants=INVS))
        res = tlc.run(wd, "CiMerge", f"MC{i}.cfg", workers=ctx.workers, coverage=True, dump=f"g{i}" if replay else None, timeout=3000)
        ctx.add_tlc(res, what)
        need = [a for a in ACTIONS if budget > 0 or a not in ("PushPR", "PushTarget", "Review", "Label", "Report", "MergeRefused")]
        need = [a for a in need if not (a == "Review" and len(reviews) < 2) and not (a == "Label" and not labels)]
        ctx.require_covered(res, need, f"CiMerge MC{i}")
        for v in res.violations:
            spec_violation(ctx, v, cfg, what)
        if res.violations or not replay:
            continue
        g = tlc.parse_dot(wd / f"g{i}.dot")
        reached_two = reached_two or any(s.get("nmerged", 0) >= 2 for s in g.nodes.values())
        if page == 1 and budget > 0 and not any(s["ci"]["pg"]["cur"] > 0 for s in g.nodes.values()):
            raise RuntimeError("vacuous: no status fetch with more than one page in the replayed graph")

        def apply_edge(impl, name, args, src, dst):
            F.apply_action(impl, name, args)

        stats, mism = walk.replay_graph(g, lambda: F.Impl(mod, prs, maxc, page), apply_edge, lambda impl: impl.project(),
                                        view=F.view, rng=random.Random(ctx.seed))
        total_edges += stats["edges_covered"]
        total_walks += stats["walks"]
        ctx.cov.setdefault("graph_replay", []).append({"config": cfg, **stats})
        if stats["edges_covered"] != stats["edges"] and not mism:
            raise RuntimeError(f"graph not covered: {stats}")
        for m in mism:
            name = tlc.parse_action_label(m.label)[0] if m.label != "<init>" else "init"
            keys = sorted(m.diff)
            if keys == ["ci"]:
                a, b = m.diff["ci"]["spec"], m.diff["ci"]["impl"]
                keys = ["ci." + k for k in sorted(a) if a[k] != b.get(k)]
            ctx.violation(f"replay:{name}:{','.join(keys)}", {"config": cfg, "path": m.path[-25:], "path_len": len(m.path), "diff": m.diff})
        if i == 0 and g.edges:
            e = [e for e in g.edges if e[1].startswith("MergeOk")]
            if e:
                ctx.sample({"kind": "graph-edge", "edge": e[0][1], "target_ci": tlaval.to_py(g.nodes[e[0][2]]["ci"])})
    if not reached_two and not ctx.viol:
        raise RuntimeError("vacuous: no replayed graph contains two merges (C30_OnePerTarget never exercised)")

    # ---- (3) B2: random histories of the real classes, validated by TLC -------------------------------------
    ntr, nsteps, nprs, maxc, maxpush = (120, 70, 2, 2, 2) if ctx.quick else (1200, 110, 3, 3, 3)
    labels = ["WIP", "stacked PR", "prio:high", "do-not-test"]
    ext = ["success", "failure", "pending"]
    prs = tuple(range(1, nprs + 1))
    rng = random.Random(ctx.seed * 7919 + 30)
    lines, nmerges, nev, two, paged = [], 0, 0, 0, 0
    for _ in range(ntr):
        ev, merges = random_history(mod, rng, prs, maxc, maxpush, R4, labels, ext, nsteps)
        nmerges += len(merges)
        two += len(merges) >= 2
        nev += len(ev)
        paged += sum(1 for a, b in zip(ev, ev[1:]) if a["a"] == b["a"] == "FetchStatus" and a["n"] == b["n"])
        lines.append(json.dumps({"ev": ev}))
    tf = wd / "traces.ndjson"
    tf.write_text("\n".join(lines) + "\n")
    if nmerges == 0 or two == 0 or paged == 0:
        raise RuntimeError(f"vacuous random histories: {nmerges} merges, {two} histories with two merges, {paged} multi-page status fetches")
    cfg = consts(prs, maxc, maxpush, R4, labels, ext, 10 ** 6)
    (wd / "Trace.cfg").write_text(tlc.mk_cfg(spec="TraceSpec", constants=cfg, invariants=INVS, deadlock=True))
    tres = tlc.run(wd, "CiMergeTrace", "Trace.cfg", workers=max(1, min(4, ctx.workers)), env={"TRACE_FILE": tf}, timeout=3000)
    ctx.add_tlc(tres, f"trace validation of {ntr} random histories of the real WatchedBranch/PR ({nprs} PRs, {maxc} commits, {maxpush} target pushes; {nmerges} merges)")
    if not tres.violations and tres.distinct < nev:
        raise RuntimeError(f"trace validation explored {tres.distinct} states for {nev} events")
    for v in tres.violations:
        last = v.trace[-1][1] if v.trace else {}
        tid, l = last.get("tid"), last.get("l")
        evs = json.loads(lines[tid - 1])["ev"] if tid else []
        nxt = evs[l - 1] if tid and l and l <= len(evs) else None
        if v.kind == "deadlock":
            sig = f"trace:unexplained:{nxt['a'] if nxt else 'end'}"
        else:
            sig = f"trace:{v.name}"
        ctx.violation(sig, {"trace_id": tid, "position": l, "next_event": nxt, "spec_ci": tlaval.to_py(last.get("ci")),
                            "actions": [{k: x for k, x in e.items() if k != "post"} for e in evs[:l]][-40:]})
    ctx.sample({"kind": "impl-trace", "events": [{k: x for k, x in e.items() if k != "post"} for e in json.loads(lines[0])["ev"][:25]]})
    ctx.cov["random_histories"] = {"n": ntr, "events": nev, "accepted_merges": nmerges, "histories_with_two_merges": two,
                                   "multi_page_status_fetches": paged}

    # ---- (4) bigger spec configurations by simulation (thorough tier only) -------------------------------------
    if not ctx.quick:
        sim_n, sim_depth, sw = 60000, 120, max(1, min(8, ctx.workers))
        scfg = consts((1, 2, 3), 3, 2, R2, ["WIP", "prio:high"], ext, 8)
        (wd / "Sim.cfg").write_text(tlc.mk_cfg(constants=scfg, invariants=INVS))
        # TLC's num= is per worker
        sres = tlc.run(wd, "CiMerge", "Sim.cfg", workers=sw, simulate=f"num={-(-sim_n // sw)}", depth=sim_depth, seed=ctx.seed, timeout=3000)
        m = re.search(r"(\d+) states checked, (\d+) traces generated[^\n]*\nThe number of states generated: (\d+)", sres.out)
        if not m:
            raise RuntimeError("simulation did not report its counts")
        sres.generated = sres.distinct = int(m.group(3))     # states visited along the behaviours (not de-duplicated)
        ctx.cov["simulated_behaviours"] = int(m.group(2))
        ctx.add_tlc(sres, f"simulation of CiMerge, 3 PRs x 3 commits, 2 target pushes, 8 human events: about {sim_n} behaviours of depth <= {sim_depth}")
        for v in sres.violations:
            spec_violation(ctx, v, scfg, "simulation")

    ctx.cov["traces_validated_against_impl"] = ntr + total_walks
    ctx.cov["trace_events"] = nev
    ctx.cov["evaluations"] = nev + total_edges
    ctx.cov["distinct_nontrivial"] = total_edges
    ctx.cov["exhaustive"] = True
    ctx.cov["rule"] = ("exhaustive TLC exploration of CiMerge for the listed constants; every edge of the dumped state graphs replayed on the real "
                       "WatchedBranch/PR with full cache + environment comparison; random histories validated by TLC; "
                       "distinct_nontrivial = distinct graph edges replayed")
    ctx.assume("GitHub refuses a merge whose `sha` parameter is not the PR's head and PR heads only move to new commits (no force-push back to an earlier sha)",
               "GitHub's refs/pulls/graphql answers are consistent with its state at the moment they are served (no replication lag)",
               "test batches for a (source sha, target branch) are created only by this CI instance; nobody cancels them but CI",
               "no request to GitHub or Batch fails, no merge conflict, branch not deployable, CI not frozen, no invalidated batches",
               "every reported check is a required one (PR._update_github drops non-required contexts on purpose)",
               "'current' = as of GitHub's answers to CI's latest requests; changes after the last fetch are unavoidable staleness, except the head sha which GitHub re-checks")
