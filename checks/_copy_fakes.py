"""Environment models for C23: in-memory object stores behind the three cloud back ends.

Every fake serves byte ranges per RFC 7233 (`serve_range`), records every range request it answers together
with what it served (so that TLC can validate the *fake* against the TLA+ `Serve` action of
specs/copy/RangeRead.tla), and raises the *real* exception classes the back ends test for.

    GCS   : a `BaseSession` that answers the JSON API urls used by GoogleStorageClient (media get with a
            `Range` header, object metadata, object listing); the real GoogleStorageClient sits on top of it.
    S3    : an object with `get_object(Range=..)`, `head_object`, `list_objects_v2`, `exceptions.NoSuchKey`.
    Azure : BlobServiceClient -> BlobClient.download_blob(offset, length) / exists / get_blob_properties and
            ContainerClient.walk_blobs / list_blobs, with the SDK's behaviour for ranges (416 -> HttpResponseError,
            except for a download without offset).
"""
from __future__ import annotations

import asyncio
import io
import json
import re
import types
import urllib.parse


def serve_range(body: bytes, first, last):
    """RFC 7233 single byte-range: first=None means no Range header.  -> (status, bytes)."""
    n = len(body)
    if first is None:
        return 200, body
    if first >= n:
        return 416, b""
    if last is None or last >= n:
        last = n - 1
    if last < first:
        # syntactically invalid range (last < first): RFC 7233 says ignore the header
        return 200, body
    return 206, body[first:last + 1]


_RANGE = re.compile(r"^bytes=(\d+)-(\d*)$")


def parse_range_header(h):
    if h is None:
        return None, None
    m = _RANGE.match(h)
    if not m:
        raise AssertionError(f"unparseable Range header {h!r}")
    return int(m.group(1)), (int(m.group(2)) if m.group(2) != "" else None)


class Store:
    """bucket/key -> bytes, plus the request log."""

    def __init__(self):
        self.objects: dict[tuple[str, str], bytes] = {}
        self.log: list[dict] = []

    def record(self, first, last, status, data: bytes):
        self.log.append({"first": -1 if first is None else first, "last": -1 if last is None else last,
                         "status": status, "body": list(data)})

    def keys_with_prefix(self, bucket, prefix):
        return sorted(k for (b, k) in self.objects if b == bucket and k.startswith(prefix))


# ------------------------------------------------------------------------------------------ GCS
class _FakeResp:
    def __init__(self, status, body: bytes, headers=None, js=None):
        self.status = status
        self.headers = headers or {}
        self._json = js
        self.content = asyncio.StreamReader()
        self.content.feed_data(body)
        self.content.feed_eof()
        self.closed = False

    async def json(self):
        return self._json

    def close(self):
        self.closed = True

    def release(self):
        self.closed = True

    async def __aenter__(self):
        return self

    async def __aexit__(self, *a):
        self.close()


def make_gcs_session(store: Store):
    import aiohttp
    from hailtop.aiocloud.common.session import BaseSession

    def err(status, url):
        return aiohttp.ClientResponseError(types.SimpleNamespace(real_url=url), (), status=status, message=f"fake {status}")

    class FakeGCSSession(BaseSession):
        async def request(self, method, url, **kwargs):
            assert method == "GET", method
            params = dict(kwargs.get("params") or {})
            headers = dict(kwargs.get("headers") or {})
            m = re.match(r"^https://storage\.googleapis\.com/storage/v1/b/([^/]+)/o(?:/(.*))?$", url)
            assert m, url
            bucket, qname = m.group(1), m.group(2)
            if qname:
                name = urllib.parse.unquote(qname)
                body = store.objects.get((bucket, name))
                if body is None:
                    raise err(404, url)
                if params.get("alt") == "media":
                    first, last = parse_range_header(headers.get("Range"))
                    status, data = serve_range(body, first, last)
                    store.record(first, last, status, data)
                    if status == 416:
                        raise err(416, url)
                    return _FakeResp(status, data)
                return _FakeResp(200, b"", js={"name": name, "size": str(len(body)), "bucket": bucket})
            prefix = params.get("prefix", "")
            delim = params.get("delimiter")
            items, prefixes = [], []
            for k in store.keys_with_prefix(bucket, prefix):
                rest = k[len(prefix):]
                if delim and delim in rest:
                    p = prefix + rest.split(delim, 1)[0] + delim
                    if p not in prefixes:
                        prefixes.append(p)
                else:
                    items.append({"name": k, "size": str(len(store.objects[(bucket, k)]))})
            page = {}
            if items:
                page["items"] = items
            if prefixes:
                page["prefixes"] = prefixes
            return _FakeResp(200, b"", js=page)

        async def close(self):
            pass

    return FakeGCSSession()


def make_gcs_fs(store: Store):
    from hailtop.aiocloud.aiogoogle import GoogleStorageAsyncFS
    from hailtop.aiocloud.aiogoogle.client.storage_client import GoogleStorageClient

    import hailtop.aiocloud.aiogoogle.user_config as uc

    saved = uc.spark_conf_path
    uc.spark_conf_path = lambda: None  # the inert pyspark stub would otherwise yield a non-path "spark home"
    try:
        client = GoogleStorageClient(session=make_gcs_session(store))
    finally:
        uc.spark_conf_path = saved
    return GoogleStorageAsyncFS(storage_client=client, bucket_allow_list=[])


# ------------------------------------------------------------------------------------------ S3
class _ShortReads(io.BytesIO):
    """a streaming body (like botocore's StreamingBody over a socket): a read may return fewer bytes than asked for, at most 3 here,
    without that meaning the end of the object"""

    def read(self, n=-1):
        if n is None or n < 0:
            return super().read()
        return super().read(min(n, 3))


def make_s3_fs(store: Store, thread_pool):
    import botocore.exceptions
    from hailtop.aiocloud.aioaws import S3AsyncFS

    class NoSuchKey(botocore.exceptions.ClientError):
        pass

    def client_error(code, status, op):
        return botocore.exceptions.ClientError({"Error": {"Code": code, "Message": code},
                                                "ResponseMetadata": {"HTTPStatusCode": status}}, op)

    class FakeS3:
        exceptions = types.SimpleNamespace(NoSuchKey=NoSuchKey)

        def get_object(self, *, Bucket, Key, Range=None):
            body = store.objects.get((Bucket, Key))
            if body is None:
                raise NoSuchKey({"Error": {"Code": "NoSuchKey"}, "ResponseMetadata": {"HTTPStatusCode": 404}}, "GetObject")
            first, last = parse_range_header(Range)
            status, data = serve_range(body, first, last)
            store.record(first, last, status, data)
            if status == 416:
                raise client_error("InvalidRange", 416, "GetObject")
            return {"Body": _ShortReads(data), "ContentLength": len(data)}

        def head_object(self, *, Bucket, Key):
            body = store.objects.get((Bucket, Key))
            if body is None:
                raise client_error("404", 404, "HeadObject")
            return {"ContentLength": len(body)}

        def list_objects_v2(self, *, Bucket, Prefix="", Delimiter=None, **kw):
            contents, prefixes = [], []
            for k in store.keys_with_prefix(Bucket, Prefix):
                rest = k[len(Prefix):]
                if Delimiter and Delimiter in rest:
                    p = Prefix + rest.split(Delimiter, 1)[0] + Delimiter
                    if {"Prefix": p} not in prefixes:
                        prefixes.append({"Prefix": p})
                else:
                    contents.append({"Key": k, "Size": len(store.objects[(Bucket, k)])})
            page = {}
            if contents:
                page["Contents"] = contents
            if prefixes:
                page["CommonPrefixes"] = prefixes
            return page

    fs = S3AsyncFS(thread_pool=thread_pool)
    fs._s3 = FakeS3()
    return fs


# ------------------------------------------------------------------------------------------ Azure
def make_azure_fs(store: Store, chunk: int = 2):
    import hailtop.aiocloud.aioazure.fs as azfs

    exc = azfs.azure.core.exceptions
    for cname in ("HttpResponseError", "ResourceNotFoundError", "ClientAuthenticationError"):
        c = getattr(exc, cname)
        if not (isinstance(c, type) and issubclass(c, Exception)):
            raise RuntimeError(f"azure.core.exceptions.{cname} is not an exception class in this sandbox")

    class FakeDownloader:
        def __init__(self, data):
            self._data = data

        async def readall(self):
            return self._data

        def chunks(self):
            data = self._data

            async def it():
                for i in range(0, len(data), chunk):
                    yield data[i:i + chunk]

            return it()

    class FakeProps:
        def __init__(self, name, size):
            self.name = name
            self.size = size
            self.metadata = {}

    class FakeBlobClient:
        def __init__(self, container, name):
            self.container, self.name = container, name

        async def exists(self):
            return (self.container, self.name) in store.objects

        async def get_blob_properties(self):
            body = store.objects.get((self.container, self.name))
            if body is None:
                raise exc.ResourceNotFoundError("fake 404")
            return FakeProps(self.name, len(body))

        async def download_blob(self, offset=None, length=None, **kw):
            body = store.objects.get((self.container, self.name))
            if body is None:
                raise exc.ResourceNotFoundError("fake 404")
            if length is not None and offset is None:
                raise ValueError("Offset must be provided if length is provided.")
            if offset is None:
                # the SDK downloads the whole blob and tolerates the 416 of an empty blob in this case only
                store.record(None, None, 200, body)
                return FakeDownloader(body)
            last = None if length is None else offset + length - 1
            status, data = serve_range(body, offset, last)
            store.record(offset, last, status, data)
            if status == 416:
                e = exc.HttpResponseError("fake 416 InvalidRange")
                e.status_code = 416
                raise e
            return FakeDownloader(data)

    class FakeContainerClient:
        def __init__(self, container):
            self.container = container

        def list_blobs(self, name_starts_with="", include=None):
            keys = store.keys_with_prefix(self.container, name_starts_with or "")

            async def it():
                for k in keys:
                    yield FakeProps(k, len(store.objects[(self.container, k)]))

            return it()

        def walk_blobs(self, name_starts_with="", include=None, delimiter="/"):
            prefix = name_starts_with or ""
            out, seen = [], set()
            for k in store.keys_with_prefix(self.container, prefix):
                rest = k[len(prefix):]
                if delimiter in rest:
                    p = prefix + rest.split(delimiter, 1)[0] + delimiter
                    if p not in seen:
                        seen.add(p)
                        bp = azfs.BlobPrefix()
                        bp.prefix = p
                        out.append(bp)
                else:
                    out.append(FakeProps(k, len(store.objects[(self.container, k)])))

            async def it():
                for x in out:
                    yield x

            return it()

    class FakeBlobServiceClient:
        def get_blob_client(self, container, path):
            return FakeBlobClient(container, path)

        def get_container_client(self, container):
            return FakeContainerClient(container)

        async def close(self):
            pass

    fs = azfs.AzureAsyncFS(credentials=types.SimpleNamespace(credential=None))

    class _Clients(dict):
        def __contains__(self, k):
            return True

        def __missing__(self, k):
            v = FakeBlobServiceClient()
            self[k] = v
            return v

    fs._blob_service_clients = _Clients()
    return fs


def dumps(o):
    return json.dumps(o, separators=(",", ":"))
