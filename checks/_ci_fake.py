"""C30 harness: the real ci.github.WatchedBranch / PR driven one request at a time against a fake GitHub and a fake
Batch service (the environment that specs/ci/CiMerge.tla specifies).

The code under test is a single coroutine; every call on the fake `gh` client / batch client does `await Call(...)`,
a bare awaitable that yields itself to the driver.  The driver therefore sees exactly which request the real
code has pending (-> ci.pc of the spec), serves it from the world's state *at the moment of the action* and
resumes the code up to its next request (`coro.send`).  No event loop, no timing.
"""
from __future__ import annotations

import io
import re

REPO_SS = "hail-is/hail"
BRANCH = "main"
CTX_EXT = "ext-check"


class Call:
    """A request of the code under test to its environment."""

    def __init__(self, kind, n, serve):
        self.kind, self.n, self.serve = kind, n, serve

    def __await__(self):
        return (yield self)


def tsha(k):
    return None if k == 0 else f"t{k:039d}"


def tnum(s):
    return 0 if s is None else int(s[1:])


def csha(n, k):
    return f"c{n:019d}x{k:019d}"


def cnum(s):
    n, k = s[1:].split("x")
    return int(n), int(k)


class World:
    """GitHub's and Batch's truth.  Only the driver (environment actions, served requests) changes it."""

    def __init__(self, prs, maxc, page_size=1):
        self.prs = tuple(sorted(prs))
        self.maxc = maxc
        self.page_size = page_size     # contexts per page of the status query (GitHub: what the query asks for, 10)
        self.T = 1
        self.npush = 0
        self.head = {n: 1 for n in prs}
        self.open = {n: True for n in prs}
        self.rev = {n: "REVIEW_REQUIRED" for n in prs}
        self.lab = {n: set() for n in prs}
        self.ext = {n: {k: "absent" for k in range(1, maxc + 1)} for n in prs}
        self.ci = {n: {k: "absent" for k in range(1, maxc + 1)} for n in prs}
        self.batches = []  # FakeBatch objects, id = index + 1

    def snapshot(self):
        P = self.prs
        return {
            "ghT": self.T, "npush": self.npush,
            "ghHead": tuple(self.head[n] for n in P), "ghOpen": tuple(self.open[n] for n in P),
            "ghRev": tuple(self.rev[n] for n in P), "ghLab": tuple(frozenset(self.lab[n]) for n in P),
            "ghExt": tuple(tuple(self.ext[n][k] for k in range(1, self.maxc + 1)) for n in P),
            "ghCi": tuple(tuple(self.ci[n][k] for k in range(1, self.maxc + 1)) for n in P),
            "batches": tuple({"pr": b.pr, "src": b.src, "tgt": b.tgt, "st": b.st} for b in self.batches),
        }


def make_classes(mod):
    """Fakes that need classes of the loaded repository (Batch for isinstance, gidgethub's exception)."""
    from hailtop.batch_client.aioclient import Batch

    class FakeBatch(Batch):
        def __init__(self, world, attributes):  # pylint: disable=super-init-not-called
            self.world = world
            self.attributes = dict(attributes)
            self._fid = None
            self.st = "unsubmitted"
            self.pr = int(attributes["pr"])
            n, self.src = cnum(attributes["source_sha"])
            assert n == self.pr, attributes
            self.tgt = tnum(attributes["target_sha"])

        @property
        def id(self):
            assert self._fid is not None
            return self._fid

        async def status(self):  # pylint: disable=invalid-overridden-method
            return {"id": self._fid, "state": self.st, "complete": self.st in ("success", "failure", "cancelled"),
                    "attributes": self.attributes}

        async def cancel(self):
            if self.st == "running":
                self.st = "cancelled"

        async def submit(self, *a, **k):  # pylint: disable=arguments-differ
            def serve():
                self.world.batches.append(self)
                self._fid = len(self.world.batches)
                self.st = "running"
                return None
            await Call("build", self.pr, serve)

    class FakeBatchClient:
        def __init__(self, world):
            self.world = world

        def create_batch(self, attributes=None, callback=None, **k):
            assert attributes.get("test") == "1" and attributes["target_branch"] == f"{REPO_SS}:{BRANCH}", attributes
            return FakeBatch(self.world, attributes)

        async def list_batches(self, q=None, **k):
            w = self.world
            toks = q.split()
            assert "test=1" in toks and f"target_branch={REPO_SS}:{BRANCH}" in toks and "user:ci" in toks, q
            if "!complete" in toks:
                assert "!open" in toks, q
                bs = await Call("orphans", 0, lambda: [b for b in reversed(w.batches) if b.st == "running"])
            else:
                (sha,) = [t.split("=", 1)[1] for t in toks if t.startswith("source_sha=")]
                n, _k = cnum(sha)
                bs = await Call("batch", n, lambda: [b for b in reversed(w.batches) if b.attributes["source_sha"] == sha])
            for b in bs:
                yield b

    class FakeGH:
        """The four gidgethub calls github.py uses."""

        def __init__(self, world):
            self.world = world

        async def getitem(self, path):
            assert path == f"/repos/{REPO_SS}/git/refs/heads/{BRANCH}", path
            return await Call("branch", 0, lambda: {"object": {"sha": tsha(self.world.T)}})

        async def getiter(self, path):
            assert path == f"/repos/{REPO_SS}/pulls?state=open&base={BRANCH}", path
            w = self.world

            def serve():
                return [{
                    "number": n, "title": f"pr {n}", "body": None, "user": {"login": "ehigham"},
                    "assignees": [{"login": "cjllanwarne"}], "requested_reviewers": [],
                    "labels": [{"name": l} for l in sorted(w.lab[n])],
                    "head": {"sha": csha(n, w.head[n]), "ref": f"feature{n}",
                             "repo": {"owner": {"login": "dev"}, "name": "hail"}},
                } for n in w.prs if w.open[n]]
            for x in await Call("pulls", 0, serve):
                yield x

        async def post(self, path, data=None):
            w = self.world
            if path == "/graphql":
                q = data["query"]
                n = int(re.search(r"pullRequest \(number: (\d+)\)", q).group(1))
                assert "first: 10" in q, q
                m = re.search(r'after: "(\d+)"', q)
                cur = int(m.group(1)) if m else 0
                assert ("after:" in q) == (m is not None), q

                def serve():
                    # answered for the head of this moment; contexts in GitHub's fixed order, one page of them
                    h = w.head[n]
                    nodes = []
                    if w.ext[n][h] != "absent":
                        nodes.append({"__typename": "CheckRun", "name": CTX_EXT, "conclusion": w.ext[n][h].upper(),
                                      "isRequired": True})
                    if w.ci[n][h] != "absent":
                        nodes.append({"__typename": "StatusContext", "context": mod.GITHUB_STATUS_CONTEXT,
                                      "state": w.ci[n][h].upper(), "isRequired": True})
                    ps = min(10, w.page_size)
                    page = nodes[cur:cur + ps]
                    rollup = None if not nodes else {"contexts": {"nodes": page, "pageInfo": {
                        "endCursor": str(cur + len(page)), "hasNextPage": len(nodes) > cur + ps}}}
                    rd = None if w.rev[n] == "API_NONE" else w.rev[n]
                    return {"data": {"repository": {"pullRequest": {
                        "reviewDecision": rd, "commits": {"nodes": [{"commit": {"statusCheckRollup": rollup}}]}}}}}
                return await Call("status", n, serve)
            m = re.fullmatch(rf"/repos/{REPO_SS}/statuses/(\w+)", path)
            if m:
                n, k = cnum(m.group(1))
                assert data["context"] == mod.GITHUB_STATUS_CONTEXT, data

                def serve():
                    w.ci[n][k] = data["state"]
                    return {}
                return await Call("post", n, serve)
            raise AssertionError(f"unexpected POST {path}")

        async def put(self, path, data=None):
            m = re.fullmatch(rf"/repos/{REPO_SS}/pulls/(\d+)/merge", path)
            assert m, path
            n = int(m.group(1))
            w = self.world

            def serve():
                # GitHub: `sha` is optional; when given it must be the head of the pull request (409 otherwise)
                if w.open[n] and data.get("sha") in (None, csha(n, w.head[n])):
                    w.open[n] = False
                    w.T += 1
                    w.merged_log.append((n, data.get("sha")))
                    return {"merged": True}
                return mod.gidgethub.HTTPException("409 Head branch was modified. Review and try the merge again.")
            return await Call("merge", n, serve)

    class FakeDB:
        async def execute_and_fetchone(self, sql, args=None):
            assert "invalidated_batches" in sql, sql      # PR.authorized() must not get here: the author is authorized
            return None

    return FakeBatch, FakeBatchClient, FakeGH, FakeDB


def patch_module(mod):
    """Replace the leaves of PR._start_build that touch the file system / shell / build.yaml; the method itself
    (batch = None, set_build_state(None), create_batch(attributes=...), submit, batch = ...) stays the real one."""
    if getattr(mod, "_c30_patched", False):
        return
    mod._c30_patched = True

    async def check_shell(script, *a, **k):
        return None

    async def check_shell_output(script, *a, **k):
        return (b"m" + b"0" * 39 + b"\n", b"")

    class FakeBuildConfiguration:
        def __init__(self, code, text, scope, **k):
            pass

        def namespace(self):
            return "pr-ns"

        def deployed_services(self):
            return []

        def build(self, batch, code, scope):
            return None

    async def add_deployed_services(db, namespace, services, when):
        return None

    mod.check_shell = check_shell
    mod.check_shell_output = check_shell_output
    mod.BuildConfiguration = FakeBuildConfiguration
    mod.add_deployed_services = add_deployed_services
    mod.open = lambda *a, **k: io.StringIO("")


class Impl:
    """World + the real WatchedBranch + the driver."""

    def __init__(self, mod, prs, maxc, page_size=1):
        patch_module(mod)
        self.mod = mod
        self.P = tuple(sorted(prs))
        self.maxc = maxc
        self.w = World(prs, maxc, page_size)
        self.w.merged_log = []
        _FB, FBC, FGH, FDB = make_classes(mod)
        self.gh, self.bc, self.db = FGH(self.w), FBC(self.w), FDB()
        self.wb = mod.WatchedBranch(0, mod.FQBranch(mod.Repo("hail-is", "hail"), BRANCH), deployable=False, mergeable=True,
                                    developers=[])
        self.main = None
        self.pending = None
        self.crash = False
        self.setup = True

    # ---- environment actions ---------------------------------------------------------------------
    def do_setup(self, rv, lb):
        for i, n in enumerate(self.P):
            self.w.rev[n] = rv[i]
            self.w.lab[n] = set(lb[i])
        self.setup = False

    def push_pr(self, n):
        assert self.w.head[n] < self.maxc
        self.w.head[n] += 1

    def push_target(self):
        self.w.T += 1
        self.w.npush += 1

    def review(self, n, r):
        self.w.rev[n] = r

    def label(self, n, l):
        self.w.lab[n] ^= {l}

    def report(self, n, v):
        self.w.ext[n][self.w.head[n]] = v

    def batch_done(self, b, ok):
        fb = self.w.batches[b - 1]
        assert fb.st == "running"
        fb.st = "success" if ok else "failure"

    def notify(self, kind):
        wb = self.wb
        fn = {"github": wb.notify_github_changed, "batch": wb.notify_batch_changed, "all": wb.update}[kind]
        coro = fn(self.db, self.bc, self.gh, False)
        if self.main is None:
            self.main = coro
            self.crash = False
            self._advance(None)
        else:
            try:
                coro.send(None)
            except StopIteration:
                return
            coro.close()
            raise RuntimeError("a second _update did not return immediately while one is running")

    # ---- CI steps ------------------------------------------------------------------------------------
    def _advance(self, value):
        try:
            if isinstance(value, BaseException):
                req = self.main.throw(value)
            else:
                req = self.main.send(value)
        except StopIteration:
            self.main = self.pending = None
            return
        except AssertionError as e:
            tb = e.__traceback__
            while tb.tb_next is not None:
                tb = tb.tb_next
            if tb.tb_frame.f_code.co_name != "is_mergeable":
                raise
            self.main = self.pending = None
            self.crash = True
            return
        if not isinstance(req, Call):
            raise RuntimeError(f"the code awaited something that is not a modelled request: {req!r}")
        self.pending = req

    def serve(self, kind, n=0):
        """Serve the pending request, which must be of this kind; returns the response."""
        p = self.pending
        if p is None or p.kind != kind or p.n != n:
            raise RuntimeError(f"spec expects request {kind}({n}) but the code has {None if p is None else (p.kind, p.n)} pending")
        resp = p.serve()
        self._advance(resp)
        return resp

    # ---- projection ----------------------------------------------------------------------------------
    def project(self):
        mod, wb = self.mod, self.wb
        G = mod.GITHUB_STATUS_CONTEXT

        def pr(n):
            if n not in wb.prs:
                return {"src": 0, "lab": frozenset(), "rev": "none", "lks": {"ci": "absent", "ext": "absent"},
                        "bat": 0, "btgt": 0, "bs": "none", "intd": "pending"}
            p = wb.prs[n]
            assert p.number == n and p.target_branch is wb
            pn, k = cnum(p.source_sha)
            assert pn == n
            lks = dict(p.last_known_github_status)
            extra = set(lks) - {G, CTX_EXT}
            if extra:
                raise RuntimeError(f"unexpected status contexts {extra}")
            b = p.batch
            if b is not None and not hasattr(b, "_fid"):
                raise RuntimeError(f"unmodelled batch object {b!r}")
            return {"src": k, "lab": frozenset(p.labels), "rev": p.review_state or "none",
                    "lks": {"ci": lks[G].value if G in lks else "absent", "ext": lks[CTX_EXT].value if CTX_EXT in lks else "absent"},
                    "bat": 0 if b is None else b.id, "btgt": 0 if b is None else tnum(b.attributes["target_sha"]),
                    "bs": p.build_state or "none", "intd": p.intended_github_status.value}
        pend = self.pending
        ci = {"pc": {"k": "idle", "n": 0} if pend is None else {"k": pend.kind, "n": pend.n},
              "sha": tnum(wb.sha), "prs": tuple(wb.prs.keys()), "pr": tuple(pr(n) for n in self.P),
              "gc": wb.github_changed, "bc": wb.batch_changed, "sc": wb.state_changed, "upd": wb.updating,
              "crash": self.crash, "nrun": wb.n_running_batches,
              "cand": 0 if wb.merge_candidate is None else wb.merge_candidate.number}
        out = self.w.snapshot()
        out["ci"] = ci
        out["setup"] = self.setup
        return out

    def close(self):
        if self.main is not None:
            try:
                self.main.close()     # runs the finally blocks of the abandoned pass; whatever they do is irrelevant
            except BaseException:     # pylint: disable=broad-except
                pass
            self.main = None


def view(st):
    """TLA+ state (tlaval) -> the shape of Impl.project() (history variables, budget and ci.q are spec-only)."""
    def seq(v):
        return tuple(v)

    c = st["ci"]
    ci = {k: c[k] for k in ("sha", "gc", "bc", "sc", "upd", "crash", "nrun", "cand")}
    ci["pc"] = dict(c["pc"])
    ci["prs"] = seq(c["prs"])
    ci["pr"] = tuple({"src": p["src"], "lab": frozenset(p["lab"]), "rev": p["rev"], "lks": dict(p["lks"]), "bat": p["bat"],
                      "btgt": p["btgt"], "bs": p["bs"], "intd": p["intd"]} for p in seq(c["pr"]))
    return {
        "setup": st["setup"], "ghT": st["ghT"], "npush": st["npush"], "ghHead": seq(st["ghHead"]), "ghOpen": seq(st["ghOpen"]),
        "ghRev": seq(st["ghRev"]), "ghLab": tuple(frozenset(x) for x in seq(st["ghLab"])),
        "ghExt": tuple(seq(x) for x in seq(st["ghExt"])), "ghCi": tuple(seq(x) for x in seq(st["ghCi"])),
        "batches": tuple(dict(b) for b in seq(st["batches"])), "ci": ci,
    }


CI_ACTIONS = {"FetchBranch": "branch", "FetchPRs": "pulls", "FetchStatus": "status", "UpdateBatch": "batch",
              "PostStatus": "post", "StartBuild": "build", "Orphans": "orphans", "MergeOk": "merge", "MergeRefused": "merge"}


def apply_action(impl: Impl, name, args):
    """One action of CiMerge on the implementation."""
    if name == "Setup":
        rv, lb = args
        impl.do_setup(tuple(rv), tuple(lb))
    elif name == "PushPR":
        impl.push_pr(args[0])
    elif name == "PushTarget":
        impl.push_target()
    elif name == "Review":
        impl.review(args[0], args[1])
    elif name == "Label":
        impl.label(args[0], args[1])
    elif name == "Report":
        impl.report(args[0], args[1])
    elif name == "BatchDone":
        impl.batch_done(args[0], bool(args[1]))
    elif name == "Notify":
        impl.notify(args[0])
    elif name in CI_ACTIONS:
        # MergeOk / MergeRefused: the fake decides from the request the code really sent; a disagreement with
        # the spec shows up in the compared state (ghOpen, ghT, ci)
        impl.serve(CI_ACTIONS[name], args[0] if args else 0)
    else:
        raise RuntimeError(f"unknown action {name}")
