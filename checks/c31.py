"""C31 - Hail type strings round-trip, and the engine's lexer accepts what the Python front end emits.

Specs (specs/typestr):
  TypeLex.tla      characters = Unicode code points; the three lexical languages as character-consuming machines:
                   printer models (escape_parsable / escape_id / escape_str as they are, and restricted to what the engine
                   understands), the Python reader (type_grammar identifier rules + unescape_parsable), the engine's IRLexer
                   (quotedLiteral, JavaTokenParsers.ident, unescapeString, token loop) on UTF-16 units
  TypeStrings.tla  the transition system (choose a name, print it, both readers consume it character by character) with
                   PyRoundTrip / EngineDenotes / EngineOutcome / Coherent, model-checked by TLC
  TypeTerms.tla    type terms, str() and _parsable_string() forms, hl.dtype and IRParser.type_expr as readers, the input
                   universe (Gen), the self check (Self) and the verdict over what the real code did (Verdict)
Binding B3 (call/return): TLC enumerates names and type terms; checks/_typestr.py runs the real front end (whole hail package)
on them and records the printed / re-parsed strings as code points; TLC judges every record:
  (i)  hl.dtype(str(t)) == t observed on the real code, and the specification's Python reader agrees with the real parser on
       every observed string and on the printer models' strings (a disagreement is a machinery error, not a violation)
  (ii) the engine's lexer (transcribed) accepts the engine-facing form and it denotes the same names / the same type
"""
from __future__ import annotations

import hashlib
import json
import re
import time
from concurrent.futures import ThreadPoolExecutor

from vlib import loader, tlc

from . import _typestr as ts

LEVEL = "model_checking"
MANIFEST = {
    "technique": "TLA+ specification of the three lexical languages of Hail type strings as character-consuming state machines "
                 "(TypeLex/TypeStrings.tla: printer models, Python type-grammar identifier reader + unescape_parsable, the engine's "
                 "IRLexer + unescapeString on UTF-16 units) and of type terms with both printed forms and both readers (TypeTerms.tla); "
                 "TLC model-checks round trip / engine acceptance on the transition system, enumerates names and types, and judges "
                 "every string the real front end printed and re-parsed (call/return conformance, B3)",
    "text": "Exhaustive over all names up to a stated length over a 39-character alphabet with a representative for every "
            "distinction any of the three implementations makes (ASCII letter/digit classes, quotes, backslash, controls with and "
            "without short escapes, DEL, Latin-1, a \\w character that is no Java identifier part, BMP, astral, '$', grammar "
            "punctuation) and over nested type terms to depth 2-3 with such field and reference-genome names; every verdict is "
            "computed by TLC from the TLA+ readers. The engine (Scala) half is a hand transcription and is not executed.",
    "note": "Trusts: TLC + CommunityModules; the transcription of Parser.scala IRLexer / type_expr and StringEscapeUtils.unescapeString "
            "(fingerprinted; the JVM is not available offline); the Java identifier columns of the character table (from the JDK "
            "documentation via Unicode general categories); MiniPEG standing in for parsimonious (the grammar text and visitor are "
            "the repository's). Names are sequences of Unicode scalar values (no lone surrogates). Float tokens, type aliases "
            "(tint32, ...), ?variables and @decorators are outside the modelled part of the languages.",
    "design_ref": "DESIGN.md section 5, C31",
}

SCALA = {
    "hail/hail/src/is/hail/expr/ir/Parser.scala": "IRLexer 57-130, repsepUntil 289-303, struct_field 367-374, type_expr 468-544",
    "hail/hail/utils/src/is/hail/utils/StringEscapeUtils.scala": "unescapeString 132-190",
}
FINGERPRINTS = {}  # filled at the end of the file

TS_ACTIONS = ["Grow", "Freeze", "PrintBare", "PrintOpen", "PrintPlain", "PrintBsBs", "PrintBsDelim", "PrintShort", "PrintX2",
              "PrintU4", "PrintUMin4", "PrintU4Pair", "PrintU8", "PrintClose",
              "PyScanBlank", "PyScanWordStart", "PyScanTickOpen", "PyScanWordChar", "PyScanTickChar", "PyScanTickBs",
              "PyScanPair", "PyScanTrail", "PyScanTickClose", "PyScanOther", "PyScanEnd",
              "PyReplBackslash", "PyReplTick", "PyReplOther", "PyReplEndAct",
              "PyDecPlain", "PyDecBackslash", "PyDecShort", "PyDecHexIntro", "PyDecUnknown", "PyDecHexDigit", "PyDecEndAct",
              "EnStart", "EnBlank", "EnEmpty", "EnOpenQuote", "EnIdentStart", "EnNoToken", "EnIdentPart", "EnIdentEnd",
              "EnQPlain", "EnQBackslash", "EnQEscape", "EnQBadEscape", "EnQClose", "EnQEnd",
              "EnUPlain", "EnUBackslash", "EnUShort", "EnUIntro", "EnUHexDigit", "EnUEndAct", "EnTail"]


def _cfg(alphabet, maxlen, core, corelen, ems, invariants, minlen=0):
    return tlc.mk_cfg(constants={"Alphabet": alphabet, "MinLen": minlen, "MaxLen": maxlen, "Core": core, "CoreLen": corelen,
                                 "Ems": "{" + ", ".join(f'"{e}"' for e in ems) + "}"}, invariants=invariants)


def _mc(ctx, name, cfg, workers, **kw):
    wd = tlc.prepare_dir(ctx.build / "tlc" / name, ["typestr"])
    (wd / "MC.cfg").write_text(cfg)
    return tlc.run(wd, "TypeStrings", "MC.cfg", workers=workers, timeout=3000, heap="4g", **kw)


def _engine_sig(err, ch, bare, emitter):
    """Root-cause signature of an engine-side failure. emitter '' = type strings (escape_parsable / _parsable_string)."""
    suffix = f":{emitter}" if emitter else ""
    if err == "invalid-escape":
        return f"engine:invalid-escape:{chr(ch)}{suffix}"
    if err in ("no-token", "not-one-token") and (bare or ch >= 128):
        return f"engine:bare-not-java-ident{suffix}"
    if err in ("other-name", "other-tokens", "other-type"):
        return f"engine:denotes-other-name{suffix}"
    return f"engine:{err}{suffix}"


def _bind(ctx, h, base, wd, names, terms, ir_names, nproc, level):
    """Printer models for every name (TLC), the real code on every name / type (harness), the verdict (TLC), the violations."""
    t0 = time.time()
    phase = {}
    pj = []
    for i, ch in enumerate(ts.chunks(names, nproc)):
        f = wd / f"probe_names_{i}.ndjson"
        ts.write_ndjson(f, [{"n": n} for n in ch])
        pj.append({"TS_NAMES": f, "TS_PROBES": wd / f"probes_{i}.ndjson", "TS_LEVEL": level})
    ts.parallel_eval(base, "TypeTermsProbes", pj)
    probes = [r for j in pj for r in ts.read_ndjson(j["TS_PROBES"])]
    if [p["n"] for p in probes] != names:
        raise RuntimeError("printer-model step lost or reordered names")

    phase["printer_models_tlc"] = round(time.time() - t0, 1)
    t0 = time.time()
    # ---- (3) the real code ---------------------------------------------------------------------------------------
    ids = ts.id_cases(h, names)
    pcs = ts.probe_cases(h, probes)
    tcs = ts.type_cases(h, terms)
    ircs = ts.ir_cases(h, ir_names)
    model_agreement, nprobe = ts.which_model(h, probes)

    phase["real_code"] = round(time.time() - t0, 1)
    t0 = time.time()
    # ---- (4) TLC judges every record -----------------------------------------------------------------------------
    jobs, index = [], []
    for kind, rows, k in (("ids", ids, nproc), ("probes", pcs, nproc), ("types", tcs, nproc), ("irs", ircs, max(1, nproc // 2))):
        if not rows:
            continue
        for i, ch in enumerate(ts.chunks(rows, k)):
            f = wd / f"cases_{kind}_{i}.ndjson"
            ts.write_ndjson(f, ch)
            jobs.append({"TS_KIND": kind, "TS_CASES": f, "TS_VERDICT": wd / f"verdict_{kind}_{i}.ndjson", "TS_LEVEL": level})
            index.append((kind, ch))
    ts.parallel_eval(base, "TypeTermsVerdict", jobs)
    judged = {"ids": [], "probes": [], "types": [], "irs": []}
    for (kind, ch), job in zip(index, jobs):
        vs = ts.read_ndjson(job["TS_VERDICT"])
        if len(vs) != len(ch):
            raise RuntimeError(f"verdict of {job['TS_CASES']} has {len(vs)} records for {len(ch)} cases")
        judged[kind] += list(zip(ch, vs))
    phase["verdict_tlc"] = round(time.time() - t0, 1)
    ctx.cov["phase_wall_s"] = phase

    # ---- (5) interpretation ----------------------------------------------------------------------------------------
    spec_mismatch = []
    nviol = 0
    emitter_of = {"parsable": "", "id": "escape_id", "str": "escape_str"}
    for c, v in judged["ids"]:
        d = {"name": ts.c2s(c["n"]), "name_codepoints": c["n"], "printer": {"parsable": "escape_parsable", "id": "escape_id", "str": "escape_str"}[c["e"]],
             "printed": ts.c2s(c["p"])}
        if v["spec"]:
            spec_mismatch.append((v["spec"], d))
        if v["py"]:
            nviol += 1
            ctx.violation(f"roundtrip:ident:{v['py']}", dict(d, python_parser_accepts=c["pyok"], python_parser_reads=c["pyname"]))
        if v["en"]:
            nviol += 1
            ctx.violation(_engine_sig(v["en"], v["ch"], v["bare"], emitter_of[c["e"]]), dict(d, engine_lexer=v["en"], at_char=v["ch"]))
    for c, v in judged["probes"]:
        if v["spec"]:
            spec_mismatch.append((v["spec"], {"text": ts.c2s(c["p"]), "model": c["m"], "real_parser_accepts": c["pyok"], "real_parser_reads": c["pyname"]}))
    for c, v in judged["types"]:
        d = {"type": ts.c2s(c["s"]), "engine_form": ts.c2s(c["q"]), "term": c["t"]}
        if v["spec"]:
            spec_mismatch.append((v["spec"], d))
        if v["py"]:
            nviol += 1
            ctx.violation(f"roundtrip:dtype:{v['py']}", d)
        if v["en"]:
            nviol += 1
            ctx.violation(_engine_sig(v["en"], v["ch"], False, ""), dict(d, engine=v["en"], at_char=v["ch"]))
        if v["na"]["en"] and v["na"]["en"] != v["en"]:
            nviol += 1
            ctx.violation(_engine_sig(v["na"]["en"], v["na"]["ch"], False, ""), dict(d, ir=ts.c2s(c["ir"]), engine=v["na"]["en"]))
    for c, v in judged["irs"]:
        if v["spec"]:
            spec_mismatch.append((v["spec"], {"ir": ts.c2s(c["x"])}))
        if v["en"]:
            nviol += 1
            em = "escape_id" if c["tpl"] in ("getfield", "select") else "escape_str"
            ctx.violation(_engine_sig(v["en"], v["ch"], v["ch"] >= 128, em), {"name": ts.c2s(c["n"]), "name_codepoints": c["n"], "ir": ts.c2s(c["x"]), "engine_lexer": v["en"]})
    if spec_mismatch:
        kinds = sorted({k for k, _ in spec_mismatch})
        if nviol == 0:
            raise RuntimeError(f"the specification's reader and the real parser disagree ({kinds}, {len(spec_mismatch)} strings) although "
                               f"the property holds: fix the transcription. First: {spec_mismatch[0]}")
        ctx.note(f"{len(spec_mismatch)} strings on which the real Python parser no longer behaves as TypeLex.tla describes ({kinds}); "
                 f"expected when the reader itself is what is broken. First: {json.dumps(spec_mismatch[0], default=str)[:400]}")

    return {"ids": ids, "pcs": pcs, "tcs": tcs, "ircs": ircs, "judged": judged, "model_agreement": model_agreement, "nprobe": nprobe}


def replay(ctx, rp):
    """One recorded name or type through the same binding (printer models, real code, TLC verdict)."""
    h = ts.load()
    d = rp.get("replay") or rp.get("detail") or {}
    names = [d["name_codepoints"]] if "name_codepoints" in d else []
    terms = [d["term"]] if "term" in d else []
    if not names and not terms:
        return run(ctx)
    base = ctx.build / "tlc_replay"
    wd = tlc.prepare_dir(base / "gen", ["typestr"])
    B = _bind(ctx, h, base, wd, names or [[97]], terms, names, 1, 0)
    n = sum(len(v) for v in B["judged"].values())
    ctx.cov.update(states=2 * n, transitions=n, traces_validated_against_impl=n, evaluations=n, distinct_nontrivial=len(names) + len(terms),
                   exhaustive=False, rule="replay of one recorded input: a call/return pair is a two-state behaviour")
    for kind in ("ids", "types"):
        for c, v in B["judged"][kind][:3]:
            ctx.sample({"printed": ts.c2s(c.get("p") or c.get("s")), "verdict": v})


def run(ctx):
    h = ts.load()
    level = 0 if ctx.quick else 1
    base = ctx.build / "tlc"

    # ---- fingerprints of the transcribed Scala text (information, not a verdict) ---------------------------------
    fp = {}
    for rel in SCALA:
        p = loader.REPO / rel
        got = hashlib.sha256(p.read_bytes()).hexdigest() if p.exists() else "missing"
        fp[rel] = got
        if got != FINGERPRINTS.get(rel):
            ctx.note(f"engine source {rel} differs from the transcribed version (sha256 {got[:16]}..): TypeLex/TypeTerms.tla must be "
                     f"re-read against it ({SCALA[rel]}); the verdict below is relative to the OLD transcription")
    ctx.cov["scala_fingerprints"] = fp

    # ---- (1) the specification on its own: TLC model-checks the transition system (in the background) -----------
    full, core = "FullAlphabet", "CoreAlphabet"
    A = lambda x: "<- " + x
    pool = ThreadPoolExecutor(max_workers=6)
    # vacuity guard (-coverage is expensive: two small universes): every printer model on every single character and on two-character
    # core names; raw text (both readers on arbitrary input, their rejecting paths) up to four characters over {` \ space a}
    cov_cfg = _cfg(A(full), 1, "{96, 92, 32, 97}", 2, ["ue", "id", "str", "fix_id", "fix_str", "fix_parsable", "raw"], ["PrinterIsPrint", "Coherent"])
    raw_cfg = _cfg("{96, 92, 32, 97}", 4, "{}", 0, ["raw"], ["PrinterIsPrint", "Coherent"])
    f_cov = pool.submit(_mc, ctx, "mc_cov", cov_cfg, 3, coverage=True)
    f_raw = pool.submit(_mc, ctx, "mc_raw", raw_cfg, 3, coverage=True)
    maxlen, corelen = (2, 3) if ctx.quick else (2, 4)
    ems = ["ue", "id", "fix_parsable"] if ctx.quick else ["ue", "id", "str", "fix_id", "fix_str", "fix_parsable"]
    all_cfg = _cfg(A(full), maxlen, A(core), corelen, ems,
                   ["PrinterIsPrint", "Coherent", "PyRoundTrip", "EngineDenotesRestricted", "EngineOutcome"])
    f_all = pool.submit(_mc, ctx, "mc_all", all_cfg, 8 if ctx.quick else 12)
    cex_cfg = _cfg(A(full), 1, A(core), 1, ["ue", "id", "str"], ["EngineDenotes"])
    f_cex = pool.submit(_mc, ctx, "mc_cex", cex_cfg, 2)
    f_sim = None
    if not ctx.quick:
        sim_cfg = _cfg(A(full), 9, A(core), 9, ["ue", "id", "str", "fix_id", "fix_str", "fix_parsable"],
                       ["PrinterIsPrint", "Coherent", "PyRoundTrip", "EngineDenotesRestricted", "EngineOutcome"], minlen=5)
        f_sim = pool.submit(_mc, ctx, "mc_sim", sim_cfg, 4, simulate="num=1500", depth=3000, seed=ctx.seed)

    # ---- (2) TLC enumerates the inputs ---------------------------------------------------------------------------
    wd = tlc.prepare_dir(base / "gen", ["typestr"])
    files = {k: wd / v for k, v in {"TS_NAMES": "names.ndjson", "TS_TYPES": "types.ndjson", "TS_META": "meta.json"}.items()}
    env = dict(files, TS_LEVEL=level, TS_NRAND=40 if ctx.quick else 400)
    (wd / "empty.cfg").write_text("")
    t0 = time.time()
    tlc.run(wd, "TypeTermsGen", "empty.cfg", workers=1, env=env, seed=ctx.seed, timeout=3000)
    t_gen = round(time.time() - t0, 1)
    names = [r["n"] for r in ts.read_ndjson(files["TS_NAMES"])]
    terms = [r["t"] for r in ts.read_ndjson(files["TS_TYPES"])]
    meta = json.loads(files["TS_META"].read_text())
    bad_tables = ts.calibrate(meta)
    if bad_tables:
        raise RuntimeError(f"character tables of TypeLex.tla disagree with re / unicodedata: {bad_tables}")
    nproc = 2 if ctx.quick else 8

    # self check of the type level (constant evaluations, side by side with the binding)
    sj = []
    for i, ch in enumerate(ts.chunks(terms, nproc)):
        f = wd / f"self_types_{i}.ndjson"
        ts.write_ndjson(f, [{"t": t} for t in ch])
        sj.append({"TS_TYPES": f, "TS_SELF": wd / f"self_{i}.json", "TS_LEVEL": level})
    f_self = pool.submit(ts.parallel_eval, base, "TypeTermsSelf", sj)

    # ---- (3)-(5) the real code on every input, judged by TLC ---------------------------------------------------------
    ir_names = [n for n in names if len(n) <= 1] + [n for n in names if len(n) > 1][ctx.seed % 7::7 if ctx.quick else 25]
    B = _bind(ctx, h, base, wd, names, terms, ir_names, nproc, level)
    ctx.cov["phase_wall_s"]["gen_tlc"] = t_gen
    t_join = time.time()
    ids, pcs, tcs, ircs, judged = B["ids"], B["pcs"], B["tcs"], B["ircs"], B["judged"]
    model_agreement, nprobe = B["model_agreement"], B["nprobe"]

    # ---- joins + vacuity --------------------------------------------------------------------------------------------
    f_self.result()
    selfs = [json.loads(j["TS_SELF"].read_text()) for j in sj]
    if any(s["bad"] for s in selfs):
        raise RuntimeError(f"TypeTermsSelf: the specification's own round trip fails: {selfs}")
    cov, raw = f_cov.result(), f_raw.result()
    ctx.add_tlc(cov, "TypeStrings: all printer models + raw text, names <= 1 over the alphabet and <= 2 over {` \\ space a}; coverage")
    ctx.add_tlc(raw, "TypeStrings: raw text <= 4 over {` \\ space a} read by both readers (Coherent); coverage")
    for r in (cov, raw):
        if r.violations:
            raise RuntimeError(f"TypeStrings (coverage run): {r.violations[0].name} violated: machines and whole-string functions differ")
    for a, (d, t) in raw.coverage.items():
        od, ot = cov.coverage.get(a, (0, 0))
        cov.coverage[a] = (od + d, ot + t)
    ctx.require_covered(cov, TS_ACTIONS, "TypeStrings coverage runs")
    res = f_all.result()
    ctx.add_tlc(res, f"TypeStrings: printer models {'/'.join(ems)}, all names <= {maxlen} over 39 characters and <= {corelen} over the core 8; "
                     "PyRoundTrip, EngineDenotesRestricted, EngineOutcome, Coherent, PrinterIsPrint")
    if res.violations:
        raise RuntimeError(f"TypeStrings: invariant {res.violations[0].name} violated in the specification itself; trace in {base / 'mc_all'}")
    cex = f_cex.result()
    ctx.add_tlc(cex, "TypeStrings: the unicode_escape / escape_str printer models against EngineDenotes (a counter-example is expected)")
    if cex.violations and cex.violations[0].trace:
        last = cex.violations[0].trace[-1][1] or {}
        ctx.cov["spec_level_counterexample"] = {"printer_model": last.get("em"), "name": list(last.get("name", ())), "printed": list(last.get("text", ())),
                                                "engine": {k: last.get("en", {}).get(k) for k in ("res", "err", "ch")}, "steps": len(cex.violations[0].trace)}
    else:
        ctx.note("the ue/id/str printer models satisfy EngineDenotes on the small universe (no spec-level counter-example)")
    if f_sim is not None:
        sim = f_sim.result()
        m = re.search(r"The number of states generated: (\d+)", sim.out)
        t = re.findall(r"(\d+) traces generated", sim.out)
        sim.generated = int(m.group(1)) if m else 0
        ctx.add_tlc(sim, f"TypeStrings -simulate: names of 5-9 characters, {t[-1] if t else '?'} behaviours (states counted as transitions only)")
        if sim.violations:
            raise RuntimeError(f"TypeStrings simulation: invariant {sim.violations[0].name} violated; see {base / 'mc_sim'}")
    pool.shutdown()
    ctx.cov["phase_wall_s"]["waiting_for_model_checking_after_binding"] = round(time.time() - t_join, 1)

    n_escaped = sum(1 for c in ids if c["e"] == "parsable" and c["p"][:1] == [96])
    n_bare = sum(1 for c in ids if c["e"] == "parsable" and c["p"][:1] != [96])
    n_astral = sum(1 for n in names if any(x >= 65536 for x in n))
    n_nested = sum(1 for t in terms if any(a["args"] or a["names"] for a in t["args"]))
    n_locus = sum(1 for c in tcs if b"locus" in bytes(x for x in c["s"] if x < 128))
    if min(n_escaped, n_bare, n_astral, n_nested, n_locus, len(pcs), len(ircs)) == 0:
        raise RuntimeError(f"vacuous universe: escaped={n_escaped} bare={n_bare} astral={n_astral} nested={n_nested} locus={n_locus}")
    total = len(ids) + len(pcs) + len(tcs) + len(ircs)
    ctx.cov.update(traces_validated_against_impl=total, evaluations=total + sum(s["n"] for s in selfs),
                   distinct_nontrivial=n_escaped + sum(1 for t in terms if t["args"] or t["names"]), exhaustive=True,
                   rule=f"TLC enumerates every name of length <= {meta['full_len']} over the 39-character alphabet and <= {meta['core_len']} over "
                        f"the core 8, plus {env['TS_NRAND']} names of 4-12 characters drawn by TLC (seed {ctx.seed}), and {len(terms)} type terms to depth "
                        f"{2 if ctx.quick else 3} (struct / locus names from a pool of {9 if ctx.quick else 20}); each name goes through the three real printers, the real "
                        "type parser and a locus type, each type through str(), dtype(), ==, _parsable_string() and the IR renderer; every record is "
                        "judged by TLC with the TLA+ readers; non-trivial = names that need escaping + non-primitive types")
    ctx.cov["universe"] = {"names": len(names), "types": len(terms), "id_cases": len(ids), "probe_cases": len(pcs), "type_cases": len(tcs),
                           "ir_cases": len(ircs), "names_escaped_by_escape_parsable": n_escaped, "names_printed_bare": n_bare,
                           "names_with_astral": n_astral, "nested_types": n_nested, "types_with_locus": n_locus,
                           "spec_self_check": {"evaluations": sum(s["n"] for s in selfs),
                                               "types_the_engine_rejects_under_the_unicode_escape_printer_model": sum(s["engine_rejects_ue"] for s in selfs)}}
    ctx.cov["real_printers_follow_model"] = {fn: {m: f"{k}/{nprobe}" for m, k in ms.items()} for fn, ms in model_agreement.items()}
    for c, v in (judged["ids"][3::max(1, len(ids) // 3)][:3] + judged["types"][5::max(1, len(tcs) // 3)][:3]):
        if "s" in c:
            ctx.sample({"type": ts.c2s(c["s"]), "engine_form": ts.c2s(c["q"]), "dtype_roundtrip": c["eq"], "verdict": v})
        else:
            ctx.sample({"name": c["n"], "printer": c["e"], "printed": ts.c2s(c["p"]), "python_reads_back": c["pyname"], "verdict": v})
    ctx.assume("the engine side is the hand transcription of IRLexer / IRParser.type_expr (Parser.scala) and unescapeString "
               "(StringEscapeUtils.scala) in specs/typestr; Scala cannot be executed offline",
               "Character.isJavaIdentifierStart/Part are taken from the JDK documentation (general categories L*, Nl, Sc, Pc / + Nd, Mn, Mc, "
               "identifier-ignorable) evaluated with Python's unicodedata for the 7 non-ASCII representatives; JavaTokenParsers.ident "
               "works on UTF-16 chars, so no astral character is an identifier part",
               "names are sequences of Unicode scalar values (no lone surrogates); equality of names is decided on code points, an "
               "engine-side surrogate pair being the astral character it encodes",
               "parsimonious is replaced by vlib/stubs/parsimonious (MiniPEG); grammar text, visitor and regular expressions are the repository's",
               "reference genomes are real ReferenceGenome objects built with _builtin=True and registered through the real "
               "Backend.add_reference / get_reference on a registry object (no backend)",
               "a call/return pair (name or type in, printed + re-parsed strings out) counts as one validated trace")


FINGERPRINTS.update({
    "hail/hail/src/is/hail/expr/ir/Parser.scala": "2a7c797e4d9b251a5249c3a5953cbbcfdda8912c76573f5440fe1b83734b78fb",
    "hail/hail/utils/src/is/hail/utils/StringEscapeUtils.scala": "3dc2c64cdbfcc9ea2ed48350e339ca261212fcf1e10e2500dac70aaba9937def",
})
