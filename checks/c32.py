"""C32 - every well-typed Python value survives  value -> JSON wire form -> value.

Spec: specs/fn/TypedValues.tla - the grammar of Hail types to depth 2 (thorough tier: named combinations of depth 3),
per type a finite pool of abstract values (boundary integers incl. the int64 extremes, nan / +-inf / -0.0 /
float32-vs-float64 roundings (0.1, 1/3, 2^24+1), "" / ASCII / non-ASCII / escape-laden / astral-around-NUL strings,
calls of ploidy 0-2 phased and unphased, LOCI of a three-contig reference genome (first / last position of every
contig, a contig name with quote, backslash, space, latin-1 and astral characters), intervals of every point type with
all four inclusiveness combinations and missing endpoints, empty and nested containers (struct / tuple dict keys, sets
of arrays), n-d arrays of 0-3 dimensions in C / Fortran / strided layout incl. empty shapes, MISSING at every nullable
position), the typing relation and the type-directed equality.
Binding B3: TLC enumerates the <<type, value>> pairs, the harness builds the real type object and value with the whole
`hail` package imported (the objects `hl.tarray(...)`, `hl.tlocus(rg)`, `hl.Locus`, `hl.Interval` users get; the
reference genome is a real ReferenceGenome registered through the real Backend.add_reference), runs the real
HailType._to_json then HailType._from_json, reports the decoded object as an abstract tree, and TLC judges
decoded = input under the equality of the type.
"""
from __future__ import annotations

import json
from concurrent.futures import ThreadPoolExecutor

from vlib import tlc

from . import _typedvalues as tv

LEVEL = "exploration"
MANIFEST = {
    "technique": "TLA+ specification of the typed-value universe and its type-directed equality (TypedValues.tla); TLC checks the "
                 "equality on the universe (reflexive, separating), enumerates the well-typed <<type, value>> pairs and judges "
                 "every recorded to_json/from_json round trip of the real type classes (call/return conformance, B3)",
    "text": "Bounded exploration of an input-quantified property: all types of the stated grammar to depth 2 (exhaustive core + "
            "seeded sample of the full grammar; thorough tier: named and seeded depth-3 types), locus<rg> of a registered genome as a "
            "leaf type, per type a pool of boundary values with a missing value at every nullable "
            "position; leaves are symbolic names concretised by a table in checks/_typedvalues.py. The specification "
            "contributes the universe, the typing relation and the equality (no transition system): labelled exploration.",
    "note": "Trusts: TLC + CommunityModules Json/IOUtils; the name<->object table and the run-time-class abstraction in "
            "checks/_typedvalues.py (cross-checked by TLC: every input must be WellTyped); the reference genome is built with "
            "_builtin=True (the constructor's backend call is skipped) and held by a registry object that only owns the dict "
            "(look-up / registration are the real Backend methods). NOT covered: numpy scalars / pandas.NA as leaves, "
            "types deeper than 3, loci outside their contig, the extra escaping of the IR-text form (dump_json) that "
            "TableFilterIntervals / readers apply to _convert_to_json output, the engine's own JSON reader (Scala; not runnable).",
    "design_ref": "DESIGN.md section 5, C32",
}




def _convert(T, x, rec):
    H = tv.load()
    try:
        s = T._to_json(x)
    except Exception as e:  # noqa: BLE001
        e.stage = "to_json"
        raise
    try:
        json.loads(s)
    except Exception as e:  # noqa: BLE001
        e.stage = "wire-not-json"
        raise
    try:
        out = T._from_json(s)
    except Exception as e:  # noqa: BLE001
        e.stage = "from_json"
        raise
    rec["w"] = tv.abstract(H, out)


def replay(ctx, rp):
    wd = tlc.prepare_dir(ctx.build / "tlc", ["fn"])
    tv.replay_pair(ctx, wd, rp, wire="json", convert=_convert)


def run(ctx):
    H = tv.load()
    level = 0 if ctx.quick else 1
    wd = tlc.prepare_dir(ctx.build / "tlc", ["fn"])
    env = tv.tlc_env(wd, level=level, with_nd=True)
    (wd / "extra.ndjson").write_text(json.dumps({"t": {"k": "int32"}}) + "\n")

    # ---- (1) the specification on its own: typing of the pools, reflexivity and separation of the equality ------
    # (runs concurrently with the enumeration below: two independent TLC processes; joined before any verdict is used)
    pool = ThreadPoolExecutor(max_workers=1)
    selfcheck = pool.submit(tlc.evaluate, wd, "TypedValuesSelf", env=env, timeout=3000)

    # ---- (2)-(4) Gen, the real code, Verdict -----------------------------------------------------------------
    cases, verdict, stats = tv.roundtrip_check(ctx, wd, wire="json", convert=_convert, level=level, with_nd=True,
                                               nextra=25 if ctx.quick else 400)
    out = selfcheck.result()
    pool.shutdown()
    if '"selfcheck"' not in out:
        raise RuntimeError("TypedValuesSelf did not reach the end of SelfCheck")
    if stats["with_missing"] == 0 or stats["depth2_cases"] == 0 or stats["cases_with_locus"] == 0 or \
            (not ctx.quick and stats["depth3_cases"] == 0):
        raise RuntimeError(f"vacuous universe: {stats}")
    # a locus decoded under a type must carry the genome of the TYPE even when another genome has the same contigs
    Lt = H.types.tlocus(H.rgs["vrg"])
    try:
        back = Lt._from_json(Lt._to_json(H.Locus("MT", 1, reference_genome=H.rgs["vrg"])))
        wrong = back.reference_genome is H.decoy or tv.abstract(H, back)["rg"] != "vrg"
        why = "decoded under another genome"
    except Exception as e:  # noqa: BLE001  the code under test raised on a well-typed value
        wrong, why = True, f"{type(e).__name__}: {e}"[:200]
    if wrong and not any(v["sig"].startswith("json:locus") for v in ctx.viol):
        ctx.violation("json:locus:genome", {"type": "locus<vrg>", "value": "MT:1", "outcome": why})

    # ---- outside the universe, reported only -----------------------------------------------------------------
    T = H.types
    probes = []
    try:
        H.utils.Struct(**{"self": 1})
        probes.append("Struct(**{'self': 1}) constructed")
    except TypeError as e:
        probes.append(f"a struct field called 'self' cannot be held by hail.utils.Struct ({e}); tstruct accepts it")
    import numpy as np

    s = T.tndarray(T.tfloat64, 1)._to_json(np.array([float("nan"), float("inf")]))
    probes.append(f"ndarray<float64> JSON carries bare {s!r} (non-standard tokens; scalars use the strings 'nan'/'inf'); "
                  "Python reads it back, the engine's reader is not checkable here")
    try:
        T.tstr._from_json(T.tstr._to_json("\ud800"))
        probes.append("a lone surrogate survives JSON (it cannot be UTF-8 encoded for the binary form)")
    except Exception as e:  # noqa: BLE001
        probes.append(f"lone surrogate: {type(e).__name__}")
    ctx.note("outside the universe: " + "; ".join(probes))

    n = len(cases)
    ctx.cov.update(evaluations=n, distinct_nontrivial=stats["nontrivial_types"], exhaustive=False,
                   rule=f"TLC enumerates Opt(Vals(t, 2)) for every type t of CoreTypes (level {level}: primitives, all one-level "
                        f"constructions, one construction of every kind around the selected depth-1 types, two 9-field "
                        f"tuple/struct types, n-d arrays of the 5 numeric element types with ndim 0-3, 8 named depth-2 combinations "
                        f"with loci / struct and tuple dict keys / sets of arrays{'' if ctx.quick else ', 9 named depth-3 types and one construction of every kind around each named depth-2 combination'}; "
                        f"locus<vrg> is a leaf type) plus {stats['extra_types']} "
                        f"types drawn with seed {ctx.seed} from the whole depth-2 grammar{'' if ctx.quick else ' (every second one from the depth-3 grammar)'}; each pair is one _to_json/_from_json round "
                        "trip of the real classes judged by TLC (Match); non-trivial = distinct non-primitive types exercised")
    ctx.cov["universe"] = stats
    ctx.cov["spec_selfcheck"] = "TypedValuesSelf: pools well typed; Match reflexive on all pools; separating on Vals(t,1)"
    step = max(1, n // 6)
    for c in cases[::step][:6]:
        ctx.sample({"type": tv.type_str(c["t"]), "value": c["v"], "decoded": c["w"], "error": c["err"]})
    ctx.assume("the whole hail package is imported offline (vlib.loader; parsimonious is served by the MiniPEG stand-in); no backend "
               "exists: the reference genome verif_rg (contigs '1' (249250621), 'c\"\\ \u00e9\U0001f600' (300), 'MT' (1)) is a real "
               "ReferenceGenome built with _builtin=True and registered with the real Backend.add_reference; a second genome with the same "
               "contig names is registered as a decoy; there is no default reference",
               "a locus is equal to another when genome (of the type), contig and position agree; positions range over 1..length "
               "(hail.genetics.Locus itself does not validate them)",
               "the wire form is the string HailType._to_json produces (json.dumps of _convert_to_json_na); the extra escaping of "
               "hail.utils.jsonx.dump_json for the IR text is not part of the round trip",
               "equality: IEEE identity up to NaN payload (-0.0 differs from 0.0), float32 after rounding to float32, sets/dicts "
               "unordered, n-d arrays by dtype, shape and index-wise content (memory order is not part of the value)",
               "set elements / dict keys are given in their hashable forms (frozenlist, frozenset, frozendict, Struct, tuple)")
