"""C36 helper: run the programs of specs/fetypes/FrontEndTypes*.tla on the REAL hail front end.

  * `setup()` imports the whole `hail` package offline (vlib.loader + the MiniPEG stand-in) and installs a
    back end that only has a logger: the front end's rejection paths log through `Env.backend().logger`, every
    other use of the back end means "this program needs the engine" and is reported as such.
  * `Builder.expr(term)` builds an expression program (a JSON term written by TLC) with the public hl.* API,
    `TableImpl` / `MatrixImpl` replay the actions of the table / matrix-table state machines.
  * `tterm(t)` turns a HailType into the type term of the specification.
  * `ir_consistency(root)` recomputes the type of EVERY node of the IR DAG below `root` with the node's own
    `_compute_type` rule from the (already established) types of its children and compares it with the type the
    node carries; by induction over the DAG "all nodes locally consistent" == "the carried type is the type
    implied by the tree".  `deep_typecheck(root)` additionally runs the code's own recompute-from-the-tree
    mode (`compute_type(..., deep_typecheck=True)`, binder/Ref consistency included) with the carried types
    snapshotted and restored (that mode caches types on nodes that are shared between programs).
"""
from __future__ import annotations

import math
from types import SimpleNamespace

from vlib import loader

_HL = None


class NeedsBackend(Exception):
    pass


class _Logger:
    def error(self, *_a, **_k):
        pass

    warning = info = debug = error


class _LogOnlyBackend:
    logger = _Logger()

    def __getattr__(self, name):
        raise NeedsBackend(name)


def setup():
    """-> the hail module (whole package), with a logger-only back end."""
    global _HL
    if _HL is None:
        loader.install()
        import hail as hl
        from hail.utils.java import Env

        Env._hc = SimpleNamespace(_backend=_LogOnlyBackend(), _warn_cols_order=False, _warn_entries_order=False)
        _HL = hl
    return _HL


# ---------------------------------------------------------------------------------------------------
# types  <->  terms
PRIMS = ("int32", "int64", "float32", "float64", "bool", "str")


def tterm(t):
    hl = _HL
    if t is None:
        return {"k": "none"}
    for p in PRIMS:
        if t == getattr(hl, "t" + p):
            return {"k": p}
    if isinstance(t, hl.tarray):
        return {"k": "array", "e": tterm(t.element_type)}
    if isinstance(t, hl.tset):
        return {"k": "set", "e": tterm(t.element_type)}
    if isinstance(t, hl.tdict):
        return {"k": "dict", "key": tterm(t.key_type), "val": tterm(t.value_type)}
    if isinstance(t, hl.ttuple):
        return {"k": "tuple", "ts": [tterm(x) for x in t.types]}
    if isinstance(t, hl.tstruct):
        return {"k": "struct", "ns": list(t.fields), "ts": [tterm(x) for x in t.types]}
    return {"k": "other", "s": str(t)}


def ttype(term):
    hl = _HL
    k = term["k"]
    if k in PRIMS:
        return getattr(hl, "t" + k)
    if k == "array":
        return hl.tarray(ttype(term["e"]))
    if k == "set":
        return hl.tset(ttype(term["e"]))
    if k == "dict":
        return hl.tdict(ttype(term["key"]), ttype(term["val"]))
    if k == "tuple":
        return hl.ttuple(*[ttype(x) for x in term["ts"]])
    if k == "struct":
        return hl.tstruct(**{n: ttype(x) for n, x in zip(term["ns"], term["ts"])})
    raise ValueError(term)


def tstr(term):
    k = term["k"]
    if k in PRIMS or k in ("none", "reject"):
        return k
    if k == "other":
        return term["s"]
    if k in ("array", "set"):
        return f"{k}<{tstr(term['e'])}>"
    if k == "dict":
        return f"dict<{tstr(term['key'])}, {tstr(term['val'])}>"
    if k == "tuple":
        return "tuple(" + ", ".join(tstr(x) for x in term["ts"]) + ")"
    if k == "struct":
        return "struct{" + ", ".join(f"{n}: {tstr(x)}" for n, x in zip(term["ns"], term["ts"])) + "}"
    return str(term)


# ---------------------------------------------------------------------------------------------------
# Python values named by the specification (TLC has no 64-bit integers, floats or sets of mixed things)
INTS = {"one": 1, "two": 2, "zero": 0, "neg": -7, "i32max": 2**31 - 1, "i32min": -(2**31), "i32maxp1": 2**31,
        "i32minm1": -(2**31) - 1, "big": 2**40, "i64max": 2**63 - 1, "i64min": -(2**63), "huge": 2**63,
        "nhuge": -(2**63) - 1}
FLOATS = {"f1.5": 1.5, "f2.5": 2.5, "fzero": 0.0, "nan": math.nan, "inf": math.inf, "fbig": 1e300, "fint": 3.0}
STRS = {"sa": "a", "sb": "b", "sempty": "", "suni": "é"}


def pyval(v):
    """value term -> Python object"""
    from hail.utils import Struct

    c = v["c"]
    if c == "int":
        return INTS[v["x"]]
    if c == "float":
        return FLOATS[v["x"]]
    if c == "bool":
        return v["x"] == "true"
    if c == "str":
        return STRS[v["x"]]
    if c == "none":
        return None
    if c == "list":
        return [pyval(x) for x in v["xs"]]
    if c == "tuple":
        return tuple(pyval(x) for x in v["xs"])
    if c == "set":
        return set(pyval(x) for x in v["xs"])
    if c == "fset":
        return frozenset(pyval(x) for x in v["xs"])
    if c == "dict":
        return {pyval(k): pyval(x) for k, x in zip(v["ks"], v["xs"])}
    if c == "struct":
        return Struct(**{n: pyval(x) for n, x in zip(v["ns"], v["xs"])})
    raise ValueError(v)


# ---------------------------------------------------------------------------------------------------
# IR-side recomputation
def _dag(root):
    from hail.ir.base_ir import BaseIR

    seen, order, stack = set(), [], [(root, False)]
    while stack:
        n, done = stack.pop()
        if done:
            order.append(n)
            continue
        if id(n) in seen:
            continue
        seen.add(id(n))
        stack.append((n, True))
        for c in n.children:
            if isinstance(c, BaseIR) and id(c) not in seen:
                stack.append((c, False))
    return order  # children before parents


def _recompute(n):
    from hail.ir.base_ir import IR

    if isinstance(n, IR):
        return n._compute_type({}, None, False)
    return n._compute_type(False)


# every distinct (function, type arguments, argument types, return type) of the Apply nodes met in the emitted IR:
# judged by TLC against the registered signatures (FrontEndTypes!ApplyWhy); `CONTEXT[0]` names the program being built
APPLY_LOG = {}
CONTEXT = [""]


def _log_apply(n):
    key = (n.function, tuple(str(a.typ) for a in n.args), str(n.return_type), tuple(str(t) for t in n.type_args))
    if key not in APPLY_LOG:
        APPLY_LOG[key] = {"name": n.function, "targs": [tterm(t) for t in n.type_args], "args": [tterm(a.typ) for a in n.args],
                          "ret": tterm(n.return_type), "where": CONTEXT[0]}


def ir_consistency(root, verified=None):
    """-> (number of nodes checked, number without a usable rule, list of disagreements).
    `verified`: optional dict id -> node of nodes already found consistent (IR nodes are immutable once built)."""
    bad, checked, norule = [], 0, 0
    for n in _dag(root):
        if verified is not None and id(n) in verified:
            continue
        if type(n).__name__ in ("Apply", "ApplySpecial"):
            _log_apply(n)
        carried = n._type
        if carried is None:
            norule += 1
            continue
        try:
            computed = _recompute(n)
        except NeedsBackend:
            norule += 1
            continue
        except (IndexError, NotImplementedError):
            norule += 1  # e.g. MakeArray([]) with an explicit type: no rule without an element
            continue
        if computed is None:
            norule += 1
            continue
        checked += 1
        if computed != carried:
            bad.append({"node": type(n).__name__, "carried": str(carried), "computed": str(computed)})
        elif verified is not None:
            verified[id(n)] = n
    return checked, norule, bad


def deep_typecheck(root, env=None, agg_env=None):
    """The code's own whole-tree mode (`compute_type(..., deep_typecheck=True)`: every node's type is recomputed from
    the tree under the binding environment and asserted equal to the type the node carries).
    -> "" or a description of the failing assertion.

    Two adaptations, both about that mode's caching and not about types: (1) the carried types are snapshotted and
    restored, because the IR DAG is shared between programs; (2) an UNTYPED top-level reference (the `row` / `va` /
    `sa` / `g` inside a SelectedTopLevelReference / ProjectedTopLevelReference, declared type None) takes its type
    from the environment of each place it is evaluated in and does not remember it: the same field reference
    `mt.col_idx` is legitimately evaluated under two row / column struct types within one program (before and after
    a keying step), the deep mode would assert that the two environments are equal."""
    import traceback

    from hail.ir import ir as _ir
    from hail.ir.base_ir import IR

    nodes = _dag(root)
    snap = [(n, n._type) for n in nodes]
    untyped = [n for n in nodes if isinstance(n, _ir.TopLevelReference) and n._typ is None]

    def _from_env(node):
        def compute_type(env_, agg_env_, deep):
            assert node.name in env_, f"{node.name} not found in {sorted(env_)}"
            node._type = env_[node.name]
        return compute_type

    for n in untyped:
        n.compute_type = _from_env(n)
    try:
        if isinstance(root, IR):
            root.compute_type(env or {}, agg_env, deep_typecheck=True)
        else:
            root.compute_type(deep_typecheck=True)
        return ""
    except NeedsBackend:
        return ""
    except AssertionError as e:
        tb = traceback.extract_tb(e.__traceback__)
        where = [f"{f.name}@{f.lineno}" for f in tb if f.filename.endswith(("ir.py", "table_ir.py", "matrix_ir.py"))][-2:]
        return f"AssertionError {' <- '.join(reversed(where))} {str(e)[:120]}"
    finally:
        for n in untyped:
            del n.compute_type
        for n, t in snap:
            n._type = t


# ---------------------------------------------------------------------------------------------------
# expression programs
class Rejected(Exception):
    """The front end refused the program with one of its user-facing errors."""


CONV = {"str": "str", "int32": "int32", "int64": "int64", "float32": "float32", "float64": "float64", "bool": "bool",
        "int": "int", "float": "float"}
BINOPS = {
    "+": lambda a, b: a + b, "-": lambda a, b: a - b, "*": lambda a, b: a * b, "/": lambda a, b: a / b,
    "//": lambda a, b: a // b, "%": lambda a, b: a % b, "**": lambda a, b: a ** b,
    "<": lambda a, b: a < b, "<=": lambda a, b: a <= b, ">": lambda a, b: a > b, ">=": lambda a, b: a >= b,
    "==": lambda a, b: a == b, "!=": lambda a, b: a != b, "&": lambda a, b: a & b, "|": lambda a, b: a | b,
}
AGGS = ("sum", "collect", "mean", "max", "min", "collect_as_set", "counter", "any", "all", "count_where", "fraction",
        "product", "stats")


class Builder:
    """Builds expression terms with the public API.  `row` / `glob`: the struct expressions `fld` terms refer to."""

    def __init__(self, row=None, glob=None, col=None, entry=None):
        self.hl = setup()
        self.row = row
        self.glob = glob
        self.col = col
        self.entry = entry
        self.vars = []

    def expr(self, e):
        hl = self.hl
        op = e["op"]
        X = self.expr
        if op == "lit":
            return hl.literal(pyval(e["v"]))
        if op == "litT":
            return hl.literal(pyval(e["v"]), ttype(e["t"]))
        if op == "py":
            return pyval(e["v"])
        if op == "na":
            return hl.missing(ttype(e["t"]))
        if op == "fld":
            return {"row": self.row, "global": self.glob, "col": self.col, "entry": self.entry}[e["src"]][e["n"]]
        if op == "var":
            return self.vars[e["i"] - 1]
        if op in ("bin", "cmp", "log"):
            return BINOPS[e["o"]](X(e["a"]), X(e["b"]))
        if op == "neg":
            return -X(e["a"])
        if op == "not":
            return ~X(e["a"])
        if op == "cond":
            return hl.if_else(X(e["c"]), X(e["a"]), X(e["b"]))
        if op == "coalesce":
            return hl.coalesce(X(e["a"]), X(e["b"]))
        if op == "ormiss":
            return hl.or_missing(X(e["c"]), X(e["a"]))
        if op == "isdef":
            return hl.is_defined(X(e["a"]))
        if op == "conv":
            return getattr(hl, CONV[e["f"]])(X(e["a"]))
        if op == "len":
            return hl.len(X(e["a"]))
        if op == "idx":
            return X(e["a"])[X(e["i"])]
        if op == "slice":
            return X(e["a"])[X(e["i"]):X(e["j"])]
        if op in ("map", "filter", "flatmap", "amap", "any", "all", "group_by"):
            a = X(e["a"])
            return getattr(a, {"amap": "map"}.get(op, op))(lambda v: self._lam([v], e["fb"]))
        if op == "fold":
            a = X(e["a"])
            return a.fold(lambda acc, v: self._lam([acc, v], e["fb"]), X(e["z"]))
        if op == "contains":
            return X(e["a"]).contains(X(e["x"]))
        if op == "get":
            return X(e["a"]).get(X(e["x"]))
        if op == "get2":
            return X(e["a"]).get(X(e["x"]), X(e["d"]))
        if op in ("keys", "values", "key_set", "items"):
            return getattr(X(e["a"]), op)()
        if op == "mkarray":
            return hl.array([X(x) for x in e["xs"]])
        if op == "mkset":
            return hl.set([X(x) for x in e["xs"]])
        if op == "mktuple":
            return hl.tuple([X(x) for x in e["xs"]])
        if op == "mkstruct":
            return hl.struct(**{n: X(x) for n, x in zip(e["ns"], e["xs"])})
        if op == "mkdict":
            return hl.dict({X(k): X(x) for k, x in zip(e["ks"], e["xs"])})
        if op == "toarray":
            return hl.array(X(e["a"]))
        if op == "toset":
            return hl.set(X(e["a"]))
        if op == "todict":
            return hl.dict(X(e["a"]))
        if op == "getf":
            return X(e["a"])[e["n"]]
        if op == "sannot":
            return X(e["a"]).annotate(**{n: X(x) for n, x in zip(e["ns"], e["xs"])})
        if op == "sselect":
            return X(e["a"]).select(*e["ns"])
        if op == "sdrop":
            return X(e["a"]).drop(*e["ns"])
        if op == "asum":
            return hl.sum(X(e["a"]))
        if op == "amax":
            return hl.max(X(e["a"]))
        if op == "amean":
            return hl.mean(X(e["a"]))
        if op == "sorted":
            return hl.sorted(X(e["a"]))
        if op == "append":
            return X(e["a"]).append(X(e["x"]))
        if op == "extend":
            return X(e["a"]).extend(X(e["x"]))
        if op == "setadd":
            return X(e["a"]).add(X(e["x"]))
        if op in ("union", "remove", "difference", "intersection", "is_subset"):
            return getattr(X(e["a"]), op)(X(e["x"]))
        if op == "range":
            return hl.range(X(e["a"]))
        if op == "agg":
            return getattr(hl.agg, e["f"])(X(e["a"]))
        if op == "aggcount":
            return hl.agg.count()
        if op == "aggtake":
            return hl.agg.take(X(e["a"]), 2)
        if op == "aggfilter":
            return hl.agg.filter(X(e["c"]), X(e["a"]))
        if op == "aggexplode":
            return hl.agg.explode(lambda v: self._lam([v], e["fb"]), X(e["a"]))
        if op == "agggroup":
            return hl.agg.group_by(X(e["k"]), X(e["a"]))
        raise ValueError(f"unknown op {op}")

    def _lam(self, vs, body):
        n = len(self.vars)
        self.vars.extend(vs)
        try:
            return self.expr(body)
        finally:
            del self.vars[n:]


def classify_exception(ex):
    """-> (class, text).  'assert': the front end's own consistency assertion between the type it assigns to an
    expression and the type its IR computes (BaseIR.assign_type / compute_type / a node's _compute_type) failed -
    a witness of reported type != IR type; 'backend': the program needs the engine; 'rej': everything else - the
    front end refused the program (its validation uses TypeError, ExpressionException, ..., and bare asserts)."""
    import traceback

    if isinstance(ex, NeedsBackend):
        return "backend", "NeedsBackend " + str(ex)
    tb = traceback.extract_tb(ex.__traceback__)
    last = tb[-1] if tb else None
    if isinstance(ex, AssertionError) and last is not None:
        in_ir = "/hail/ir/" in last.filename.replace("\\", "/")
        if in_ir and last.name in ("assign_type", "compute_type", "_compute_type"):
            return "assert", f"AssertionError in {last.name}@{last.filename.rsplit('/', 1)[-1]}:{last.lineno}: {str(ex)[:200]}"
    return "rej", f"{type(ex).__name__}: {str(ex)[:160]}"


# ---------------------------------------------------------------------------------------------------
# B3 harness: literal cases and expression cases
NONE_T = {"k": "none"}


def base_table():
    """The table whose row / globals the `fld` terms of the specification (BaseRow, BaseGlob) refer to."""
    hl = setup()
    t = hl.utils.range_table(5)
    t = t.annotate_globals(g=hl.int32(3))
    t = t.annotate(x=hl.float64(t.idx) * 0.5, s=hl.str(t.idx), a=hl.range(t.idx), l=hl.int64(t.idx), b=t.idx > 2,
                   st=hl.struct(p=t.idx, q=hl.str(t.idx)))
    return t


def has_agg(e):
    if isinstance(e, dict):
        if str(e.get("op", "")).startswith("agg"):
            return True
        return any(has_agg(v) for v in e.values())
    if isinstance(e, list):
        return any(has_agg(v) for v in e)
    return False


def run_literal(case):
    """case: {kind: lit|litT, v, [t]} -> recorded case"""
    hl = setup()
    from hail.expr.expressions.base_expression import impute_type

    out = dict(case)
    out.update(st="rej", rep=NONE_T, ir=NONE_T, imp=NONE_T, tc=False, enc=False, exc="")
    try:
        v = pyval(case["v"])
    except TypeError as ex:  # unhashable element of a Python set / dict key: not a Python value at all
        out.update(st="nonvalue", exc=str(ex)[:80])
        return out
    if case["kind"] == "lit":
        try:
            out["imp"] = tterm(impute_type(v))
        except Exception as ex:  # noqa: BLE001
            if isinstance(ex, AssertionError):
                out["exc"] = "impute:" + classify_exception(ex)[1]
    try:
        x = hl.literal(v) if case["kind"] == "lit" else hl.literal(v, ttype(case["t"]))
    except BaseException as ex:  # noqa: BLE001
        st, msg = classify_exception(ex)
        out.update(st=st, exc=msg)
        return out
    out.update(st="ok", rep=tterm(x.dtype), ir=tterm(x._ir.typ))
    try:
        # the type's own one-level checks, over the whole value (None stops the descent, as in hl.literal)
        def check(t, obj):
            if obj is None:
                return False
            t._typecheck_one_level(obj)
            return True

        x.dtype._traverse(v, check)
        out["tc"] = True
    except Exception as ex:  # noqa: BLE001
        out["exc"] = "typecheck: " + f"{type(ex).__name__}: {str(ex)[:120]}"
    try:
        # the value travels inside the IR: rendering the literal encodes it with the type's own encoder
        from hail.ir.renderer import CSERenderer

        CSERenderer()(x._ir)
        if v is not None:
            x.dtype._to_encoding(v)
            x.dtype._to_json(v)
        out["enc"] = True
    except Exception as ex:  # noqa: BLE001
        out["exc"] = "encode: " + f"{type(ex).__name__}: {str(ex)[:120]}"
    return out


class ExprHarness:
    def __init__(self):
        self.hl = setup()
        self.t0 = base_table()
        self.builder = Builder(self.t0.row, self.t0.globals)
        self.nodes = 0
        self.norule = 0

    def run(self, case, deep=True):
        out = dict(case)
        out.update(st="rej", rep=NONE_T, ir=NONE_T, loc=0, deep="", exc="", root="")
        e = case["e"]
        CONTEXT[0] = show(e)
        try:
            x = self.builder.expr(e)
            if case["kind"] == "agg":
                x = self.t0.aggregate(x, _localize=False)
            if not isinstance(x, self.hl.expr.Expression):
                raise TypeError("not an expression")
        except BaseException as ex:  # noqa: BLE001
            st, msg = classify_exception(ex)
            out.update(st=st, exc=msg)
            return out
        out.update(st="ok", rep=tterm(x.dtype), ir=tterm(x._ir.typ), root=type(x._ir).__name__)
        checked, norule, bad = ir_consistency(x._ir)
        self.nodes += checked
        self.norule += norule
        out["loc"] = len(bad)
        if bad:
            out["exc"] = "ir-node: " + str(bad[:2])
        if deep:
            try:
                if x._ir.free_vars or x._ir.free_agg_vars or x._ir.free_scan_vars:
                    # free row / global references: check the table that evaluates the expression
                    tir = self.t0.select_globals(__r=x)._tir if not x._indices.axes else self.t0.select(__r=x)._tir
                    out["deep"] = deep_typecheck(tir)
                else:
                    out["deep"] = deep_typecheck(x._ir)
            except NeedsBackend:
                pass
            except BaseException as ex:  # noqa: BLE001
                st, msg = classify_exception(ex)
                if st == "assert":
                    out["deep"] = msg
        return out


# ---------------------------------------------------------------------------------------------------
# pretty printing of terms (evidence, violation details)
def showv(v):
    c = v["c"]
    if c in ("int", "float", "bool", "str"):
        return repr(pyval(v)) if c != "int" else {"i32max": "2**31-1", "i32min": "-2**31", "i32maxp1": "2**31", "i32minm1": "-2**31-1",
                                                   "big": "2**40", "i64max": "2**63-1", "i64min": "-2**63", "huge": "2**63",
                                                   "nhuge": "-2**63-1"}.get(v["x"], str(INTS[v["x"]]))
    if c == "none":
        return "None"
    if c == "dict":
        return "{" + ", ".join(showv(k) + ": " + showv(x) for k, x in zip(v["ks"], v["xs"])) + "}"
    if c == "struct":
        return "Struct(" + ", ".join(n + "=" + showv(x) for n, x in zip(v["ns"], v["xs"])) + ")"
    if c in ("set", "fset"):
        return "{" + ", ".join(showv(x) for x in v["xs"]) + "}" if v["xs"] else "set()"
    br = {"list": "[]", "tuple": "()"}[c]
    return br[0] + ", ".join(showv(x) for x in v["xs"]) + ("," if c == "tuple" and len(v["xs"]) == 1 else "") + br[1]


def show(e):
    if isinstance(e, dict):
        if "op" in e:
            op = e["op"]
            if op == "lit":
                return "lit(" + showv(e["v"]) + ")"
            if op == "litT":
                return "lit(" + showv(e["v"]) + ", " + tstr(e["t"]) + ")"
            if op == "py":
                return showv(e["v"])
            if op == "na":
                return "missing(" + tstr(e["t"]) + ")"
            if op == "fld":
                return e["src"] + "." + e["n"]
            if op == "var":
                return "v%d" % e["i"]
            if op in ("bin", "cmp", "log"):
                return "(" + show(e["a"]) + " " + e["o"] + " " + show(e["b"]) + ")"
            rest = [(k, e[k]) for k in sorted(e) if k != "op"]
            return op + "(" + ", ".join((show(x) if k in ("a", "b", "x", "c") else f"{k}={show(x)}") for k, x in rest) + ")"
        if "k" in e:
            return tstr(e)
        return json_dumps(e)
    if isinstance(e, list):
        return "[" + ", ".join(show(x) for x in e) + "]"
    return str(e)


def json_dumps(x):
    import json

    return json.dumps(x)


def mismatch(v, t):
    """Where a value fails a type (names the root cause in a signature; the verdict itself is TLC's Satisfies)."""
    k = t.get("k")
    c = v["c"]
    falsy = not pyval(v) if c not in ("none",) else False
    if c == "none":
        return "ok"
    if k in ("int32", "int64"):
        if c == "bool":
            return "ok"
        if c != "int":
            return f"{c}-as-{k}"
        x = INTS[v["x"]]
        lim = 31 if k == "int32" else 63
        return "ok" if -(2**lim) <= x < 2**lim else f"int-out-of-range-{k}"
    if k in ("float32", "float64"):
        return "ok" if c in ("float", "int", "bool") else f"{c}-as-{k}"
    if k == "bool":
        return "ok" if c == "bool" else f"{c}-as-bool"
    if k == "str":
        return "ok" if c == "str" else ("falsy-value-as-str" if falsy else f"{c}-as-str")
    if k == "array":
        if c in ("list", "tuple"):
            for x in v["xs"]:
                m = mismatch(x, t["e"])
                if m != "ok":
                    return m
            return "ok"
        if c == "str":
            return "ok" if v["x"] == "sempty" or t["e"]["k"] == "str" else "str-as-array"
        return f"{c}-as-array"
    if k == "set":
        if c not in ("set", "fset"):
            return f"{c}-as-set"
        for x in v["xs"]:
            m = mismatch(x, t["e"])
            if m != "ok":
                return m
        return "ok"
    if k == "dict":
        if c == "dict":
            for a, x in zip(v["ks"], v["xs"]):
                for m in (mismatch(a, t["key"]), mismatch(x, t["val"])):
                    if m != "ok":
                        return m
            return "ok"
        if c == "struct":
            if v["xs"] and t["key"]["k"] != "str":
                return "struct-as-dict"
            for x in v["xs"]:
                m = mismatch(x, t["val"])
                if m != "ok":
                    return m
            return "ok"
        return f"{c}-as-dict"
    if k == "tuple":
        if c != "tuple":
            return "falsy-value-as-tuple" if falsy else f"{c}-as-tuple"
        if len(v["xs"]) != len(t["ts"]):
            return "falsy-value-as-tuple" if falsy else "tuple-length"
        for x, u in zip(v["xs"], t["ts"]):
            m = mismatch(x, u)
            if m != "ok":
                return m
        return "ok"
    if k == "struct":
        if c == "struct":
            items = list(zip(v["ns"], v["xs"]))
        elif c == "dict":
            if any(a["c"] != "str" for a in v["ks"]):
                return "dict-as-struct"
            items = [(STRS[a["x"]], x) for a, x in zip(v["ks"], v["xs"])]
        else:
            return "falsy-value-as-struct" if falsy else f"{c}-as-struct"
        for n, x in items:
            if n not in t["ns"]:
                return "struct-extra-field"
            m = mismatch(x, t["ts"][t["ns"].index(n)])
            if m != "ok":
                return m
        return "ok"
    return f"{c}-as-{k}"


# ---------------------------------------------------------------------------------------------------
# B1: the Table / MatrixTable machines on real objects
def other_tables():
    hl = setup()
    t1 = hl.utils.range_table(3)
    t1 = t1.annotate(y=t1.idx * 2, a=hl.str(t1.idx)).annotate_globals(gg=hl.int32(1))
    t2 = hl.utils.range_table(3)
    t2 = t2.key_by(ks=hl.str(t2.idx)).annotate(v=hl.float64(1.5))
    return {"T1": t1, "T2": t2}


def table_type_view(g, row, key):
    return {"g": tstr(tterm(g)), "row": tstr(tterm(row)), "key": tuple(key)}


class TableImpl:
    """One real Table, driven by the action labels of FrontEndTables.tla."""

    def __init__(self, templates, others, verified):
        self.hl = setup()
        self.tpl = templates
        self.others = others
        self.verified = verified
        self.t = self.hl.utils.range_table(5)
        self.nodes = 0
        self.bad_nodes = []

    def _x(self, name, kind="tpl", row=True):
        t = self.t
        return Builder(t.row if row else None, t.globals).expr(self.tpl[kind][name])

    def apply(self, name, args):
        hl, t = self.hl, self.t
        if name == "Annotate":
            nm, x = args
            t = t.annotate(**{nm: self._x(x)})
        elif name == "Annotate2":
            nm, x, nm2 = args
            t = t.annotate(**{nm: self._x(x), nm2: hl.literal("a")})
        elif name == "Select":
            names, nm, x = args
            t = t.select(*names, **({nm: self._x(x)} if x else {}))
        elif name == "KeyBy":
            t = t.key_by(*args[0])
        elif name == "KeyByExpr":
            names, nm, x = args
            t = t.key_by(*names, **{nm: self._x(x)})
        elif name == "Drop":
            t = t.drop(*sorted(args[0]))
        elif name == "Rename":
            t = t.rename({args[0]: args[1]})
        elif name == "Transmute":
            nm, x = args
            t = t.transmute(**{nm: self._x(x)})
        elif name == "Explode":
            t = t.explode(args[0])
        elif name == "GroupAgg":
            kn, kx, an, ax = args
            t = t.group_by(**{kn: self._x(kx)}).aggregate(**{an: self._x(ax, "agg")})
        elif name == "GroupAggField":
            f, an, ax = args
            t = t.group_by(f).aggregate(**{an: self._x(ax, "agg")})
        elif name == "Join":
            t = t.join(self.others[args[0]], args[1])
        elif name == "AnnotateIndex":
            nm, w = args
            t = t.annotate(**{nm: self.others[w][t.key]})
        elif name == "AddIndex":
            t = t.add_index(args[0])
        elif name == "AnnotateGlobals":
            nm, x = args
            t = t.annotate_globals(**{nm: self._x(x, row=False)})
        elif name == "SelectGlobals":
            t = t.select_globals(*args[0])
        elif name == "OrderBy":
            t = t.order_by(args[0])
        elif name == "Filter":
            t = t.filter(self._x(args[0]))
        elif name == "SameType":
            t = {"distinct": lambda: t.distinct(), "head": lambda: t.head(2), "union": lambda: t.union(t)}[args[0]]()
        else:
            raise ValueError(f"unknown action {name}")
        self.t = t

    def project(self, derived=True):
        t = self.t
        checked, _norule, bad = ir_consistency(t._tir, self.verified)
        self.nodes += checked
        self.bad_nodes = bad
        typ = t._tir.typ
        return {"fe": table_type_view(t.globals.dtype, t.row.dtype, list(t.key)),
                "ir": table_type_view(typ.global_type, typ.row_type, typ.row_key)}

    def deep(self):
        return deep_typecheck(self.t._tir)


def spec_table_view(st):
    """TLA+ state (python form) -> the same shape as TableImpl.project()"""
    def one(t):
        return {"g": tstr(t["g"]), "row": tstr(t["row"]), "key": tuple(t["key"])}

    return {"fe": one(st["fe"]), "ir": one(st["ir"])}


def matrix_type_view(g, row, col, entry, rk, ck):
    return {"g": tstr(tterm(g)), "row": tstr(tterm(row)), "col": tstr(tterm(col)), "entry": tstr(tterm(entry)),
            "rk": tuple(rk), "ck": tuple(ck)}


class MatrixImpl:
    """One real MatrixTable, driven by the action labels of FrontEndMatrix.tla."""

    def __init__(self, templates, others, verified):
        self.hl = setup()
        self.tpl = templates
        self.others = others
        self.verified = verified
        self.mt = self.hl.utils.range_matrix_table(3, 4)
        self.nodes = 0
        self.bad_nodes = []

    def _x(self, name, kind="tpl"):
        mt = self.mt
        return Builder(mt.row, mt.globals, mt.col, mt.entry).expr(self.tpl[kind][name])

    def apply(self, name, args):
        hl, mt = self.hl, self.mt
        if name == "AnnotateRows":
            mt = mt.annotate_rows(**{args[0]: self._x(args[1])})
        elif name == "AnnotateRowsAgg":
            mt = mt.annotate_rows(**{args[0]: self._x(args[1], "agg")})
        elif name == "AnnotateCols":
            mt = mt.annotate_cols(**{args[0]: self._x(args[1])})
        elif name == "AnnotateColsAgg":
            mt = mt.annotate_cols(**{args[0]: self._x(args[1], "agg")})
        elif name == "AnnotateEntries":
            mt = mt.annotate_entries(**{args[0]: self._x(args[1])})
        elif name == "AnnotateGlobals":
            mt = mt.annotate_globals(**{args[0]: self._x(args[1])})
        elif name == "SelectRows":
            mt = mt.select_rows(*args[0])
        elif name == "SelectCols":
            mt = mt.select_cols(*args[0])
        elif name == "SelectEntries":
            names, nm, x = args
            mt = mt.select_entries(*names, **({nm: self._x(x)} if x else {}))
        elif name == "KeyRowsBy":
            mt = mt.key_rows_by(*args[0])
        elif name == "KeyRowsByExpr":
            mt = mt.key_rows_by(**{args[0]: self._x(args[1])})
        elif name == "KeyColsBy":
            mt = mt.key_cols_by(*args[0])
        elif name == "KeyColsByExpr":
            mt = mt.key_cols_by(**{args[0]: self._x(args[1])})
        elif name == "Drop":
            mt = mt.drop(*sorted(args[0]))
        elif name == "Rename":
            mt = mt.rename({args[0]: args[1]})
        elif name == "Filter":
            if args[0] == "rows":
                mt = mt.filter_rows(hl.len(mt.row) > 0)
            elif args[0] == "cols":
                mt = mt.filter_cols(hl.len(mt.col) > 0)
            else:
                mt = mt.filter_entries(hl.is_defined(mt.entry))
        elif name == "TransmuteEntries":
            mt = mt.transmute_entries(**{args[0]: self._x(args[1])})
        elif name == "TransmuteRows":
            mt = mt.transmute_rows(**{args[0]: self._x(args[1])})
        elif name == "ExplodeRows":
            mt = mt.explode_rows(args[0])
        elif name == "ExplodeCols":
            mt = mt.explode_cols(args[0])
        elif name == "GroupRowsAgg":
            kn, kx, an, ax = args
            mt = mt.group_rows_by(**{kn: self._x(kx)}).aggregate(**{an: self._x(ax, "agg")})
        elif name == "GroupColsAgg":
            kn, kx, an, ax = args
            mt = mt.group_cols_by(**{kn: self._x(kx)}).aggregate(**{an: self._x(ax, "agg")})
        elif name == "AnnotateRowsIndex":
            mt = mt.annotate_rows(**{args[0]: self.others[args[1]][mt.row_key]})
        elif name == "AnnotateColsIndex":
            mt = mt.annotate_cols(**{args[0]: self.others[args[1]][mt.col_key]})
        elif name == "AddRowIndex":
            mt = mt.add_row_index(args[0])
        elif name == "AddColIndex":
            mt = mt.add_col_index(args[0])
        else:
            raise ValueError(f"unknown action {name}")
        self.mt = mt

    def project(self, derived=True):
        mt = self.mt
        checked, _norule, bad = ir_consistency(mt._mir, self.verified)
        self.nodes += checked
        self.bad_nodes = list(bad)
        typ = mt._mir.typ
        fe = matrix_type_view(mt.globals.dtype, mt.row.dtype, mt.col.dtype, mt.entry.dtype, list(mt.row_key), list(mt.col_key))
        ir = matrix_type_view(typ.global_type, typ.row_type, typ.col_type, typ.entry_type, typ.row_key, typ.col_key)
        pf, pi = {}, {}
        if not derived:
            return {"fe": fe, "ir": ir}
        for nm, f in (("rows", lambda: mt.rows()), ("cols", lambda: mt.cols()), ("entries", lambda: mt.entries()),
                      ("localized", lambda: mt.localize_entries("ent", "cols"))):
            t = f()
            c2, _n2, b2 = ir_consistency(t._tir, self.verified)
            self.nodes += c2
            self.bad_nodes += b2
            pf[nm] = table_type_view(t.globals.dtype, t.row.dtype, list(t.key))
            tt = t._tir.typ
            pi[nm] = table_type_view(tt.global_type, tt.row_type, tt.row_key)
        return {"fe": fe, "ir": ir, "proj": {"fe": pf, "ir": pi}}

    def deep(self):
        return deep_typecheck(self.mt._mir)


def spec_matrix_view(st):
    def one(m):
        return {"g": tstr(m["g"]), "row": tstr(m["row"]), "col": tstr(m["col"]), "entry": tstr(m["entry"]),
                "rk": tuple(m["rk"]), "ck": tuple(m["ck"])}

    def tab(t):
        return {"g": tstr(t["g"]), "row": tstr(t["row"]), "key": tuple(t["key"])}

    return {"fe": one(st["fe"]), "ir": one(st["ir"]),
            "proj": {s: {k: tab(v) for k, v in st["proj"][s].items()} for s in ("fe", "ir")}}
