"""C03 - billed attempt time is monotone and bounded by the attempt.

Spec specs/attempt/AttemptClock.tla: one `attempts` row under the trigger attempts_before_update, exposed to every UPDATE
shape the service issues.  TLC checks the four clauses of the property on ALL sequences (complete state graph); B1: every
edge (old row, UPDATE, new row) of that graph is executed as a real UPDATE against the trigger text from
/repo/batch/sql (latest definition in build.yaml order) by MiniMySQL and the resulting row compared.
"""
from __future__ import annotations

import random

from vlib import tlaval, tlc

LEVEL = "model_checking"
MANIFEST = {
    "technique": "TLA+ spec AttemptClock (trigger attempts_before_update transcribed) checked exhaustively by TLC; complete state-graph replay of every (row, UPDATE) pair on the real trigger SQL executed by the MiniMySQL interpreter",
    "text": "All sequences of start/creating, complete, heartbeat, unschedule and deactivation updates over Times=0..2 (quick) / 0..4 (thorough), any order and multiplicity, are explored by TLC; each of the graph's edges is replayed on the real trigger and must produce exactly the specified row, so within the bounds the trigger and the specification have the same transition relation and the four clauses hold for the code.",
    "note": "Trusts TLC, MiniMySQL's rendering of BEFORE UPDATE triggers/NULL comparisons, and that the listed UPDATE shapes are the ones the code issues (C02's BatchDB replay exercises the real procedures).",
    "design_ref": "DESIGN.md section 5, C03",
}

REASONS = ["completed", "cancelled", "deactivated", "activation_timeout", "error"]
INVS = ["TypeOK", "C03_Bounded"]
PROPS = ["C03_Monotone", "C03_StartEarlier", "C03_EndFrozen"]


def run(ctx):
    from vlib.batchenv import BatchWorld

    times = [0, 1, 2] if ctx.quick else [0, 1, 2, 3, 4]
    wd = tlc.prepare_dir(ctx.build / "tlc", ["attempt"])
    consts = {"Times": "{" + ", ".join(map(str, times)) + "}", "Reasons": "{" + ", ".join(f'"{r}"' for r in REASONS) + "}"}
    (wd / "MC.cfg").write_text(tlc.mk_cfg(constants=consts, invariants=INVS, properties=PROPS))
    res = tlc.run(wd, "AttemptClock", "MC.cfg", workers=min(ctx.workers, 4), dump="g")
    ctx.add_tlc(res, f"exhaustive AttemptClock, Times={times}")
    for v in res.violations:
        ctx.violation(f"spec:{v.name}", {"trace": [(h, tlaval.to_py(s)) for h, s in v.trace]})
    if res.violations:
        return
    g = tlc.parse_dot(wd / "g.dot")
    acts = {tlc.parse_action_label(l)[0] for _s, l, _d in g.edges}
    if acts != {"StartLike", "Complete", "Heartbeat", "EndLike", "ErrorFresh"}:
        raise RuntimeError(f"vacuous: actions in graph {acts}")

    # the real trigger: a batch with one job and one attempt, created through the real procedures
    w = BatchWorld(seed=ctx.seed)
    b = w.create_batch("tok").value
    u, _, _ = w.create_update(b, "t1", 1, 0).value
    w.create_jobs(b, u, [{"job_id": 1, "absolute_job_group_id": 0, "process": {"type": "docker", "image": "i", "command": ["true"]},
                          "resources": {"cpu": "1", "memory": "standard", "storage": "1Gi"}}])
    w.commit(b, u)
    w.add_instance("i1")
    w.activate_instance("i1")
    r = w.schedule_job(b, 1, "a1", "i1")
    assert r.kind == "ok" and r.value["rc"] == 0, r
    row = w.eng.table("attempts").rows[0]
    trig = [t.source_file for t in w.eng.triggers.get(("attempts", "before", "update"), [])]
    if not trig:
        raise RuntimeError("no BEFORE UPDATE trigger on attempts was loaded from /repo/batch/sql")
    sess = w.eng.connect()
    key = (b, 1, "a1")
    n = lambda v: None if v == -1 else v  # noqa: E731
    sql = {
        "StartLike": "UPDATE attempts SET start_time = %s, rollup_time = %s WHERE batch_id = %s AND job_id = %s AND attempt_id = %s;",
        "Complete": "UPDATE attempts SET start_time = %s, rollup_time = %s, end_time = %s, reason = %s WHERE batch_id = %s AND job_id = %s AND attempt_id = %s;",
        "Heartbeat": "UPDATE attempts SET rollup_time = %s WHERE (batch_id = %s AND job_id = %s AND attempt_id = %s);",
        "EndLike": "UPDATE attempts SET rollup_time = %s, end_time = %s, reason = %s WHERE batch_id = %s AND job_id = %s AND attempt_id = %s;",
    }
    edges = sorted(set(g.edges))
    rng = random.Random(ctx.seed)
    bad = 0
    for (src, lab, dst) in edges:
        s, d = g.nodes[src], g.nodes[dst]
        row.update(start_time=n(s["st"]), rollup_time=n(s["ru"]), end_time=n(s["en"]), reason=None if s["rs"] == "NULL" else s["rs"])
        name, args = tlc.parse_action_label(lab)
        if name == "StartLike":
            sess.execute(sql[name], (args[0], args[0]) + key)
        elif name == "Complete":
            sess.execute(sql[name], (n(args[0]), n(args[1]), n(args[1]), args[2]) + key)
        elif name == "ErrorFresh":
            sess.execute(sql["Complete"], (None, None, None, "error") + key)
        elif name == "Heartbeat":
            sess.execute(sql[name], (args[0],) + key)
        else:
            sess.execute(sql[name], (args[0], args[0], args[1]) + key)
        sess.commit()
        got = dict(st=-1 if row["start_time"] is None else row["start_time"], ru=-1 if row["rollup_time"] is None else row["rollup_time"],
                   en=-1 if row["end_time"] is None else row["end_time"], rs=row["reason"] or "NULL")
        exp = dict(st=d["st"], ru=d["ru"], en=d["en"], rs=d["rs"])
        if got != exp:
            bad += 1
            if bad <= 5:
                fields = ",".join(k for k in exp if exp[k] != got[k])
                ctx.violation(f"replay:{name}:{fields}", {"old_row": tlaval.to_py({k: s[k] for k in ("st", "ru", "en", "rs")}), "update": lab,
                                                         "spec_row": exp, "trigger_row": got, "trigger_source": trig})
    w.close()
    k = rng.randrange(len(edges))
    ctx.sample({"old_row": tlaval.to_py({x: g.nodes[edges[k][0]][x] for x in ("st", "ru", "en", "rs")}), "update": edges[k][1],
                "new_row": tlaval.to_py({x: g.nodes[edges[k][2]][x] for x in ("st", "ru", "en", "rs")})})
    ctx.cov.update(traces_validated_against_impl=len(edges), evaluations=len(edges), distinct_nontrivial=len(edges), exhaustive=True,
                   rule=f"complete state graph of AttemptClock over Times={times}; every edge = one real UPDATE through the trigger from {trig}; "
                        "distinct_nontrivial = distinct (old row, update) pairs executed")
    ctx.assume("MiniMySQL executes BEFORE UPDATE triggers with MySQL semantics (NEW writable, NULL comparisons three-valued)",
               "argument shapes: worker completions carry an end time; mark_job_errored uses a fresh attempt id")
