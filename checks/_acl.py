"""C14 harness: the batch front end's real route table driven request by request.

World = vlib.batchenv.BatchWorld (real SQL on MiniMySQL, real gear.database, real front-end module).  Every request goes
through the REAL decorated handler found in fe.routes; only the authenticator's `_fetch_userdata` is replaced by a
table of callers, and the inert aiohttp_session / aiohttp_jinja2 stubs are given a dict session and a renderer that
captures the template context (so the listing pages' contents can be observed).
"""
from __future__ import annotations

import asyncio
import datetime
import json
import random
import re
import sys
import urllib.parse
import zlib

from vlib import loader

loader.install()

from aiohttp import web  # noqa: E402

from vlib.batchenv import BatchWorld  # noqa: E402
from vlib.minimysql.parser import UnsupportedSQL  # noqa: E402

# caller -> userdata the fake authenticator returns (None: no credentials)
CALLERS = {
    "u1": dict(state="active", dev=0), "u2": dict(state="active", dev=0), "u3": dict(state="active", dev=0),
    "dev": dict(state="active", dev=1), "auth": dict(state="active", dev=0),
    "ci": dict(state="active", dev=0),          # a service account other than auth (is_service_account, no privileges)
    "inactive": dict(state="inactive", dev=0), "idev": dict(state="inactive", dev=1), "anon": None,
}

SERVICE_ACCOUNTS = ("auth", "ci")

# MySQL built-ins the engine lacks, as SQL functions (names used here contain no quotes / wildcards)
PRELUDE = """
DELIMITER $$
DROP FUNCTION IF EXISTS json_quote $$
CREATE FUNCTION json_quote(s VARCHAR(200)) RETURNS VARCHAR(210) DETERMINISTIC
BEGIN
  RETURN CONCAT('"', s, '"');
END $$
DROP FUNCTION IF EXISTS json_contains $$
CREATE FUNCTION json_contains(doc TEXT, cand VARCHAR(210)) RETURNS INT DETERMINISTIC
BEGIN
  RETURN doc LIKE CONCAT('%', cand, '%');
END $$
DELIMITER ;
"""

PUBLIC = [r"^/healthcheck$", r"^/api/v\w+/version$", r"^/api/v\w+/cloud$", r"^/swagger$", r"^/openapi\.yaml$", r"^/tos$",
          r"^/privacy$", r"^/batch/static/", r"^/common_static(/|$)"]
API = r"^/api/v\w+"
OWNER = [("POST", API + r"/batches/\{batch_id\}/(updates/\{update_id\}/)?(jobs|job-groups)/create$"),
         ("POST", API + r"/batches/\{batch_id\}/update-fast$"), ("POST", API + r"/batches/\{batch_id\}/updates/create$"),
         ("PATCH", API + r"/batches/\{batch_id\}/close$"), ("PATCH", API + r"/batches/\{batch_id\}/updates/\{update_id\}/commit$")]


def classify(method: str, path: str) -> str:
    """Route class of the TLA+ specification, by method and path pattern only (never by looking at decorators)."""
    if method in ("GET", "HEAD") and any(re.search(p, path) for p in PUBLIC):
        return "public"
    if any(method == m and re.search(p, path) for m, p in OWNER):
        return "batch_owner"
    if "{batch_id}" in path:
        return "batch_member"
    if method == "POST" and re.search(API + r"/batches/create(-fast)?$", path):
        return "create"
    if "billing_projects" in path or "billing_limits" in path or path == "/billing":
        if method == "GET":
            if re.search(API + r"/billing_projects/\{billing_project\}$", path):
                return "bp_read"
            if path == "/billing_projects":      # the developers' administration page
                return "bp_admin"
            if re.search(API + r"/billing_projects$", path) or path in ("/billing_limits", "/billing"):
                return "list_billing"
            return "bp_read" if "{billing_project}" in path else "list_billing"
        return "bp_admin"
    if method == "GET" and (re.search(API + r"/batches(/completed)?$", path) or path == "/batches"):
        return "list_batches"
    return "authed"


def job_spec(i, job_group=0):
    return {"always_run": False, "job_id": i, "in_update_parent_ids": [], "absolute_job_group_id": job_group,
            "process": {"type": "docker", "image": "ubuntu:22.04", "command": ["true"], "mount_docker_socket": False}}


class RecSession:
    """MiniMySQL session that logs every statement (and whether the engine could execute it)."""

    def __init__(self, inner, log):
        self._inner, self._log = inner, log

    def execute(self, sql, args=None):
        if isinstance(args, (list, tuple)):   # the MySQL driver sends a datetime as the literal 'YYYY-MM-DD HH:MM:SS'
            args = tuple(a.strftime("%Y-%m-%d %H:%M:%S") if isinstance(a, datetime.datetime) else a for a in args)
        ent = {"sql": sql, "args": list(args) if isinstance(args, (list, tuple)) else args, "unsupported": False}
        self._log.append(ent)
        try:
            return self._inner.execute(sql, args)
        except UnsupportedSQL:
            ent["unsupported"] = True
            raise

    def __getattr__(self, name):
        return getattr(self._inner, name)


_CURRENT = [None]     # the World whose request is being served (the patched stubs are process-wide)


class Outcome:
    __slots__ = ("status", "outcome", "location", "exc", "changed", "seen", "mode", "fuser", "unsupported", "changed_tables")


class World:
    """One world variant of Acl.tla, built through the real handlers, with snapshot / restore of every table."""

    def __init__(self, name, rep="plain"):
        import aiomysql

        self.name, self.rep = name, rep
        self.w = BatchWorld(seed=0)
        self.fe = self.w.fe
        self.sqllog = []
        self.rendered = []
        self.snap = None
        self.last_response = None
        self.w.db.pool = aiomysql.Pool(lambda: RecSession(self.w.eng.connect(), self.sqllog))
        self._load_prelude()
        self._install_fakes()
        self._populate()
        self.snap = self._snapshot()

    def _load_prelude(self):
        """JSON_QUOTE / JSON_CONTAINS as SQL functions of THIS engine copy (finalize_routines rebuilds the routine table from
        the raw definitions it was given, so it runs on an empty raw table and the result is merged)."""
        eng = self.w.eng
        saved = (eng.routines, eng.triggers, getattr(eng, "unparsable", {}))
        eng._raw = {}
        eng.load_routines_from_sql(PRELUDE, "verif-c14-prelude")
        eng.finalize_routines()
        extra, bad = eng.routines, eng.unparsable
        eng.routines = dict(saved[0])
        eng.routines.update(extra)
        eng.triggers, eng.unparsable = saved[1], saved[2]
        if bad or set(extra) != {"json_quote", "json_contains"}:
            raise RuntimeError(f"prelude functions not defined: {bad} {sorted(extra)}")

    # ---- fakes ----------------------------------------------------------------------------------------------------
    def _install_fakes(self):
        w, fe = self.w, self.fe
        w.app["default_region"] = "us-central1"
        cs = next(v for k, v in w.app.items() if type(v).__name__ == "FakeClientSession")

        async def get_read_json(url, **kw):
            return {"username": url.rsplit("/", 1)[-1]}

        cs.get_read_json = get_read_json
        w.webapp()

        async def fetch_userdata(request):
            u = request.headers.get("X-User")
            if not u or CALLERS.get(u) is None:
                return None
            c = CALLERS[u]
            return {"id": 1, "state": c["state"], "username": u, "login_id": u, "namespace_name": "default",
                    "is_developer": c["dev"], "is_service_account": u in SERVICE_ACCOUNTS,
                    "hail_credentials_secret_name": f"{u}-gsa-key", "tokens_secret_name": f"{u}-tokens"}

        async def check_permission(request, permission):
            u = request.headers.get("X-User")
            return bool(u) and CALLERS.get(u) is not None and CALLERS[u]["state"] == "active" and (CALLERS[u]["dev"] == 1 or u == "auth")

        fe.auth._fetch_userdata = fetch_userdata
        fe.auth._check_system_permission = check_permission

        async def get_session(request):
            s = request.get("verif_session")
            if s is None:
                s = {"session_id": "sid-" + (request.headers.get("X-User") or "anon")}
                request["verif_session"] = s
            return s

        def render_template(file, request, context, status=200, **kw):
            _CURRENT[0].rendered.append((file, context))
            return web.Response(text=f"rendered {file}", status=status, content_type="text/html")

        sys.modules["aiohttp_session"].get_session = get_session
        sys.modules["aiohttp_jinja2"].render_template = render_template
        import gear.auth as ga

        self.login_url = ga.deploy_config.external_url("auth", "/user")

    # ---- population -------------------------------------------------------------------------------------------------
    def _must(self, method, path, body, user):
        o = self.call(method, path, json.dumps(body).encode() if body is not None else b"", user)
        if o.outcome != "passed" or o.exc is not None or not (200 <= o.status < 300):
            raise RuntimeError(f"world {self.name}: set-up request {method} {path} as {user} failed: {o.status} {o.exc!r}")
        return o

    def _sql(self, sql, args=None):
        s = self.w.eng.connect()
        s.execute(sql, args)
        s.commit()

    def _populate(self):
        A = "/api/v1alpha"
        # b1: u1's batch in proj; update 1 holds job group 1 and job 1
        self._must("POST", f"{A}/batches/create", {"billing_project": "proj", "token": "T", "n_jobs": 1, "n_job_groups": 1}, "u1")
        self._must("POST", f"{A}/batches/1/updates/1/job-groups/create", [{"job_group_id": 1, "absolute_parent_id": 0}], "u1")
        self._must("POST", f"{A}/batches/1/updates/1/jobs/create", [job_spec(1, 1)], "u1")
        if self.name != "open1":
            self._must("PATCH", f"{A}/batches/1/updates/1/commit", None, "u1")
            self._must("POST", f"{A}/batches/1/updates/create", {"token": "T2", "n_jobs": 1, "n_job_groups": 1}, "u1")
        # b2: u3's batch in other (complete, no jobs) with an open update 1
        self._must("POST", f"{A}/batches/create", {"billing_project": "other", "token": "TO", "n_jobs": 0, "n_job_groups": 0}, "u3")
        self._must("POST", f"{A}/batches/2/updates/create", {"token": "TO2", "n_jobs": 1, "n_job_groups": 1}, "u3")
        # both batches look like anything a search term can ask for: jobs of every outcome, a name, a cost, start and end times
        for b in (1, 2):
            self._sql("UPDATE job_groups_n_jobs_in_complete_states SET n_completed = 3, n_succeeded = 1, n_failed = 1, n_cancelled = 1 WHERE id = %s AND job_group_id = 0", (b,))
            self._sql("INSERT INTO job_group_attributes (batch_id, job_group_id, `key`, `value`) VALUES (%s, 0, 'name', 'x')", (b,))
            self._sql("INSERT INTO aggregated_job_group_resources_v3 (batch_id, job_group_id, resource_id, token, `usage`) VALUES (%s, 0, 1, 0, 1000)", (b,))
            self._sql("UPDATE job_groups SET time_completed = 2000 WHERE batch_id = %s AND job_group_id = 0", (b,))
            self._sql("UPDATE batches SET time_completed = 2000 WHERE id = %s", (b,))
        for bp, u in (("proj", "u1"), ("other", "u3")):
            self._sql("INSERT INTO aggregated_billing_project_user_resources_v3 (billing_project, user, resource_id, token, `usage`) "
                      "VALUES (%s, %s, 1, 0, 1000)", (bp, u))
            self._sql("INSERT INTO aggregated_billing_project_user_resources_by_date_v3 (billing_date, billing_project, user, resource_id, token, `usage`) "
                      "VALUES ('2026-01-01', %s, %s, 1, 0, 1000)", (bp, u))
        if self.name == "owner_removed":
            self._sql("DELETE FROM billing_project_users WHERE billing_project = 'proj' AND `user` = 'u1'")
        if self.name == "extra_members":
            for u in ("dev", "inactive"):
                self._sql("INSERT INTO billing_project_users (billing_project, user, user_cs) VALUES ('proj', %s, %s)", (u, u))
        # thorough-tier concretisations of the same world (the policy does not depend on them)
        if self.rep == "cancelled":
            self._must("PATCH", f"{A}/batches/1/cancel", None, "u2" if self.name == "owner_removed" else "u1")
            self._must("PATCH", f"{A}/batches/2/cancel", None, "u3")
        elif self.rep == "deleted":
            self._must("DELETE", f"{A}/batches/1", None, "u2" if self.name == "owner_removed" else "u1")
            self._must("DELETE", f"{A}/batches/2", None, "u3")
        elif self.rep == "closed_project":
            self._must("POST", f"{A}/billing_projects/other/close", None, "dev")
        self.sqllog.clear()
        self.rendered.clear()

    # ---- snapshot / restore -------------------------------------------------------------------------------------------
    def _snapshot(self):
        return {n: ([dict(r) for r in t.rows], t.autoinc_next) for n, t in self.w.eng.tables.items()}

    def restore(self):
        for n, t in self.w.eng.tables.items():
            rows, nxt = self.snap[n]
            t.rows = [dict(r) for r in rows]
            t.autoinc_next = nxt
        self.sqllog.clear()
        self.rendered.clear()

    def changed_tables(self):
        out = []
        if self.snap is None:
            return out
        for n, t in self.w.eng.tables.items():
            a = sorted(repr(sorted(r.items(), key=lambda kv: kv[0])) for r in self.snap[n][0])
            b = sorted(repr(sorted(r.items(), key=lambda kv: kv[0])) for r in t.rows)
            if a != b:
                out.append(n)
        return out

    # ---- one request --------------------------------------------------------------------------------------------------
    async def _dispatch(self, method, path, data, headers):
        from aiohttp import streams
        from aiohttp.test_utils import make_mocked_request

        app = self.w.webapp()
        proto = type("P", (), {"_reading_paused": False, "transport": None, "resume_reading": lambda self, **k: None,
                               "pause_reading": lambda self: None})()
        sr = streams.StreamReader(proto, 2 ** 16, loop=asyncio.get_running_loop())
        sr.feed_data(data)
        sr.feed_eof()
        req = make_mocked_request(method, path, headers=headers, app=app, payload=sr)
        mi = await app.router.resolve(req)
        mi.add_app(app)
        req._match_info = mi
        return await mi.handler(req)

    def call(self, method, path, data=b"", user="u1", content_type="application/json", extra_headers=None) -> Outcome:
        _CURRENT[0] = self
        headers = {"Content-Type": content_type, "Content-Length": str(len(data)), **(extra_headers or {})}
        if user and user != "anon":
            headers["X-User"] = user

        async def guarded():
            try:
                return ("resp", await self._dispatch(method, path, data, headers))
            except web.HTTPException as e:
                return ("http", e)
            except Exception as e:  # a crash inside the handler body (missing collaborator, unsupported SQL, ...)
                return ("exc", e)

        r = self.w.run(guarded())
        kind, v = r.value
        o = Outcome()
        o.exc, o.location, o.seen, o.mode, o.fuser = None, None, [], "none", ""
        self.last_response = None
        if kind == "exc":
            o.status, o.exc = 0, v
        else:
            o.status = v.status
            o.location = v.headers.get("Location") if hasattr(v, "headers") else None
            if kind == "resp":
                self.last_response = v
        login = o.location is not None and str(o.location).startswith(self.login_url)
        if o.status in (401, 403, 404) or (300 <= o.status < 400 and login):
            o.outcome = "refused"
        elif 400 <= o.status < 500:
            o.outcome = "clienterror"
        elif o.status >= 500 or (o.exc is not None and not isinstance(o.exc, UnsupportedSQL)):
            # a genuine exception in the handler (SQL error, CallError, IndexError ...) is a 500 answer in production
            o.outcome = "servererror"
        else:
            # 2xx, a redirect elsewhere, or the engine could not execute a statement of the handler body (harness limit:
            # the body was reached and production would have carried on)
            o.outcome = "passed"
        o.changed_tables = self.changed_tables()
        o.changed = bool(o.changed_tables)
        o.unsupported = [e for e in self.sqllog if e["unsupported"]]
        return o

    # ---- what a listing showed ------------------------------------------------------------------------------------------
    def listing_observation(self, o: Outcome):
        """(mode, seen items, filter user).  rows: every dict with a billing_project key in the JSON body / template context."""
        if o.outcome != "passed":
            return "none", [], ""
        if o.unsupported:
            ent = o.unsupported[-1]
            m = re.search(r"billing_project_users\.`?user(_cs)?`?\s*=\s*%s", ent["sql"])
            fuser = ""
            if m and isinstance(ent["args"], list):
                idx = ent["sql"][:m.start()].count("%s")
                joined = re.search(r"billing_project_users\s+ON\s+batches\.billing_project\s*=\s*billing_project_users\.billing_project", ent["sql"]) \
                    or "billing_project_users.billing_project = batches.billing_project" in ent["sql"]
                if idx < len(ent["args"]) and joined:
                    fuser = str(ent["args"][idx])
            return "filter", [], fuser
        items = []

        def walk(x):
            if isinstance(x, dict):
                if "billing_project" in x and isinstance(x["billing_project"], str):
                    items.append({"proj": x["billing_project"], "user": str(x.get("user") or "")})
                for v in x.values():
                    walk(v)
            elif isinstance(x, (list, tuple)):
                for v in x:
                    walk(v)

        if self.last_response is not None and getattr(self.last_response, "body", None) and \
                (self.last_response.content_type or "").endswith("json"):
            walk(json.loads(self.last_response.body))
        for _file, ctx in self.rendered:
            walk({k: v for k, v in ctx.items() if k != "userdata"})
        with_user = {it["proj"] for it in items if it["user"]}
        items = [it for it in items if it["user"] or it["proj"] not in with_user]   # per-project totals of the same rows
        seen, out = set(), []
        for it in items:
            key = (it["proj"], it["user"])
            if key not in seen:
                seen.add(key)
                out.append(it)
        return ("rows" if (self.last_response is not None and o.exc is None) else "none"), out, ""


# ---- the concrete request for (route, request of the specification) -----------------------------------------------------
# every search term of the two list-query languages, alone and negated / combined (used for the listing routes: whatever the
# search says, a listing may only show what the caller may read)
Q_V1_ALL = ["open", "closed", "complete", "running", "cancelled", "failure", "success", "has:name", "name=x", "!open", "!closed", "!complete",
            "!running", "!cancelled", "!failure", "!success", "!has:name", "!name=x", "user:u3", "!user:u1", "billing_project:other",
            "!billing_project:proj", "cancelled failure", "complete !success", "x", "!x"]
Q_V2_ALL = ["state = running", "state = complete", "state = success", "state = failure", "state = cancelled", "state = open", "state = closed",
            "state != running", "state != cancelled", "state != failure", "name = x", "name != x", "name =~ x", "name !~ x", "x", "cost >= 0", "cost < 1000000",
            "duration >= 0", "duration < 1000000", "start_time >= 2000-01-01T00:00:00Z", "end_time <= 2100-01-01T00:00:00Z", "batch_id >= 1", "batch_id != 1",
            "user = u3", "user != u1", "billing_project = other", "billing_project != proj", "state = cancelled\nstate != running"]
Q_V1 = ["user:u3", "billing_project:other", "!user:u1", "open", "running", "user:u1 billing_project:proj", "has:name", ""]
Q_V2 = ["billing_project = other", "user != u1", "state = running", "batch_id >= 1", "user = u3\nbilling_project = other", "cost >= 0", ""]


def concrete(method, path, cls, world, target, variant, rep="plain", seed=0):
    """-> (url, body bytes, content type, extra headers).  Every body is VALID for the handler, so that the answer is decided
    by the access checks and not by input validation (except rep 'badbody'; reps 'fuzzN' draw ids, tokens, queries and the
    developers' template-context header at random from small pools - thorough tier)."""
    b2 = target == "b2"
    fuzz = rep.startswith("fuzz")
    rng = random.Random(zlib.crc32(repr((seed, rep, method, path, cls, world, target, variant)).encode()))
    extra = {}
    sub = {"batch_id": "2" if b2 else "1", "job_id": "1", "job_group_id": "0" if b2 else "1",
           "update_id": "1" if (b2 or world == "open1") else "2", "container": "main",
           "billing_project": "other" if b2 else "proj", "user": "u3" if b2 else "u2", "filename": "index.js"}
    if rep == "altids":
        sub.update(job_id="7", job_group_id="5", container="input")
    if fuzz:
        sub.update(job_id=rng.choice("127"), job_group_id=rng.choice("012"), container=rng.choice(["main", "input", "output"]))
        if cls != "batch_owner" or rng.random() < 0.3:
            sub["update_id"] = rng.choice("123")
        if not path.startswith("/api/") and method == "GET" and rng.random() < 0.5:
            extra["x-hail-return-jinja-context"] = "1"
    if "billing_projects" in path:
        if path.endswith("/create"):
            sub["billing_project"] = "newbp2" if b2 else "newbp"
        if path.endswith("/add"):
            sub["user"] = "u1" if b2 else "u3"
    url = re.sub(r"\{(\w+)\}", lambda m: sub.get(m.group(1), "1"), path) or "/"
    known = "TO2" if b2 else ("T" if world == "open1" else "T2")
    token = known if variant == "known_token" else "FRESH"
    if fuzz and variant == "fresh_token":       # tokens of other updates / of the other batch are "fresh" for this batch's open update
        token = rng.choice(["FRESH", "TO2" if not b2 else "T2", "TO", "T" if world != "open1" or b2 else "FRESH"])
    body, form, query = None, None, {}
    if cls == "batch_owner":
        if path.endswith("/job-groups/create"):
            body = [{"job_group_id": 1, "absolute_parent_id": 0}]
        elif path.endswith("/jobs/create"):
            body = [job_spec(1, 0)]
        elif path.endswith("/update-fast"):
            if variant == "known_token":
                body = {"update": {"token": token, "n_jobs": 1, "n_job_groups": 1}, "bunch": [], "job_groups": []}
            else:
                body = {"update": {"token": token, "n_jobs": 1, "n_job_groups": 0}, "bunch": [job_spec(1, 0)], "job_groups": []}
        elif path.endswith("/updates/create"):
            body = {"token": token, "n_jobs": 1, "n_job_groups": 1 if variant == "known_token" else 0}
    elif cls == "create":
        spec = {"billing_project": "proj", "token": "NEWBATCH", "n_jobs": 0, "n_job_groups": 0}
        body = {"batch": dict(spec, n_jobs=1), "bunch": [job_spec(1, 0)], "job_groups": []} if path.endswith("-fast") else spec
    elif cls == "bp_admin" and method == "POST":
        if path.startswith("/api/"):
            body = {"limit": 5} if "billing_limits" in path else {}
        else:
            form = {"limit": "5", "billing_project": "newbp", "user": sub["user"], "_csrf": "x"}
    elif cls in ("list_batches", "list_billing"):
        v1 = re.search(API, path) is not None and "/api/v1alpha/" in path
        if rep.startswith("term:"):
            query["q"] = (Q_V1_ALL if v1 else Q_V2_ALL)[int(rep[5:]) % len(Q_V1_ALL if v1 else Q_V2_ALL)]
        elif variant == "all":
            query["q"] = ""
        elif variant == "foreign":
            query["q"] = "user:u3" if v1 else "user = u3"
        if fuzz:
            query["q"] = rng.choice(Q_V1 if v1 else Q_V2)
            if rng.random() < 0.3:
                query["last_batch_id"] = rng.choice(["1", "2", "3"])
            if rng.random() < 0.3:
                query["limit"] = rng.choice(["1", "2", "50"])
        if path == "/billing":
            query["start"] = "01/01/2020"
    elif method in ("POST", "PATCH", "PUT") and cls in ("authed", "batch_member") and path.startswith("/api/"):
        body = {}
    elif method == "POST":
        form = {"q": "", "_csrf": "x"}
    if rep == "badbody" and method in ("POST", "PATCH"):
        body, form = {"bogus": True}, None
    if query:
        url += "?" + urllib.parse.urlencode(query)
    if form is not None:
        return url, urllib.parse.urlencode(form).encode(), "application/x-www-form-urlencoded", extra
    return url, (json.dumps(body).encode() if body is not None else b""), "application/json", extra


def caller_kind(cls, caller, allowed_hint=None):
    if caller == "anon":
        return "anonymous"
    if caller in ("inactive", "idev"):
        return "inactive"
    return {"batch_member": "nonmember", "batch_owner": "nonowner", "bp_admin": "nonprivileged", "bp_read": "nonmember"}.get(cls, "other")
