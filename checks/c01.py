"""C01 - scheduler job/core counters always match job states.

Spec specs/batchdb/BatchDB.tla + BatchDBProps.tla (the batch database as a transition system; one action per stored-procedure
call / @transaction block).  Verdict: (1) TLC checks the property's formulas exhaustively on the specification for a basket of
programs, with the scenarios of recorded findings avoided; (2) B1: walks covering the labelled state graph are executed on the
real SQL (batch/sql, interpreted by vlib/minimysql) and the real Python front end, full projected state compared after every
step; (3) each recorded finding is reproduced through TLC's counter-example replayed on the code.
"""
from checks import _batchdb as B

LEVEL = "model_checking"
MANIFEST = {
    "technique": "TLA+ spec BatchDB checked exhaustively by TLC per program; labelled state-graph replay (B1) on the real stored procedures/triggers (MiniMySQL interpreter) and real front-end Python with exact state comparison; graph replay by a rewinding traversal (every edge class, then every edge); overlapping-transactions stage: a second request runs inside the first at every statement boundary under a two-transaction isolation model of MiniMySQL and the result must be that of a serial order in the TLC graph",
    "text": "Every interleaving of update creation, group/job insertion, commit, cancellation, scheduling, worker reports, canceller loops, deactivation and cleaners for small programs is explored on the specification, where the user-level and group-level counters are shown equal to the recomputation from job states; the real triggers and procedures are shown to take exactly the specified transitions on that graph.",
    "note": "Trusts TLC; MiniMySQL's rendering of MySQL semantics for the subset used (unit-tested, unknown constructs abort with exit 2); atomic serialisable transactions; one batch/user/instance collection with shard tokens summed out; bounded programs (<=4 jobs, <=3 groups, <=2 updates, <=2 attempts, <=2 instances). Recorded findings are excluded from the main run by scenario guards and reproduced separately. The overlapping-transactions stage trusts the isolation model of vlib/minimysql/isolation.py (consistent reads, predicate locks approximating InnoDB next-key locks, lock waits; approximations err towards waiting).",
    "design_ref": "DESIGN.md section 5, c01",
}

INVARIANTS = ["C01_User", "C01_Group"]
PROPERTIES = []
QUICK = ['chain2', 'nest_s', 'grp2', 'nestc', 'alw']
THOROUGH = ['chain2', 'nest_s', 'grp2', 'nestc', 'alw', 'sib', 'upd2', 'diamond', 'clean', 'jpim_s', 'retry_s', 'nest', 'jpim', 'retry', 'ffroot', 'ff_s']
FINDINGS = [("toctou", "chain2", ["C01_User"]), ("ooc", "ooc2", ["C01_User"])]


def run(ctx):
    B.run_property(ctx, "C01", INVARIANTS, PROPERTIES, QUICK, THOROUGH, FINDINGS, overlap=['chain2', 'grp2'])
