"""C20 - the bounded-parallelism gather helpers (hail/python/hailtop/utils/utils.py: bounded_gather2,
bounded_gather2_raise_exceptions, bounded_gather2_return_exceptions, WithoutSemaphore, OnlineBoundedGather2)
respect their bound and their error contract.

Specs specs/gather/Gather.tla (the three modes of bounded_gather2; the clean-up loop of cancel_on_error in two
designs selected by the constant Fixed: FALSE = as it stands, TRUE = repaired) and specs/gather/GatherOnline.tla
(OnlineBoundedGather2: call / wait / exit), both including asyncio.Semaphore, gather, wait, Event, shield,
Task.cancel and the FIFO ready queue.

 (1) TLC checks every property exhaustively on Gather(Fixed=TRUE) and GatherOnline (plus liveness under fairness).
 (2) TLC checks Gather(Fixed=FALSE): C20_CancelOnError and C20_RaiseFirst have counter-examples there; each is
     replayed step by step on the real helper (full state comparison).  If it replays, the real code violates
     the property.
 (3) B1: the complete labelled state graphs are replayed, edge by edge, on the real helpers.
 (4) B2: longer random executions of the real helpers (more tasks) are validated by TLC as behaviours of the
     specs, every invariant evaluated at every step.
Permit conservation (the caller's permit on return) is evaluated as an extra invariant and only reported.
"""
from __future__ import annotations

import json
import random

from vlib import loader, tlc, walk

from . import _aio, _gather

LEVEL = "model_checking"
MANIFEST = {
    "technique": "TLA+ specs Gather and GatherOnline (helpers + asyncio.Semaphore/gather/wait/Event/shield/Task.cancel + FIFO ready queue) checked exhaustively by TLC (invariants + liveness); TLC counter-examples of the as-is clean-up loop replayed on the real helper; state-graph replay (B1) and TLC trace validation (B2) against the real functions on a single-stepped asyncio loop",
    "text": "All interleavings of task completion and failure for 3-4 partial functions, semaphore values 1..3, the three modes of bounded_gather2 and five usage scripts of OnlineBoundedGather2 are explored exhaustively by TLC on the specs; the real helpers are shown to have the same transition relation on those whole graphs (every edge replayed, full state compared), and longer random executions with more tasks are accepted by the specs with all invariants (bound, order, return-all, raise-first, cancel-on-error, nothing running on return) holding at each step.",
    "note": "Trusts TLC and the virtual event loop (FIFO ready queue, pure-Python tasks). The caller holds one permit of the semaphore (the documented use). Task bodies await one future and end in one step when cancelled; callers are not cancelled from outside. For cancel_on_error=False remaining tasks may continue after an error (docstring). For OnlineBoundedGather2's error exit the verdict demands that every unfinished task has been cancelled, not that it has already processed the cancellation (the stricter reading is reported as an extra invariant). Permit conservation is an extra invariant, reported only.",
    "design_ref": "DESIGN.md section 5, C20; section 7 items 12 and 13",
}

G_INVS = ["TypeOK", "C20_Bound", "C20_Order", "C20_ReturnAll", "C20_RaiseFirst", "C20_CancelOnError", "C20_NoneRunningOnReturn",
          "C20_HelperNeverBlocks", "C20_CancelOnlyWhenAsked"]
G_DEFECT = {"C20_CancelOnError": "prop:C20_CancelOnError:cleanup-loop-reraises",
            "C20_RaiseFirst": "prop:C20_RaiseFirst:cleanup-loop-reraises"}
O_INVS = ["TypeOK", "C20_Bound", "C20_ExitQuiescent", "C20_FirstException", "C20_ShutdownCancels", "C20_EventConsistent"]
ALL_MODES = ("return", "raise", "raise_cancel")
ALL_SCRIPTS = ("plain", "wait", "waitcall", "raise", "waitraise")
HOLDING = ("run", "res_ok", "res_fail", "canc_run")
TERMINAL = ("done", "failed", "cancelled")


def g_consts(n, bounds, modes, fixed):
    return {"N": n, "Bounds": _aio.tla_set(bounds), "Modes": _aio.tla_set(modes), "Fixed": "TRUE" if fixed else "FALSE", "Wrapper": "FALSE"}


def o_consts(n, bounds, scripts):
    return {"N": n, "Bounds": _aio.tla_set(bounds), "Scripts": _aio.tla_set(scripts)}


def _detail(v):
    return [(h, _aio.py(s) if s else None) for h, s in v.trace]


def replay_per_root(g, mk_for_root, view, seed):
    """walk.replay_graph once per initial state (the initial state fixes mode/script and bound)."""
    tot = {"walks": 0, "steps": 0, "edges_covered": 0, "edges": len(set(g.edges)), "nodes": len(g.nodes)}
    mism = []
    for root in sorted(g.init):
        sub = tlc.Graph(g.nodes, g.edges, [root])
        stats, mm = walk.replay_graph(sub, mk_for_root(g.nodes[root]), _gather.gather_apply, lambda i: i.project(), view=view,
                                      rng=random.Random(seed))
        for k in ("walks", "steps", "edges_covered"):
            tot[k] += stats[k]
        mism += mm
        if mism:
            break
    return tot, mism


def random_gather_trace(utils, rng, n, bound, mode, pfail):
    impl = _gather.GatherImpl(utils, n, bound, mode)
    ev = []

    def log(a, t=0):
        ev.append({"a": a, "t": t, "post": _gather.gather_post_json(impl.project())})

    impl.start()
    log("Start")
    for _ in range(40 * n):
        ops = []
        p = impl.project()
        for t in range(1, n + 1):
            if p["tpc"][t] == "run":
                ops.append((("FailCancelled", t) if rng.random() < 0.3 else ("Fail", t)) if rng.random() < pfail else ("Complete", t))
        if impl.loop.pending_ready():
            ops += [("Step", 0)] * max(2, len(ops))
        if not ops:
            break
        a, t = rng.choice(ops)
        if a == "Complete":
            impl.complete(t)
        elif a == "Fail":
            impl.fail(t)
        elif a == "FailCancelled":
            impl.fail_cancelled(t)
        else:
            impl.step()
        log(a, t)
    impl.close()
    return {"mode": mode, "bound": bound, "ev": ev}


def random_online_trace(utils, rng, n, bound, script, pfail):
    impl = _gather.OnlineImpl(utils, n, bound, script)
    ev = []

    def log(a, t=0):
        ev.append({"a": a, "t": t, "post": _gather.online_post_json(impl.project())})

    impl.start()
    log("Start")
    for _ in range(50 * n):
        ops = []
        p = impl.project()
        for t in range(1, n + 1):
            if p["tpc"][t] == "run":
                ops.append((("FailCancelled", t) if rng.random() < 0.3 else ("Fail", t)) if rng.random() < pfail else ("Complete", t))
        if impl.loop.pending_ready():
            ops += [("Step", 0)] * max(2, len(ops))
        if not ops:
            break
        a, t = rng.choice(ops)
        if a == "Complete":
            impl.complete(t)
        elif a == "Fail":
            impl.fail(t)
        elif a == "FailCancelled":
            impl.fail_cancelled(t)
        else:
            impl.step()
        log(a, t)
    impl.close()
    return {"script": script, "bound": bound, "ev": ev}


def _trace_violations(ctx, tres, trs, defect_sigs):
    for v in tres.violations:
        last = v.trace[-1][1] if v.trace else {}
        tid, l = last.get("tid"), last.get("l")
        evs = trs[tid - 1]["ev"] if tid else []
        nxt = evs[l - 1] if tid and l and l <= len(evs) else None
        if v.kind == "invariant":
            sig = defect_sigs.get(v.name, f"prop:{v.name}")
        else:
            sig = f"trace:{v.kind}:{nxt['a'] if nxt else 'end'}"
        ctx.violation(sig, {"trace_id": tid, "position": l, "next_event": nxt, "spec_state": _aio.py(last),
                            "scenario": {k: trs[tid - 1][k] for k in trs[tid - 1] if k != "ev"} if tid else None, "events": evs[:l]})


def run(ctx):
    loader.install()
    import hailtop.utils.utils as utils

    wd = tlc.prepare_dir(ctx.build / "tlc", ["gather"])
    ctx.assume("asyncio runs ready callbacks in FIFO order and code between two awaits is atomic (modelled as rq and Step)",
               "the caller of the helpers holds one permit of the semaphore (documented use); bound = the semaphore's initial value",
               "every task body awaits one future which the environment resolves, fails or cancels (the body then raises CancelledError on its own) and ends in one step when cancelled",
               "neither the caller nor (OnlineBoundedGather2) single background tasks are cancelled from outside",
               "at least one partial function is passed")

    n = 3 if ctx.quick else 4
    bounds = (1, 2) if ctx.quick else (1, 2, 3)

    # ---- (1a) bounded_gather2, repaired clean-up loop: every property ------------------------------------------
    cs = g_consts(n, bounds, ALL_MODES, True)
    (wd / "GF.cfg").write_text(tlc.mk_cfg(constants=cs, invariants=G_INVS))
    res = tlc.run(wd, "Gather", "GF.cfg", workers=min(4, ctx.workers), coverage=True, dump="gf")
    ctx.add_tlc(res, f"exhaustive Gather Fixed=TRUE N={n} bounds={bounds} modes={ALL_MODES}")
    ctx.require_covered(res, ["Start", "Complete", "Fail", "FailCancelled", "Step"], "Gather")
    for v in res.violations:
        ctx.violation(f"spec:{v.name}", {"config": cs, "trace": _detail(v)})
    if res.violations:
        return
    gf = tlc.parse_dot(wd / "gf.dot")
    # vacuity: the situations the properties speak about are reachable (read off TLC's state dump)
    nodes = list(gf.nodes.values())
    reach = {
        "returned": any(s["hres"] == "returned" for s in nodes),
        "raised_with_cancel_on_error": any(s["hres"] == "raised" and s["mode"] == "raise_cancel" for s in nodes),
        "raised_while_others_run(cancel_on_error=False)": any(s["hres"] == "raised" and s["mode"] == "raise" and any(x in HOLDING for x in s["tpc"]) for s in nodes),
        "semaphore_queue_used": any(any(e["st"] == "p" for e in s["sq"]) for s in nodes),
        "two_failures": any(len(s["fails"]) >= 2 for s in nodes),
        "return_exceptions_with_failure": any(s["hres"] == "returned" and s["mode"] == "return" and any(not e["ok"] for e in s["hval"]) for s in nodes),
        "body_raised_CancelledError_returned_in_place": any(s["hres"] == "returned" and s["mode"] == "return" and any(not e["ok"] and e["id"] == 0 for e in s["hval"]) for s in nodes),
        "body_raised_CancelledError_raised_by_raise_variant": any(s["hres"] == "raised" and s["mode"] != "return" and s["hexc"] == 0 for s in nodes),
        "cancelled_while_granted": any(any(m and x == "grant" for m, x in zip(s["must"], s["tpc"])) for s in nodes),
    }
    if not all(reach.values()):
        raise RuntimeError(f"vacuity: unreachable situations {[k for k, v in reach.items() if not v]}")
    ctx.cov["reachable_situations"] = sorted(reach)
    # extra invariant: permit conservation (reported only)
    extra = {"bounded_gather2: caller's permit re-acquired on normal return": all(s["value"] == s["bound"] - 1 for s in nodes if s["hres"] == "returned"),
             "bounded_gather2: caller's permit re-acquired when it raises (DESIGN 7.13)":
                 all(s["value"] == s["bound"] - 1 for s in nodes if s["hres"] == "raised" and all(x in TERMINAL for x in s["tpc"]))}
    # liveness
    lcs = g_consts(3, (1, 2), ALL_MODES, True)
    (wd / "GLive.cfg").write_text(tlc.mk_cfg(spec="FairSpec", constants=lcs, properties=["C20_Live"]))
    lres = tlc.run(wd, "Gather", "GLive.cfg", workers=min(4, ctx.workers))
    ctx.add_tlc(lres, "liveness C20_Live (the helper terminates) under weak fairness, Fixed=TRUE")
    for v in lres.violations:
        ctx.violation(f"spec-liveness:{v.name}", {"config": lcs, "trace": _detail(v)})

    # ---- (1b) OnlineBoundedGather2 ---------------------------------------------------------------------------------
    ocs = o_consts(n, bounds, ALL_SCRIPTS)
    (wd / "O.cfg").write_text(tlc.mk_cfg(constants=ocs, invariants=O_INVS))
    ores = tlc.run(wd, "GatherOnline", "O.cfg", workers=min(4, ctx.workers), coverage=True, dump="go")
    ctx.add_tlc(ores, f"exhaustive GatherOnline N={n} bounds={bounds} scripts={ALL_SCRIPTS}")
    ctx.require_covered(ores, ["Start", "Resolve", "Step"], "GatherOnline")
    for v in ores.violations:
        ctx.violation(f"spec:online:{v.name}", {"config": ocs, "trace": _detail(v)})
    if ores.violations:
        return
    go = tlc.parse_dot(wd / "go.dot")
    onodes = list(go.nodes.values())
    oreach = {
        "online_returned": any(s["hres"] == "returned" for s in onodes),
        "online_raised_task_exception": any(s["hres"] == "raised" and 1 <= s["hexc"] <= n for s in onodes),
        "online_raised_body_exception": any(s["hres"] == "raised" and s["hexc"] == n + 1 for s in onodes),
        "online_driver_queued_for_semaphore": any(s["dpc"] == "acq" for s in onodes),
        "online_second_exception_discarded": any(any(x == "failed" and s["exc"] not in (0, i + 1) for i, x in enumerate(s["tpc"])) for s in onodes),
        "online_body_raised_CancelledError_pool_continues": any(s["hres"] == "returned" and "cancel" in s["outcome"] for s in onodes),
        "online_call_after_shutdown": any(s["hres"] == "raised" and s["script"] == "waitcall" and s["tpc"][n - 1] == "idle" for s in onodes),
    }
    if not all(oreach.values()):
        raise RuntimeError(f"vacuity: unreachable situations {[k for k, v in oreach.items() if not v]}")
    ctx.cov["reachable_situations"] += sorted(oreach)
    extra["OnlineBoundedGather2: driver's permit re-acquired on exit"] = all(s["value"] == s["bound"] - 1 for s in onodes if s["hres"] != "none" and all(x in TERMINAL + ("idle",) for x in s["tpc"]))
    extra["OnlineBoundedGather2: error exit has waited for the cancelled tasks (stricter reading, _shutdown docstring)"] = \
        all(all(x in TERMINAL + ("idle",) for x in s["tpc"]) for s in onodes if s["hres"] == "raised")
    ctx.cov["extra_invariants_not_in_verdict"] = extra
    (wd / "OLive.cfg").write_text(tlc.mk_cfg(spec="FairSpec", constants=o_consts(3, (1, 2), ALL_SCRIPTS), properties=["C20_Live"]))
    olres = tlc.run(wd, "GatherOnline", "OLive.cfg", workers=min(4, ctx.workers))
    ctx.add_tlc(olres, "liveness C20_Live (the context manager exit terminates) under weak fairness")
    for v in olres.violations:
        ctx.violation(f"spec-liveness:online:{v.name}", {"trace": _detail(v)})

    # ---- (2) the clean-up loop as it stands: counter-examples in the model, replayed on the real helper ----------
    defects = set()
    cex_info = {}
    for inv, sig in G_DEFECT.items():
        cs0 = g_consts(3, (2,), ("raise_cancel",), False)
        (wd / "GA_cex.cfg").write_text(tlc.mk_cfg(constants=cs0, invariants=[inv]))
        dres = tlc.run(wd, "Gather", "GA_cex.cfg", workers=1)
        ctx.add_tlc(dres, f"Gather Fixed=FALSE (clean-up loop as in the repository): search for a counter-example to {inv}")
        if not dres.violations:
            raise RuntimeError(f"discrimination lost: {inv} holds on the as-is clean-up loop")
        cex = dres.violations[0]
        ok, info = _aio.replay_trace(cex.trace, lambda: _gather.GatherImpl(utils, 3, 2, "raise_cancel"), _gather.gather_apply,
                                     lambda i: i.project(), _gather.gather_view)
        acts = [h for h, _ in cex.trace[1:]]
        cex_info[inv] = {"length": len(cex.trace), "actions": acts, "replays_on_real_helper": ok}
        if ok:
            defects.add(inv)
            final = info["final"]
            ctx.violation(sig, {"tlc_counterexample": acts, "final_state_of_real_helper": final,
                                "tasks_not_finished_when_helper_raised": [t for t, x in final["tpc"].items() if x not in TERMINAL],
                                "first_failure": "see fails in the TLC trace", "helper_raised_exception_of_task": final["hexc"],
                                "explanation": "bounded_gather2_raise_exceptions(cancel_on_error=True): the loop in `finally` does `raise exc` at the first finished task that holds an exception, so later tasks are neither cancelled nor awaited and the exception of the first failed task in submission order replaces the first one in completion order"})
            ctx.sample({"kind": "counterexample-replayed", "invariant": inv, "actions": acts, "final_tpc": final["tpc"], "hexc": final["hexc"]})
        else:
            ctx.sample({"kind": "counterexample-of-as-is-design-not-reproducible", "invariant": inv, "actions": acts,
                        "diverges": {k: info[k] for k in ("at", "action") if k in info}})
    # ---- (2b) bounded_gather(parallelism = p), the wrapper that creates the semaphore itself: in the model of the wrapper as it
    #      stood (no permit held around bounded_gather2) p + 1 tasks hold the semaphore at once; replayed on the real wrapper
    csw = dict(g_consts(3, (1, 2), ("return", "raise"), True), Wrapper="TRUE")
    (wd / "GW_cex.cfg").write_text(tlc.mk_cfg(constants=csw, invariants=["C20_Bound"]))
    wres = tlc.run(wd, "Gather", "GW_cex.cfg", workers=1)
    ctx.add_tlc(wres, "Gather Wrapper=TRUE (bounded_gather without a permit of its own): search for a counter-example to C20_Bound")
    if not wres.violations:
        raise RuntimeError("discrimination lost: C20_Bound holds on the model of the permit-less wrapper")
    cex = wres.violations[0]
    st0 = tlc.tlaval.to_py(cex.trace[0][1])
    ok, info = _aio.replay_trace(cex.trace, lambda: _gather.GatherImpl(utils, 3, st0["bound"], st0["mode"], wrapper=True), _gather.gather_apply,
                                 lambda i: i.project(), _gather.gather_view)
    acts = [h for h, _ in cex.trace[1:]]
    cex_info["C20_Bound(wrapper)"] = {"length": len(cex.trace), "actions": acts, "replays_on_real_helper": ok}
    if ok:
        final = info["final"]
        ctx.violation("prop:C20_Bound:bounded_gather-runs-parallelism-plus-one",
                      {"tlc_counterexample": acts, "parallelism": st0["bound"], "final_state_of_real_helper": final,
                       "tasks_inside_the_semaphore": [t for t, x in final["tpc"].items() if x in ("run", "res_ok", "res_fail", "canc_run")],
                       "explanation": "bounded_gather(parallelism=p) creates Semaphore(p) and calls bounded_gather2 without holding a permit; "
                                      "WithoutSemaphore.__aenter__ releases a permit that was never acquired, so p + 1 partial functions run at once"})
    else:
        ctx.sample({"kind": "counterexample-of-permit-less-wrapper-not-reproducible", "actions": acts,
                    "diverges": {k: info[k] for k in ("at", "action") if k in info}})
    ctx.cov["as_is_design_counterexamples"] = cex_info

    # ---- (3) B1 --------------------------------------------------------------------------------------------------------
    total_edges = 0
    rep = []
    mk_g = lambda st: (lambda: _gather.GatherImpl(utils, n, st["bound"], st["mode"]))
    stats, mism = replay_per_root(gf, mk_g, _gather.gather_view, ctx.seed)
    rep.append({"spec": "Gather", "design": "fixed", **stats, "mismatches": len(mism)})
    variant = None
    if not mism:
        if stats["edges_covered"] != stats["edges"]:
            raise RuntimeError(f"graph not covered: {stats}")
        variant = True
        total_edges += stats["edges_covered"]
    else:
        cs = g_consts(n, bounds, ALL_MODES, False)
        (wd / "GA.cfg").write_text(tlc.mk_cfg(constants=cs, invariants=[i for i in G_INVS if i not in G_DEFECT]))
        ares = tlc.run(wd, "Gather", "GA.cfg", workers=min(4, ctx.workers), coverage=True, dump="ga")
        ctx.add_tlc(ares, f"exhaustive Gather Fixed=FALSE N={n} bounds={bounds} (all invariants except those of section 7 item 12)")
        for v in ares.violations:
            ctx.violation(f"prop:{v.name}:as-is-design", {"config": cs, "trace": _detail(v)})
        ga = tlc.parse_dot(wd / "ga.dot")
        stats2, mism2 = replay_per_root(ga, mk_g, _gather.gather_view, ctx.seed)
        rep.append({"spec": "Gather", "design": "as-is", **stats2, "mismatches": len(mism2)})
        if not mism2:
            if stats2["edges_covered"] != stats2["edges"]:
                raise RuntimeError(f"graph not covered: {stats2}")
            variant = False
            total_edges += stats2["edges_covered"]
            if not defects:
                raise RuntimeError("helper conforms to the as-is design but no counter-example replayed")
        else:
            for m in mism:
                ctx.violation(_aio.mismatch_sig("replay[fixed]", m), {"path": m.path, "diff": m.diff})
            for m in mism2:
                ctx.violation(_aio.mismatch_sig("replay[as-is]", m), {"path": m.path, "diff": m.diff})
    ctx.cov["cleanup_loop_design_implemented"] = {True: "repaired (cancel all, wait for all)", False: "as in the repository (raise exc inside the loop)", None: "neither"}[variant]
    if gf.edges:
        e = gf.edges[len(gf.edges) // 2]
        ctx.sample({"kind": "graph-edge", "edge": e[1], "target": _gather.gather_view(gf.nodes[e[2]])})
    mk_o = lambda st: (lambda: _gather.OnlineImpl(utils, n, st["bound"], st["script"]))
    ostats, omism = replay_per_root(go, mk_o, _gather.online_view, ctx.seed)
    rep.append({"spec": "GatherOnline", **ostats, "mismatches": len(omism)})
    if not omism and ostats["edges_covered"] != ostats["edges"]:
        raise RuntimeError(f"graph not covered: {ostats}")
    for m in omism:
        ctx.violation(_aio.mismatch_sig("replay[online]", m), {"path": m.path, "diff": m.diff})
    if not omism:
        total_edges += ostats["edges_covered"]
    ctx.cov["graph_replay"] = rep

    # ---- (4) B2 --------------------------------------------------------------------------------------------------------
    fixed = variant is not False
    ntr, bn = (120, 6) if ctx.quick else (1500, 8)
    rng = random.Random(ctx.seed * 7919 + 20)
    gtr = [random_gather_trace(utils, rng, bn, rng.randint(1, 3), ALL_MODES[i % 3], rng.choice((0.0, 0.2, 0.5))) for i in range(ntr)]
    tf = wd / "gtraces.ndjson"
    tf.write_text("\n".join(json.dumps(t) for t in gtr) + "\n")
    cs = g_consts(bn, (1, 2, 3), ALL_MODES, fixed)
    (wd / "GTrace.cfg").write_text(tlc.mk_cfg(spec="TraceSpec", constants=cs, invariants=[i for i in G_INVS if fixed or i not in G_DEFECT], deadlock=True))
    tres = tlc.run(wd, "GatherTrace", "GTrace.cfg", workers=min(4, ctx.workers), env={"TRACE_FILE": tf})
    nev = sum(len(t["ev"]) for t in gtr)
    ctx.add_tlc(tres, f"trace validation of {len(gtr)} executions of the real bounded_gather2 ({bn} tasks, bound 1..3, three modes) against Fixed={fixed}")
    if not tres.violations and tres.distinct < nev:
        raise RuntimeError(f"trace validation explored {tres.distinct} states for {nev} events")
    _trace_violations(ctx, tres, gtr, G_DEFECT)
    otr = [random_online_trace(utils, rng, bn, rng.randint(1, 3), ALL_SCRIPTS[i % 5], rng.choice((0.0, 0.2, 0.5))) for i in range(ntr)]
    tfo = wd / "otraces.ndjson"
    tfo.write_text("\n".join(json.dumps(t) for t in otr) + "\n")
    (wd / "OTrace.cfg").write_text(tlc.mk_cfg(spec="TraceSpec", constants=o_consts(bn, (1, 2, 3), ALL_SCRIPTS), invariants=O_INVS, deadlock=True))
    otres = tlc.run(wd, "GatherOnlineTrace", "OTrace.cfg", workers=min(4, ctx.workers), env={"TRACE_FILE": tfo})
    onev = sum(len(t["ev"]) for t in otr)
    ctx.add_tlc(otres, f"trace validation of {len(otr)} executions of the real OnlineBoundedGather2 ({bn} tasks, bound 1..3, five scripts)")
    if not otres.violations and otres.distinct < onev:
        raise RuntimeError(f"trace validation explored {otres.distinct} states for {onev} events")
    _trace_violations(ctx, otres, otr, {})

    ctx.cov["traces_validated_against_impl"] = len(gtr) + len(otr) + sum(r["walks"] for r in rep if not r["mismatches"]) + len(defects)
    ctx.cov["trace_events"] = nev + onev
    ctx.cov["evaluations"] = nev + onev + total_edges
    ctx.cov["distinct_nontrivial"] = total_edges
    ctx.cov["exhaustive"] = True
    ctx.cov["rule"] = ("exhaustive TLC exploration of Gather and GatherOnline for the listed constants; every edge of the state graphs replayed on the "
                       "real helpers with full state comparison; random executions validated by TLC; distinct_nontrivial = distinct graph edges replayed")
    ctx.sample({"kind": "impl-trace", "scenario": {"mode": gtr[0]["mode"], "bound": gtr[0]["bound"]}, "events": gtr[0]["ev"][:4]})
