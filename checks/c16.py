"""C16 - worker CPU semaphore (batch/batch/semaphore.py FIFOWeightedSemaphore) is safe, FIFO and live.

Spec specs/sem/FifoSem.tla.  (1) TLC checks the properties exhaustively on the spec (safety as invariants,
liveness under fairness).  (2) B1: the complete labelled state graph is replayed, edge by edge, on the real class
under the deterministic event loop with exact state comparison after every step.  (3) B2: long random
executions of the real class with more tasks are validated as behaviours of the spec by TLC (every invariant
evaluated at every step).
"""
from __future__ import annotations

import json
import random

from vlib import loader, tlc, walk
from vlib.vloop import VLoop

LEVEL = "model_checking"
MANIFEST = {
    "technique": "TLA+ spec FifoSem checked exhaustively by TLC (invariants + liveness); state-graph replay (B1) and TLC trace validation (B2) against the real FIFOWeightedSemaphore on a single-stepped asyncio loop",
    "text": "All interleavings of start/acquire/finish/release steps for 3-4 tasks, weights up to capacity, explored exhaustively by TLC on the spec; the real class is shown to have the same transition relation on that whole graph (every edge replayed, full state compared) and random longer executions of the real class are accepted by the spec with all invariants holding at each step.",
    "note": "Trusts TLC; the virtual event loop (vlib/vloop.py: FIFO ready queue, pure-Python asyncio tasks); cancellation of waiters is outside the stated quantifier and not injected; liveness is a property of the spec, tied to the code by B1/B2 conformance.",
    "design_ref": "DESIGN.md section 5, C16",
}

INVS = ["TypeOK", "C16_Capacity", "C16_Conservation", "C16_Fifo", "C16_NoBlockedHead", "C16_QueueShape"]


class Impl:
    def __init__(self, capacity, sem_cls):
        self.loop = VLoop()
        self.sem = sem_cls(capacity)
        self.tasks = {}
        self.gates = {}
        self.began = set()
        self.inside = set()
        self.w = {}

    async def body(self, t, w):
        self.began.add(t)
        async with self.sem(w):
            self.inside.add(t)
            await self.gates[t]

    def start(self, t, w):
        self.gates[t] = self.loop.create_future()
        self.w[t] = w
        self.tasks[t] = self.loop.create_task(self.body(t, w), name=t)

    def finish(self, t):
        self.gates[t].set_result(None)

    def step(self):
        assert self.loop.step(), "nothing to step"

    def project(self, all_tasks):
        rq = tuple(self.loop.ready_tasks())
        pc = {}
        for t in all_tasks:
            if t not in self.tasks:
                pc[t] = "idle"
            elif self.tasks[t].done():
                pc[t] = "done"
            elif t not in self.began:
                pc[t] = "start"
            elif t not in self.inside:
                pc[t] = "granted" if t in rq else "waiting"
            else:
                pc[t] = "exit" if self.gates[t].done() else "holding"
        return {"value": self.sem.value, "qw": tuple(w for (_e, w) in self.sem.queue), "pc": pc, "rq": rq}

    def close(self):
        errs = [e for e in self.loop.errors]
        self.loop.dispose()
        if errs:
            raise RuntimeError(f"event loop errors: {errs}")


def view(st):
    return {"value": st["value"], "qw": tuple(e["w"] for e in st["queue"]), "pc": dict(st["pc"]), "rq": tuple(st["rq"])}


def run(ctx):
    loader.install()
    from batch.semaphore import FIFOWeightedSemaphore

    wd = tlc.prepare_dir(ctx.build / "tlc", ["sem"])
    # ---- (1)+(2) exhaustive model check and graph replay ---------------------------------------------------
    configs = [(("t1", "t2", "t3"), 2, 2), (("t1", "t2", "t3"), 3, 3)]
    if not ctx.quick:
        configs += [(("t1", "t2", "t3", "t4"), 3, 3), (("t1", "t2", "t3", "t4"), 2, 4)]
    total_edges = 0
    for n, (tasks, maxw, cap) in enumerate(configs):
        consts = {"Tasks": "{" + ", ".join(f'"{t}"' for t in tasks) + "}", "Weights": "{" + ", ".join(map(str, range(1, maxw + 1))) + "}", "Capacity": cap}
        (wd / f"MC{n}.cfg").write_text(tlc.mk_cfg(constants=consts, invariants=INVS))
        res = tlc.run(wd, "FifoSem", f"MC{n}.cfg", workers=ctx.workers, coverage=True, dump=f"g{n}")
        ctx.add_tlc(res, f"exhaustive FifoSem tasks={len(tasks)} weights=1..{maxw} capacity={cap}")
        ctx.require_covered(res, ["Start", "Finish", "Step"], "FifoSem")
        for v in res.violations:
            ctx.violation(f"spec:{v.name}", {"config": consts, "trace": [(h, s) for h, s in v.trace]})
        if res.violations:
            continue
        # liveness on the spec under fairness
        (wd / f"Live{n}.cfg").write_text(tlc.mk_cfg(spec="FairSpec", constants=consts, properties=["C16_Live"]))
        if len(tasks) <= 3:
            lres = tlc.run(wd, "FifoSem", f"Live{n}.cfg", workers=ctx.workers)
            ctx.add_tlc(lres, "liveness C16_Live under WF(Step), WF(Finish)")
            for v in lres.violations:
                ctx.violation(f"spec-liveness:{v.name}", {"config": consts, "trace": [(h, s) for h, s in v.trace]})
        g = tlc.parse_dot(wd / f"g{n}.dot")

        def apply_edge(impl, name, args, src, dst):
            if name == "Start":
                impl.start(args[0], args[1])
            elif name == "Finish":
                impl.finish(args[0])
            elif name == "Step":
                impl.step()
            else:
                raise RuntimeError(name)

        stats, mism = walk.replay_graph(g, lambda: Impl(cap, FIFOWeightedSemaphore), apply_edge,
                                        lambda impl: impl.project(tasks), view=view, rng=random.Random(ctx.seed))
        total_edges += stats["edges_covered"]
        ctx.cov.setdefault("graph_replay", []).append({"config": consts, **stats})
        if stats["edges_covered"] != stats["edges"]:
            if not mism:
                raise RuntimeError(f"graph not covered: {stats}")
        for m in mism:
            ctx.violation(f"replay:{tlc.parse_action_label(m.label)[0] if m.label != '<init>' else 'init'}:{','.join(sorted(m.diff))}",
                          {"config": consts, "path": m.path, "diff": m.diff})
        if n == 0 and g.edges:
            ctx.sample({"kind": "graph-edge", "edge": g.edges[len(g.edges) // 2][1], "target": walk.tlc.tlaval.to_py(g.nodes[g.edges[len(g.edges) // 2][2]])})

    # ---- (3) trace validation of random executions of the real class -------------------------------------
    ntr, ntasks, cap = (300, 8, 4) if ctx.quick else (3000, 12, 5)
    tasks = tuple(f"t{i}" for i in range(1, ntasks + 1))
    rng = random.Random(ctx.seed * 7919 + 1)
    lines = []
    for k in range(ntr):
        impl = Impl(cap, FIFOWeightedSemaphore)
        ev = []
        for _ in range(6 * ntasks):
            ops = []
            idle = [t for t in tasks if t not in impl.tasks]
            hold = [t for t in impl.tasks if t in impl.inside and not impl.gates[t].done()]
            if idle:
                ops += [("Start", idle[0])] * 2
            ops += [("Finish", t) for t in hold]
            if impl.loop.pending_ready():
                ops += [("Step", None)] * 3
            if not ops:
                break
            a, t = rng.choice(ops)
            e = {"a": a, "t": t or "", "w": 0}
            if a == "Start":
                e["w"] = rng.randint(1, cap)
                impl.start(t, e["w"])
            elif a == "Finish":
                impl.finish(t)
            else:
                impl.step()
            p = impl.project(tasks)
            e["post"] = {"value": p["value"], "qw": list(p["qw"]), "pc": p["pc"], "rq": list(p["rq"])}
            ev.append(e)
        impl.close()
        lines.append(json.dumps({"ev": ev}))
    tf = wd / "traces.ndjson"
    tf.write_text("\n".join(lines) + "\n")
    consts = {"Tasks": "{" + ", ".join(f'"{t}"' for t in tasks) + "}", "Weights": "{" + ", ".join(map(str, range(1, cap + 1))) + "}", "Capacity": cap}
    (wd / "Trace.cfg").write_text(tlc.mk_cfg(spec="TraceSpec", constants=consts, invariants=INVS, deadlock=True))
    tres = tlc.run(wd, "FifoSemTrace", "Trace.cfg", workers=ctx.workers, env={"TRACE_FILE": tf})
    ctx.add_tlc(tres, f"trace validation of {ntr} executions of the real class ({ntasks} tasks, capacity {cap})")
    nev = sum(len(json.loads(l)["ev"]) for l in lines)
    if not tres.violations and tres.distinct < nev:
        raise RuntimeError(f"trace validation explored {tres.distinct} states for {nev} events")
    for v in tres.violations:
        last = v.trace[-1][1] if v.trace else {}
        tid, l = last.get("tid"), last.get("l")
        evs = json.loads(lines[tid - 1])["ev"] if tid else []
        ctx.violation(f"trace:{v.kind}:{v.name}:{evs[l - 1]['a'] if tid and l and l <= len(evs) else 'end'}",
                      {"trace_id": tid, "position": l, "next_event": evs[l - 1] if tid and l and l <= len(evs) else None,
                       "spec_state": walk.tlc.tlaval.to_py(last), "events": evs[:l]})
    ctx.cov["traces_validated_against_impl"] = ntr + sum(s["walks"] for s in ctx.cov.get("graph_replay", []))
    ctx.cov["trace_events"] = nev
    ctx.cov["evaluations"] = nev + total_edges
    ctx.cov["distinct_nontrivial"] = total_edges
    ctx.cov["exhaustive"] = True
    ctx.cov["rule"] = ("exhaustive TLC exploration of FifoSem for the listed constants; every edge of the state graph replayed on the real class; "
                       "random executions validated by TLC; distinct_nontrivial = distinct graph edges replayed")
    ctx.sample({"kind": "impl-trace", "events": json.loads(lines[0])["ev"][:6]})
    ctx.assume("asyncio runs ready callbacks in FIFO order and code between two awaits is atomic (modelled as rq and Step)",
               "waiters are not cancelled (outside the property's quantifier)")
