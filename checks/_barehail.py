"""Load single modules of the `hail` query front end under a BARE package (no `hail/__init__.py`).

`import hail` is impossible offline: the package __init__ runs register_functions/register_aggregators,
which call dtype() (a parsimonious PEG grammar) hundreds of times.  The individual modules the checks
need (hail.expr.types, hail.genetics.call, ...) do load when

  * sys.modules['hail'] and sys.modules['hail.expr'] are pre-seeded with empty ModuleType objects whose
    only attribute is __path__ (the real directories of the working tree), so that neither package
    __init__ is executed,
  * `hail.utils` is imported FIRST (otherwise hail.utils.java <-> hail.expr.types is circular),
  * real numpy is importable (vlib.loader.install() appends /verif/build/pydeps),
  * pandas / parsimonious / py4j / deprecated / pyspark / bokeh / scipy ... are served as inert stubs by
    vlib.loader (loader.INERT).

What works afterwards: every HailType class of hail.expr.types (construction, str(), _convert_to_json /
_convert_from_json, _convert_to_encoding / _convert_from_encoding), hail.genetics.call.Call,
hail.utils.byte_reader/ByteWriter, hail.utils.Struct/frozendict/Interval.
What does NOT work: dtype() (parsing a type string), anything that needs a reference genome or a backend
(tlocus('GRCh37') etc.), hail.expr.expressions.

Usage:
    from checks import _barehail
    H = _barehail.load_types()
    H.types.tcall, H.Call, H.ByteReader, H.ByteWriter, H.encode(t, v) -> bytes, H.decode(t, bytes) -> value
"""
from __future__ import annotations

import importlib
import sys
import types as _pytypes
from types import SimpleNamespace

from vlib import loader

_loaded = None


def _bare(name: str, path):
    m = _pytypes.ModuleType(name)
    m.__path__ = [str(path)]
    m.__package__ = name
    sys.modules[name] = m
    return m


def load_types() -> SimpleNamespace:
    """Idempotent.  Returns a namespace with the loaded modules and two small convenience functions.

    Raises (machinery failure) if the real `hail` package is already in sys.modules (the recipe only works
    in a process that has not tried `import hail`)."""
    global _loaded
    if _loaded is not None:
        return _loaded
    loader.install()
    root = loader.REPO / "hail" / "python" / "hail"
    if not (root / "expr" / "types.py").exists():
        raise RuntimeError(f"{root}/expr/types.py not found")
    have = sys.modules.get("hail")
    if have is not None and getattr(have, "__file__", None):
        raise RuntimeError("the real hail package was imported before _barehail.load_types()")
    if have is None:
        _bare("hail", root)
    if "hail.expr" not in sys.modules:
        sys.modules["hail"].expr = _bare("hail.expr", root / "expr")
    import numpy  # noqa: F401  (must be the real one: types.py uses np.dtype objects at import)

    if not hasattr(numpy, "ndarray") or isinstance(numpy, loader._StubModule):
        raise RuntimeError("numpy resolved to a stub; real numpy must be in /verif/build/pydeps")
    utils = importlib.import_module("hail.utils")  # FIRST: avoids the circular import
    sys.modules["hail"].utils = utils
    types = importlib.import_module("hail.expr.types")
    call = importlib.import_module("hail.genetics.call")
    genetics = importlib.import_module("hail.genetics")
    br = importlib.import_module("hail.utils.byte_reader")

    def encode(t, value) -> bytes:
        """bytes written by t._convert_to_encoding(ByteWriter, value) (the value itself, no missingness byte)"""
        buf = bytearray()
        t._convert_to_encoding(br.ByteWriter(buf), value)
        return bytes(buf)

    def decode(t, data: bytes):
        """value read by t._convert_from_encoding(ByteReader(data)); asserts that all bytes were consumed"""
        r = br.ByteReader(memoryview(data))
        v = t._convert_from_encoding(r)
        if r._offset != len(data):
            raise AssertionError(f"decoder consumed {r._offset} of {len(data)} bytes")
        return v

    _loaded = SimpleNamespace(types=types, call=call, Call=call.Call, genetics=genetics, utils=utils,
                              byte_reader=br, ByteReader=br.ByteReader, ByteWriter=br.ByteWriter,
                              encode=encode, decode=decode, root=root)
    return _loaded
