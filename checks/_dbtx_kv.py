"""Environment for C27: a key-value MySQL stand-in with fault injection, behind the fake aiomysql pool.

`Server` holds the committed store; every `Session` (one per pool.acquire(), i.e. per attempt of a call) has private
pending writes.  A fault plan {(attempt, position): code} says where the server fails; positions are "connect",
"begin", ("stmt", i) and "commit".  Every round trip is logged as one event with the committed store and every
session's pending writes after it -- the same transition system as specs/dbtx/DbTx.tla, which TLC checks event
by event.
"""
from __future__ import annotations

SQL_SET = "UPDATE kv SET v = %s WHERE k = %s"
SQL_INC = "UPDATE kv SET v = v + 1 WHERE k = %s"
SQL_GET = "SELECT v, 0 AS rc FROM kv WHERE k = %s"

# concrete (exception class, errno): what they do to the server side of the connection
#   name            class               errno  dead   tx rolled back
CODES = {
    "op1040": ("OperationalError", 1040, False, False, "Too many connections"),
    "op1213": ("OperationalError", 1213, False, True, "Deadlock found when trying to get lock; try restarting transaction"),
    "op2003": ("OperationalError", 2003, True, False, "Can't connect to MySQL server on 'db' ([Errno 111] Connection refused)"),
    "op2013": ("OperationalError", 2013, True, False, "Lost connection to MySQL server during query ([Errno 104] Connection reset by peer)"),
    "int1205": ("InternalError", 1205, False, False, "Lock wait timeout exceeded; try restarting transaction"),
    # not in the retry tables
    "integ1062": ("IntegrityError", 1062, False, False, "Duplicate entry '1' for key 'PRIMARY'"),
    "prog1064": ("ProgrammingError", 1064, False, False, "You have an error in your SQL syntax"),
    "prog1146": ("ProgrammingError", 1146, False, False, "Table 'batch.kv' doesn't exist"),
    "data1406": ("DataError", 1406, False, False, "Data too long for column 'v' at row 1"),
    "op1045": ("OperationalError", 1045, False, False, "Access denied for user 'batch'@'10.0.0.1' (using password: YES)"),
    "op1142": ("OperationalError", 1142, False, False, "UPDATE command denied to user"),
    "op1317": ("OperationalError", 1317, False, False, "Query execution was interrupted"),
    "int1105": ("InternalError", 1105, False, False, "Unknown error"),
    "notsup1235": ("NotSupportedError", 1235, False, False, "This version of MySQL doesn't yet support ..."),
    "iface0": ("InterfaceError", 0, True, False, ""),
    # undecidable offline (DESIGN.md section 5 C27 "Reading/limit", section 7 item 13): accepted either way
    "op1205": ("OperationalError", 1205, False, False, "Lock wait timeout exceeded; try restarting transaction"),
    "op2006": ("OperationalError", 2006, True, False, "MySQL server has gone away (BrokenPipeError(32, 'Broken pipe'))"),
}
RETRY = ["op1040", "op1213", "op2003", "op2013", "int1205"]
AMBIG = ["op1205", "op2006"]
NORETRY = [c for c in CODES if c not in RETRY and c not in AMBIG]
DEAD = [c for c, v in CODES.items() if v[2]]
TXROLLBACK = [c for c, v in CODES.items() if v[3]]

# spec-level kinds used in the model-checking configuration -> concrete codes
KINDS = {
    "ra": ["int1205", "op1040"],                 # retryable, connection alive, only the statement failed
    "rr": ["op1213"],                            # retryable, server rolled the transaction back
    "rd": ["op2013", "op2003"],                  # retryable, connection dead
    "na": ["integ1062", "prog1064", "prog1146", "data1406", "op1045", "op1142", "op1317", "int1105", "notsup1235"],
    "nd": ["iface0"],                            # not retryable, connection dead
}
KIND_OF = {c: k for k, cs in KINDS.items() for c in cs}


def make_error(code):
    import pymysql.err as perr
    cls, errno, _dead, _rb, msg = CODES[code]
    return getattr(perr, cls)(errno, msg)


class Server:
    def __init__(self, store0, plan, log):
        self.store = dict(store0)
        self.plan = dict(plan)      # {(attempt, pos): code}
        self.sessions = []
        self.log = log              # callable(event dict)
        self.attempt = 0
        self.injected = []
        self.last_exc = None

    def error(self, code):
        self.last_exc = make_error(code)
        return self.last_exc

    def snapshot(self):
        return {"store": dict(self.store), "pend": [dict(s.pend_view()) for s in self.sessions]}

    def event(self, a, **kw):
        e = {"a": a}
        e.update(kw)
        e.update(self.snapshot())
        self.log(e)

    def fault_at(self, attempt, pos):
        code = self.plan.pop((attempt, pos), None)
        if code is not None:
            self.injected.append((attempt, pos, code))
        return code

    # the session factory handed to aiomysql.Pool
    def connect(self):
        self.attempt += 1
        code = self.fault_at(self.attempt, "connect")
        if code is not None:
            self.event("ConnectFault", e=code)
            raise self.error(code)
        s = Session(self, self.attempt, len(self.sessions) + 1)
        self.sessions.append(s)
        self.event("ConnectOk")
        return s


class Session:
    def __init__(self, server, attempt, cid):
        self.server = server
        self.attempt = attempt
        self.cid = cid
        self.keys = sorted(server.store)
        self.pend = {}
        self.state = "open"       # open | dead | closed
        self.begun = False
        self.nstmt = 0
        self.ncommit = 0

    def pend_view(self):
        return {k: self.pend.get(k, -1) for k in self.keys}

    def _hit(self, code):
        _cls, _errno, dead, rb, _msg = CODES[code]
        if dead:
            self.state = "dead"
            self.pend = {}
        elif rb:
            self.pend = {}

    def _usable(self):
        if self.state != "open":
            import pymysql.err as perr
            raise perr.InterfaceError(0, "harness: operation on a connection that is dead or closed")

    def execute(self, sql, args=None):
        srv = self.server
        if sql.startswith("START TRANSACTION"):
            self._usable()
            if self.begun:
                raise RuntimeError("harness: second START TRANSACTION on one connection")
            code = srv.fault_at(self.attempt, "begin")
            if code is not None:
                self._hit(code)
                srv.event("BeginFault", e=code, sql=sql)
                raise srv.error(code)
            self.begun = True
            srv.event("BeginOk", sql=sql)
            return 0, None, None
        self._usable()
        if not self.begun:
            raise RuntimeError("harness: statement outside a transaction")
        self.nstmt += 1
        code = srv.fault_at(self.attempt, ("stmt", self.nstmt))
        if code is not None:
            self._hit(code)
            srv.event("StmtFault", e=code)
            raise srv.error(code)
        val = -1
        rows = None
        rc = 1
        if sql == SQL_SET:
            v, k = args
            self.pend[k] = v
        elif sql == SQL_INC:
            (k,) = args
            self.pend[k] = self.pend.get(k, srv.store[k]) + 1
        elif sql == SQL_GET:
            (k,) = args
            val = self.pend.get(k, srv.store[k])
            rows = [{"v": val, "rc": 0}]
        else:
            raise RuntimeError(f"harness: unknown SQL {sql!r}")
        srv.event("StmtOk", val=val, sql=sql)
        return rc, rows, (self.nstmt if rows is None else None)

    def commit(self):
        srv = self.server
        self._usable()
        code = srv.fault_at(self.attempt, "commit")
        if code is not None:
            self._hit(code)
            srv.event("CommitFault", e=code)
            raise srv.error(code)
        srv.store.update(self.pend)
        self.pend = {}
        self.ncommit += 1
        srv.event("CommitOk")

    def rollback(self):
        # on a lost connection the client-side rollback is a silent no-op (benign reading, DESIGN.md section 7 item 13)
        if self.state == "closed":
            raise RuntimeError("harness: rollback on a closed session")
        self.pend = {}
        self.server.event("Rollback", c=self.cid)

    def close(self):
        if self.state == "closed":
            raise RuntimeError("harness: session closed twice")
        self.pend = {}
        self.state = "closed"
        self.server.event("Close", c=self.cid)
