"""Shared harness pieces for C12 (ResourceFit) and C13 (Billing1024).

Everything cloud-specific that the TLA+ specifications need to know (machine shapes, which VM a pool of a given
worker type / core count is, disk-size tables) is READ FROM THE REPOSITORY'S OWN FUNCTIONS at run time and handed
to TLC as a JSON file (`JsonDeserialize`).  The specifications therefore contain no copy of those tables.
"""
from __future__ import annotations

import json

LIMB = 1 << 20  # bytes are transported as (MiB, bytes) limb pairs: TLC integers are 32 bit
INT_MAX = (1 << 31) - 1
CLOUDS = ("gcp", "azure")


def limbs(nbytes: int):
    hi, lo = divmod(int(nbytes), LIMB)
    if hi > INT_MAX:
        raise OverflowError(f"{nbytes} bytes does not fit two 32-bit limbs")
    return hi, lo


def check_ints(obj, where=""):
    """Machinery guard: every integer shipped to TLC must fit a signed 32-bit integer."""
    if isinstance(obj, bool):
        return
    if isinstance(obj, int):
        if not -INT_MAX <= obj <= INT_MAX:
            raise OverflowError(f"integer {obj} does not fit TLC's 32-bit integers ({where})")
    elif isinstance(obj, dict):
        for k, v in obj.items():
            check_ints(v, f"{where}.{k}")
    elif isinstance(obj, (list, tuple)):
        for v in obj:
            check_ints(v, where)


def cloud_tables():
    """Machine/worker tables of both clouds, computed by calling the repository's functions."""
    from batch.cloud.azure.resource_utils import azure_worker_properties_to_machine_type
    from batch.cloud.gcp.resource_utils import GCP_MACHINE_FAMILY, family_worker_type_cores_to_gcp_machine_type
    from batch.cloud.resource_utils import (
        machine_type_to_cores_and_memory_bytes,
        memory_to_worker_type,
        possible_cores_from_worker_type,
        valid_machine_types,
    )

    from batch.cloud.gcp.resource_utils import machine_type_to_gpu_num

    machines = []
    for cloud in CLOUDS:
        for name in valid_machine_types(cloud):
            cores, mem = machine_type_to_cores_and_memory_bytes(cloud, name)
            hi, lo = limbs(mem)
            machines.append({"cloud": cloud, "name": name, "cores": cores, "mem_mib": hi, "mem_rem": lo,
                             "gpus": machine_type_to_gpu_num(name) if cloud == "gcp" else 0})
    known = {(m["cloud"], m["name"]) for m in machines}
    workers = []
    for cloud in CLOUDS:
        types = sorted(set(memory_to_worker_type(cloud).values()))
        for ty in types:
            for cores in possible_cores_from_worker_type(cloud, ty):
                for ssd in (True, False):
                    if cloud == "gcp":
                        mt = family_worker_type_cores_to_gcp_machine_type(GCP_MACHINE_FAMILY, ty, cores)
                    else:
                        mt = azure_worker_properties_to_machine_type(ty, cores, ssd)
                    workers.append({"cloud": cloud, "type": ty, "cores": cores, "ssd": ssd, "machine": mt,
                                    "known": (cloud, mt) in known})
    t = {"machines": machines, "workers": workers}
    check_ints(t, "tables")
    return t


def write_tables(path, extra=None):
    t = cloud_tables()
    if extra:
        t.update(extra)
    path.write_text(json.dumps(t))
    return t


class CatchAllVersions(dict):
    """latest_product_versions table that knows every product (version '1')."""

    def get(self, k, d=None):  # ProductVersions uses .get()
        from batch.driver.billing_manager import ProductVersionInfo

        return ProductVersionInfo("1", None)


class CatchAllRates(dict):
    """resources table with a rate for every resource; the rate depends on the name so that pools differ in price."""

    def __missing__(self, k):
        return 1e-9 * (1 + (sum(map(ord, k)) % 17))


def product_versions():
    from batch.driver.billing_manager import ProductVersions

    return ProductVersions(CatchAllVersions())


def pool_config(name, p, *, external_gb=100, boot_gb=10):
    """A PoolConfig for the abstract pool p = {cloud,type,cores,pre,label,ssd}."""
    from batch.inst_coll_config import PoolConfig

    return PoolConfig(
        name=name, cloud=p["cloud"], worker_type=p["type"], worker_cores=p["cores"],
        worker_local_ssd_data_disk=p["ssd"], worker_external_ssd_data_disk_size_gb=0 if p["ssd"] else external_gb,
        standing_worker_cores=p["cores"], boot_disk_size_gb=boot_gb, min_instances=0, max_instances=10,
        max_live_instances=10, preemptible=p["pre"], max_new_instances_per_autoscaler_loop=1,
        autoscaler_loop_period_secs=15, worker_max_idle_time_secs=30, standing_worker_max_idle_time_secs=30,
        job_queue_scheduling_window_secs=150, label=p["label"])


def jpim_config(cloud, name="job-private"):
    from batch.inst_coll_config import JobPrivateInstanceManagerConfig

    return JobPrivateInstanceManagerConfig(
        name=name, cloud=cloud, boot_disk_size_gb=10, max_instances=10, max_live_instances=10,
        max_new_instances_per_autoscaler_loop=1, autoscaler_loop_period_secs=15, worker_max_idle_time_secs=30)


def render_amount(a, variant=0):
    """Concrete size strings for the abstract amount {n, f (hundredths), u}; all denote (100n+f)/100 units."""
    n, f, u = a["n"], a["f"], a["u"]
    if f == 0:
        forms = [f"{n}{u}", f"{n}.0{u}", f"+{n}{u}", f"{n}{u}B", f"{n}.00{u}"]
    else:
        frac = f"{f:02d}"
        forms = [f"{n}.{frac.rstrip('0')}{u}", f"{n}.{frac}{u}", f"+{n}.{frac}0{u}", f"{n}.{frac.rstrip('0')}{u}B"]
        if n == 0:
            forms.append(f".{frac.rstrip('0')}{u}")
    return forms[variant % len(forms)]


def render_cpu(mcpu, variant=0):
    """Concrete cpu strings for a whole number of mcpu (only values that are exact binary fractions are used)."""
    forms = [f"{mcpu}m"]
    if mcpu % 1000 == 0:
        forms = [f"{mcpu // 1000}", f"{mcpu}m", f"{mcpu // 1000}.0", f"+{mcpu // 1000}"]
    else:
        s = f"{mcpu / 1000:.3f}".rstrip("0")
        forms = [s, f"{mcpu}m", s + "0", s[1:] if s.startswith("0.") else s]
    return forms[variant % len(forms)]


def parallel_verdict(wd, module, env, cases_key, lines, out_key, nchunks, spec_dirs=("fn",)):
    """Judge `lines` (ndjson case lines) with the ASSUME-only TLA+ module `module`, split round-robin over several
    TLC processes (constant evaluation is single threaded).  Every process gets its own directory, its own share
    of the cases (env[cases_key]) and writes its own verdict (env[out_key]).
    Returns [(indices, verdict_dict)]: indices[j] is the position in `lines` of the chunk's (j+1)-th case line."""
    import concurrent.futures as cf

    from vlib import tlc

    nchunks = max(1, min(nchunks, len(lines)))
    jobs = []
    for k in range(nchunks):
        idx = list(range(k, len(lines), nchunks))
        d = tlc.prepare_dir(wd / f"verdict{k}", list(spec_dirs))
        (d / "cases.ndjson").write_text("".join(lines[i] if lines[i].endswith("\n") else lines[i] + "\n" for i in idx))
        e = dict(env)
        e[cases_key] = d / "cases.ndjson"
        e[out_key] = d / "verdict.json"
        jobs.append((idx, d, e))

    def one(job):
        idx, d, e = job
        tlc.evaluate(d, module, env=e, heap="3g", timeout=3000)
        return idx, json.loads((d / "verdict.json").read_text())

    with cf.ThreadPoolExecutor(max_workers=len(jobs)) as ex:
        return list(ex.map(one, jobs))
