"""C26 - the service cache (gear/gear/time_limited_max_size_cache.py TimeLimitedMaxSizeCache) is bounded, fresh,
single-flight, and a lookup fails only if its own load failed or it was itself cancelled.

Spec specs/cache/TLCache.tla models the class together with asyncio's ready queue, Task.cancel and asyncio.shield,
in two designs selected by the constant Shield: FALSE = waiters await the load task directly (the class as it
stands), TRUE = the load task stores the value itself and every caller awaits a shield (the repaired class).

 (1) TLC checks every property exhaustively on the Shield=TRUE design (plus liveness under fairness).
 (2) TLC checks the Shield=FALSE design: C26_FailOnlyIf has a counter-example there; that counter-example is
     replayed step by step on the real class (full state comparison).  If it replays, the real class violates
     the property.
 (3) B1: the complete labelled state graph is replayed, edge by edge, on the real class (Shield=TRUE graph; if
     the class is not that design, the Shield=FALSE graph).
 (4) B2: long random executions of the real class with more callers/keys/slots (and the scenarios of the
     repository's own test file) are validated by TLC as behaviours of the design the class implements,
     with every invariant evaluated at every step.
"""
from __future__ import annotations

import asyncio
import json
import random
import types

from vlib import loader, tlc, walk
from vlib.vloop import VLoop

from . import _aio

LEVEL = "model_checking"
MANIFEST = {
    "technique": "TLA+ spec TLCache (cache + asyncio ready queue + Task.cancel + shield) checked exhaustively by TLC (invariants + liveness); TLC counter-example of the as-is design replayed on the real class; state-graph replay (B1) and TLC trace validation (B2) against the real TimeLimitedMaxSizeCache on a single-stepped asyncio loop with a virtual clock",
    "text": "All interleavings of concurrent lookups (3 callers, 2 keys), load completions and failures, caller cancellations and clock ticks are explored exhaustively by TLC on the spec; the real class is shown to have the same transition relation on that whole graph (every edge replayed, full state compared), and longer random executions of the real class are accepted by the spec with all invariants (capacity, freshness, single flight, fail-only-if) holding at each step.",
    "note": "Trusts TLC, the virtual event loop (FIFO ready queue, pure-Python tasks), the stand-in for prometheus_async.aio.time (a coroutine awaiting its argument) and the patched clock (the class reads time.monotonic_ns). Age of a value handed over by the caller's own load is 0 by definition; the age of a cached value counts from the moment the class stored it.",
    "design_ref": "DESIGN.md section 5, C26; section 7 item 4",
}

INVS = ["TypeOK", "C26_Bound", "C26_Consistent", "C26_Fresh", "C26_SingleFlight", "C26_NoLoadWhileFresh",
        "C26_FailOnlyIf", "C26_LoadNotCancelled"]
# invariants that speak about the defect of the as-is design (section 7 item 4)
DEFECT_INVS = ["C26_FailOnlyIf", "C26_LoadNotCancelled"]
SIG_DEFECT = "prop:C26_FailOnlyIf:waiter-cancel-cancels-shared-load"


class LoadError(Exception):
    pass


class _Clock(types.SimpleNamespace):
    """Stand-in for the `time` module inside the cache module: every clock the class could read is virtual."""

    def __init__(self, impl):
        super().__init__()
        self._impl = impl

    def monotonic_ns(self):
        return self._impl.clock

    time_ns = perf_counter_ns = monotonic_ns

    def monotonic(self):
        return float(self._impl.clock)

    time = perf_counter = monotonic


class Impl:
    """The real cache under the single-stepped loop.  Callers are tasks `await cache.lookup(k)`; the load function
    awaits a future the harness resolves."""

    def __init__(self, mod, slots, lifetime, callers, keys):
        self.mod = mod
        self.loop = VLoop()
        self.clock = 0
        self.callers, self.keys = tuple(callers), tuple(keys)
        self.shim = mod.time = _Clock(self)
        self.cache = mod.TimeLimitedMaxSizeCache(self.load, lifetime, slots, "verif")
        self.tasks = {}      # caller -> task
        self.key = {}
        self.began = set()
        self.cancelled_by_env = set()
        self.waitfut = {}    # caller -> the future its task waited on
        self.loader_key = {}  # load task -> key
        self.gate_of = {}    # load task -> gate future
        self.last_gate = {}  # key -> newest gate
        self.lval = {k: 0 for k in keys}
        self.nvals = 0

    # ---- what the environment provides
    async def load(self, k):
        t = asyncio.current_task()
        self.loader_key.setdefault(t, k)
        g = self.loop.create_future()
        self.gate_of[t] = g
        self.last_gate[k] = g
        return await g

    async def _caller(self, c, k):
        self.began.add(c)
        return await self.cache.lookup(k)

    # ---- actions
    def call(self, c, k):
        self.key[c] = k
        self.tasks[c] = self.loop.create_task(self._caller(c, k), name=f"c{c}")
        self._scan()

    def cancel(self, c):
        self.cancelled_by_env.add(c)
        self.tasks[c].cancel()
        self._scan()

    def load_done(self, k):
        self.nvals += 1
        self.lval[k] = self.nvals
        self.last_gate[k].set_result(self.nvals)
        self._scan()

    def load_fail(self, k):
        self.last_gate[k].set_exception(LoadError(f"load of {k} failed"))
        self._scan()

    def tick(self):
        self.clock += 1

    def step(self):
        self.mod.time = self.shim
        if not self.loop.step():
            raise RuntimeError("nothing to step")
        self._scan()

    def _scan(self):
        for k, f in list(self.cache._futures.items()):
            self.loader_key.setdefault(f, k)
        for c, t in self.tasks.items():
            w = getattr(t, "_fut_waiter", None)
            if w is not None and not t.done():
                self.waitfut[c] = w

    # ---- projection
    def _caller_of_task(self, t):
        for c, x in self.tasks.items():
            if x is t:
                return c
        return None

    def _caller_of_outer(self, fut):
        for c, w in self.waitfut.items():
            if w is fut:
                return c
        return None

    def _rq(self):
        out = []
        for h in _aio.ready_handles(self.loop):
            t = _aio.handle_task(h)
            if t is not None:
                c = self._caller_of_task(t)
                out.append(("T", c) if c is not None else ("L", self.loader_key.get(t, "?")))
                continue
            name = _aio.handle_fn_name(h)
            if name == "_inner_done_callback":
                out.append(("I", self._caller_of_outer(_aio.closure_vars(h._callback).get("outer")) or "?"))
            elif name == "_outer_done_callback":
                out.append(("O", self._caller_of_outer(h._args[0]) or "?"))
            else:
                out.append(("?", name))
        return tuple(out)

    def _ld(self, k):
        f = self.cache._futures.get(k)
        if f is None:
            return "none"
        if f.done():
            return "fin"
        if getattr(f, "_must_cancel", False):
            return "cancelling"
        g = self.gate_of.get(f)
        if g is None:
            return "new"
        if not g.done():
            return "wait"
        if g.cancelled():
            return "cancelling"
        return "fail" if g.exception() is not None else "ok"

    def _waiters(self, k):
        f = self.cache._futures.get(k)
        if f is None or f.done():
            return ()
        out = []
        for cb, _ctx in list(getattr(f, "_callbacks", []) or []):
            t = getattr(cb, "__self__", None)
            if t is not None and self._caller_of_task(t) is not None:
                out.append(self._caller_of_task(t))
            elif getattr(cb, "__name__", "") == "_inner_done_callback":
                out.append(self._caller_of_outer(_aio.closure_vars(cb).get("outer")) or "?")
            else:
                out.append("?")
        return tuple(out)

    def project(self):
        rq = self._rq()
        inrq = {e[1] for e in rq if e[0] == "T"}
        pc, must, res, outer = {}, {}, {}, {}
        for c in self.callers:
            t = self.tasks.get(c)
            res[c] = 0
            must[c] = bool(getattr(t, "_must_cancel", False)) if t is not None else False
            if t is None:
                pc[c] = "idle"
            elif t.done():
                if t.cancelled():
                    pc[c] = "cancelled"
                elif t.exception() is not None:
                    pc[c] = "failed"
                else:
                    pc[c] = "done"
                    res[c] = t.result()
            elif c not in self.began:
                pc[c] = "start"
            else:
                pc[c] = "woken" if c in inrq else "wait"
            w = self.waitfut.get(c)
            if w is None or hasattr(w, "get_name"):
                outer[c] = "none"
            else:
                outer[c] = "cancelled" if w.cancelled() else ("done" if w.done() else "pending")
        ch = self.cache
        nfl = {k: 0 for k in self.keys}
        for t, k in self.loader_key.items():
            if not t.done() and k in nfl:
                nfl[k] += 1
        return {
            "clock": self.clock,
            "cache": {k: ch._cache.get(k, 0) for k in self.keys},
            "expiry": {k: ch._expiry_time.get(k, 0) for k in self.keys},
            "order": tuple(ch._keys_by_expiry),
            "ld": {k: self._ld(k) for k in self.keys},
            "lval": dict(self.lval),
            "waiters": {k: self._waiters(k) for k in self.keys},
            "pc": pc, "key": {c: self.key.get(c, 0) for c in self.callers}, "must": must, "res": res, "outer": outer,
            "rq": rq, "nvals": self.nvals, "nfl": nfl,
            "envc": {c: c in self.cancelled_by_env for c in self.callers},
        }

    def close(self):
        errs = [e for e in self.loop.errors if "exception was never retrieved" not in str(e.get("message", ""))]
        _aio.shutdown_loop(self.loop)
        if errs:
            raise RuntimeError(f"event loop errors: {errs}")


VIEW_KEYS = ("clock", "cache", "expiry", "order", "ld", "lval", "waiters", "pc", "key", "must", "res", "outer", "rq",
             "nvals", "nfl", "envc")


def view(st):
    out = {}
    for k in VIEW_KEYS:
        v = st[k]
        if k in ("cache", "expiry", "ld", "lval", "pc", "key", "must", "res", "outer", "nfl", "envc"):
            v = _aio.fn(v)
        elif k == "waiters":
            v = {i: tuple(x) for i, x in _aio.fn(v).items()}
        elif k in ("order",):
            v = tuple(v)
        elif k == "rq":
            v = tuple(tuple(e) for e in v)
        out[k] = v
    return out


def apply_edge(impl, name, args, src=None, dst=None):
    if name == "Call":
        impl.call(args[0], args[1])
    elif name == "Cancel":
        impl.cancel(args[0])
    elif name == "LoadDone":
        impl.load_done(args[0])
    elif name == "LoadFail":
        impl.load_fail(args[0])
    elif name == "Tick":
        impl.tick()
    elif name == "Step":
        impl.step()
    else:
        raise RuntimeError(f"unknown action {name}")


def consts(callers, keys, slots, lifetime, maxtime, maxcancels, maxfails, idle_tick, shield):
    return {"Callers": _aio.tla_set(range(1, callers + 1)), "Keys": _aio.tla_set(range(1, keys + 1)), "Slots": slots,
            "Lifetime": lifetime, "MaxTime": maxtime, "MaxVals": callers, "MaxCancels": maxcancels, "MaxFails": maxfails,
            "TickWhenIdleOnly": "TRUE" if idle_tick else "FALSE", "Shield": "TRUE" if shield else "FALSE"}


# ---- B2: random executions of the real class -------------------------------------------------------------
def random_trace(mod, rng, ncallers, nkeys, slots, lifetime, maxtime, nsteps, idle_tick=False, script=None):
    impl = Impl(mod, slots, lifetime, range(1, ncallers + 1), range(1, nkeys + 1))
    ev = []
    used = 0
    for _ in range(nsteps):
        ops = []
        idle = [c for c in impl.callers if c not in impl.tasks]
        if idle:
            ops += [("Call", idle[0], rng.randint(1, min(nkeys, used + 1)))] * 3
        for c, t in impl.tasks.items():
            if not t.done() and c not in impl.cancelled_by_env:
                ops.append(("Cancel", c, 0))
        for k in impl.keys:
            if impl._ld(k) == "wait":
                ops += [("LoadDone", 0, k)] * 3 + [("LoadFail", 0, k)]
        ready = bool(impl.loop.pending_ready())
        if impl.clock < maxtime and (not idle_tick or not ready):
            ops += [("Tick", 0, 0)] * 2
        if ready:
            ops += [("Step", 0, 0)] * 8
        if not ops:
            break
        a, c, k = rng.choice(ops)
        if a == "Call":
            used = max(used, k)
            impl.call(c, k)
        elif a == "Cancel":
            impl.cancel(c)
        elif a == "LoadDone":
            impl.load_done(k)
        elif a == "LoadFail":
            impl.load_fail(k)
        elif a == "Tick":
            impl.tick()
        else:
            impl.step()
        ev.append({"a": a, "c": c, "k": k, "post": post_json(impl.project())})
    impl.close()
    return ev


def post_json(p):
    return {"clock": p["clock"], "cache": [p["cache"][k] for k in sorted(p["cache"])],
            "expiry": [p["expiry"][k] for k in sorted(p["expiry"])], "order": list(p["order"]),
            "ld": [p["ld"][k] for k in sorted(p["ld"])], "waiters": [list(p["waiters"][k]) for k in sorted(p["waiters"])],
            "pc": [p["pc"][c] for c in sorted(p["pc"])], "must": [p["must"][c] for c in sorted(p["must"])],
            "res": [p["res"][c] for c in sorted(p["res"])], "outer": [p["outer"][c] for c in sorted(p["outer"])],
            "rq": [[e[0], e[1]] for e in p["rq"]], "nfl": [p["nfl"][k] for k in sorted(p["nfl"])]}


def scripted_traces(mod):
    """The scenarios of the repository's batch/test/test_time_limited_max_size_cache.py, driven through the same
    harness (sequential lookups = call then run to quiescence; loads complete at once; sleeps = ticks)."""
    out = []

    def run(slots, lifetime, ncallers, nkeys, script):
        impl = Impl(mod, slots, lifetime, range(1, ncallers + 1), range(1, nkeys + 1))
        ev = []

        def log(a, c=0, k=0):
            ev.append({"a": a, "c": c, "k": k, "post": post_json(impl.project())})

        def drain():
            while True:
                while impl.loop.pending_ready():
                    impl.step()
                    log("Step")
                pend = [k for k in impl.keys if impl._ld(k) == "wait"]
                if not pend:
                    return
                for k in pend:
                    if fail_keys and k in fail_keys:
                        impl.load_fail(k)
                        log("LoadFail", 0, k)
                    else:
                        impl.load_done(k)
                        log("LoadDone", 0, k)

        c = 0
        fail_keys = set()
        for op in script:
            if op[0] == "lookup":
                c += 1
                impl.call(c, op[1])
                log("Call", c, op[1])
                drain()
            elif op[0] == "spawn":
                c += 1
                impl.call(c, op[1])
                log("Call", c, op[1])
            elif op[0] == "drain":
                drain()
            elif op[0] == "fail":
                fail_keys.add(op[1])
            elif op[0] == "sleep":
                for _ in range(op[1]):
                    impl.tick()
                    log("Tick")
        impl.close()
        return {"ev": ev, "Callers": ncallers, "Keys": nkeys, "Slots": slots, "Lifetime": lifetime}

    # (the clock does not advance in the scenarios without a sleep, so any lifetime stands for "one day")
    # test_simple / test_num_slots: keys 3,10,3,3,10,4 -> 1,2,1,1,2,3 with two slots (last load fails in test_num_slots)
    out.append(run(2, 1, 9, 4, [("lookup", 1), ("lookup", 2), ("lookup", 1), ("lookup", 1), ("lookup", 2), ("lookup", 3)]))
    out.append(run(2, 1, 9, 4, [("lookup", 1), ("lookup", 2), ("lookup", 1), ("lookup", 1), ("lookup", 2), ("fail", 3), ("lookup", 3)]))
    # test_lifetime: lifetime 1 s, sleep 2 s between the second and third lookup
    out.append(run(3, 1, 9, 4, [("lookup", 1), ("lookup", 2), ("sleep", 2), ("lookup", 1), ("lookup", 3), ("lookup", 2), ("lookup", 1), ("lookup", 2)]))
    # test_num_slots_deletes_oldest: 0,1,1,2,3,3,2,1,0 -> keys 1..4, three slots
    out.append(run(3, 1, 9, 4, [("lookup", 1), ("lookup", 2), ("lookup", 2), ("lookup", 3), ("lookup", 4), ("lookup", 4), ("lookup", 3), ("lookup", 2), ("lookup", 1)]))
    # test_exception_propagates_everywhere: three concurrent lookups of one key whose load fails
    out.append(run(3, 1, 9, 4, [("fail", 1), ("spawn", 1), ("spawn", 1), ("spawn", 1), ("drain",)]))
    return out


def run(ctx):
    loader.install()
    import gear.time_limited_max_size_cache as mod

    real_time = mod.time
    try:
        _run(ctx, mod)
    finally:
        mod.time = real_time


def _tlc_trace_detail(v):
    return [(h, _aio.py(s) if s else None) for h, s in v.trace]


def _run(ctx, mod):
    wd = tlc.prepare_dir(ctx.build / "tlc", ["cache"])
    ctx.assume("asyncio runs ready callbacks in FIFO order and code between two awaits is atomic (modelled as rq and Step)",
               "prometheus_async.aio.time(metric, awaitable) awaits its argument and returns its result (vlib/stubs/prometheus_async)",
               "the class reads time only through time.monotonic_ns(), patched to an integer virtual clock",
               "the environment never cancels a load task itself; a load ends by returning or raising",
               "each caller task performs one lookup and is cancelled at most once")

    # configurations: (callers, keys, slots, lifetime, maxtime, maxcancels, maxfails, idle_tick)
    if ctx.quick:
        cfgs = [(2, 2, 1, 2, 2, 1, 1, True), (3, 1, 1, 1, 1, 1, 1, True)]
    else:
        cfgs = [(2, 2, 1, 2, 3, 2, 1, False), (3, 1, 1, 1, 2, 2, 1, False), (3, 2, 1, 1, 1, 1, 1, True)]

    def mk(impl_consts):
        return lambda: Impl(mod, impl_consts[2], impl_consts[3], range(1, impl_consts[0] + 1), range(1, impl_consts[1] + 1))

    # ---- (1) the repaired design satisfies every property ------------------------------------------------
    graphs = {}
    for n, cfg in enumerate(cfgs):
        cs = consts(*cfg, shield=True)
        (wd / f"S{n}.cfg").write_text(tlc.mk_cfg(constants=cs, invariants=INVS))
        res = tlc.run(wd, "TLCache", f"S{n}.cfg", workers=min(4, ctx.workers), coverage=True, dump=f"gs{n}")
        ctx.add_tlc(res, f"exhaustive TLCache Shield=TRUE callers={cfg[0]} keys={cfg[1]} slots={cfg[2]} lifetime={cfg[3]} maxtime={cfg[4]} cancels<={cfg[5]} fails<={cfg[6]}")
        ctx.require_covered(res, ["Call", "Cancel", "LoadDone", "LoadFail", "Tick", "Step"], "TLCache")
        for v in res.violations:
            ctx.violation(f"spec:{v.name}", {"config": cs, "trace": _tlc_trace_detail(v)})
        if res.violations:
            return
        graphs[n] = tlc.parse_dot(wd / f"gs{n}.dot")
    # vacuity: the situations the properties speak about are reachable (read off TLC's state dumps)
    reach = {"a_lookup_failed": False, "one_waiter_cancelled_while_another_gets_the_value": False, "reload_after_expiry": False,
             "cache_hit_of_an_aged_value": False, "eviction": False, "join_in_flight": False}
    for n in graphs:
        for st in graphs[n].nodes.values():
            pc, lres, res, key, age = st["pc"], st["lres"], st["res"], st["key"], st["age"]
            C = range(len(pc))
            reach["a_lookup_failed"] |= "failed" in pc
            reach["one_waiter_cancelled_while_another_gets_the_value"] |= any(
                pc[c] == "cancelled" and any(d != c and key[d] == key[c] and pc[d] == "done" and lres[d] == "ok" for d in C) for c in C)
            reach["reload_after_expiry"] |= any(pc[c] == "done" and res[c] > 1 and any(d != c and key[d] == key[c] and res[d] == 1 for d in C) for c in C)
            reach["cache_hit_of_an_aged_value"] |= any(pc[c] == "done" and lres[c] == "none" and age[c] > 0 for c in C)
            reach["eviction"] |= st["nvals"] >= 2 and any(st["cache"][k] == 0 and (k + 1) in st["vkey"] for k in range(len(st["cache"])))
            reach["join_in_flight"] |= any(len(w) >= 2 for w in st["waiters"])
    if not all(reach.values()):
        raise RuntimeError(f"vacuity: unreachable situations {[k for k, v in reach.items() if not v]}")
    ctx.cov["reachable_situations"] = sorted(reach)
    # liveness under fairness on the smallest configuration
    lcs = consts(2, 2, 1, 2, 1, 1, 1, True, shield=True)
    (wd / "Live.cfg").write_text(tlc.mk_cfg(spec="FairSpec", constants=lcs, properties=["C26_Live"]))
    lres = tlc.run(wd, "TLCache", "Live.cfg", workers=min(4, ctx.workers))
    ctx.add_tlc(lres, "liveness C26_Live under WF(Step), WF(LoadDone or LoadFail), Shield=TRUE")
    for v in lres.violations:
        ctx.violation(f"spec-liveness:{v.name}", {"config": lcs, "trace": _tlc_trace_detail(v)})

    # ---- (2) the as-is design violates C26_FailOnlyIf in the model; does the counter-example replay on the class?
    cfg0 = cfgs[0]
    cs0 = consts(*cfg0, shield=False)
    (wd / "D_cex.cfg").write_text(tlc.mk_cfg(constants=cs0, invariants=["C26_FailOnlyIf"]))
    dres = tlc.run(wd, "TLCache", "D_cex.cfg", workers=1)
    ctx.add_tlc(dres, "TLCache Shield=FALSE (waiters await the load task directly): search for a counter-example to C26_FailOnlyIf")
    if not dres.violations:
        raise RuntimeError("discrimination lost: C26_FailOnlyIf holds on the direct-await design")
    cex = dres.violations[0]
    ok, info = _aio.replay_trace(cex.trace, mk(cfg0), apply_edge, lambda i: i.project(), view)
    ctx.cov["as_is_design_counterexample"] = {"invariant": cex.name, "length": len(cex.trace), "actions": [h for h, _ in cex.trace[1:]],
                                              "replays_on_real_class": ok}
    defect = False
    if ok:
        defect = True
        final = info["final"]
        victims = [c for c in final["pc"] if final["pc"][c] in ("failed", "cancelled") and not final["envc"][c]]
        ctx.violation(SIG_DEFECT, {"tlc_counterexample": [h for h, _ in cex.trace[1:]], "final_state_of_real_class": final,
                                   "callers_failed_without_cause": victims,
                                   "explanation": "cancelling one caller of lookup() cancels the shared load task; the other callers get CancelledError although their load did not fail and they were not cancelled"})
        ctx.sample({"kind": "counterexample-replayed", "actions": [h for h, _ in cex.trace[1:]], "victims": victims})
    else:
        ctx.sample({"kind": "counterexample-of-as-is-design-not-reproducible", "actions": [h for h, _ in cex.trace[1:]], "diverges": {k: info[k] for k in ("at", "action") if k in info}})

    # ---- (3) B1: graph replay --------------------------------------------------------------------------------
    total_edges = 0
    variant = None
    rep = []
    for n, cfg in enumerate(cfgs):
        g = graphs[n]
        stats, mism = walk.replay_graph(g, mk(cfg), apply_edge, lambda i: i.project(), view=view, rng=random.Random(ctx.seed))
        rep.append({"design": "shield", "config": consts(*cfg, shield=True), **stats, "mismatches": len(mism)})
        if mism:
            shield_mism = mism
            break
        if stats["edges_covered"] != stats["edges"]:
            raise RuntimeError(f"graph not covered: {stats}")
        total_edges += stats["edges_covered"]
        if n == 0 and g.edges:
            e = g.edges[len(g.edges) // 2]
            ctx.sample({"kind": "graph-edge", "edge": e[1], "target": view(g.nodes[e[2]])})
    else:
        variant = True
    if variant is None:
        # not the repaired design: is it the as-is design?
        direct_mism = []
        for n, cfg in enumerate(cfgs):
            cs = consts(*cfg, shield=False)
            (wd / f"D{n}.cfg").write_text(tlc.mk_cfg(constants=cs, invariants=[i for i in INVS if i not in DEFECT_INVS]))
            res = tlc.run(wd, "TLCache", f"D{n}.cfg", workers=min(4, ctx.workers), coverage=True, dump=f"gd{n}")
            ctx.add_tlc(res, f"exhaustive TLCache Shield=FALSE {cs} (all invariants except those of section 7 item 4)")
            for v in res.violations:
                ctx.violation(f"prop:{v.name}:as-is-design", {"config": cs, "trace": _tlc_trace_detail(v)})
            g = tlc.parse_dot(wd / f"gd{n}.dot")
            stats, mism = walk.replay_graph(g, mk(cfg), apply_edge, lambda i: i.project(), view=view, rng=random.Random(ctx.seed))
            rep.append({"design": "direct", "config": cs, **stats, "mismatches": len(mism)})
            if mism:
                direct_mism = mism
                break
            if stats["edges_covered"] != stats["edges"]:
                raise RuntimeError(f"graph not covered: {stats}")
            total_edges += stats["edges_covered"]
            if n == 0 and g.edges:
                e = g.edges[len(g.edges) // 2]
                ctx.sample({"kind": "graph-edge", "edge": e[1], "target": view(g.nodes[e[2]])})
        else:
            variant = False
        if variant is None:
            for m in shield_mism:
                ctx.violation(_aio.mismatch_sig("replay[shield]", m), {"path": m.path, "diff": m.diff})
            for m in direct_mism:
                ctx.violation(_aio.mismatch_sig("replay[direct]", m), {"path": m.path, "diff": m.diff})
        elif not defect:
            raise RuntimeError("class conforms to the direct-await design but the counter-example did not replay")
    ctx.cov["graph_replay"] = rep
    ctx.cov["design_implemented"] = {True: "shield (repaired)", False: "direct await (as in the repository)", None: "neither"}[variant]

    # ---- (4) B2: trace validation -------------------------------------------------------------------------------
    shield = variant is not False
    ntr, ncall, nkeys, slots, lifetime, maxtime, nsteps = (150, 6, 3, 2, 2, 6, 70) if ctx.quick else (2500, 8, 3, 2, 2, 8, 110)
    rng = random.Random(ctx.seed * 7919 + 26)
    lines = []
    for i in range(ntr):
        sl = slots if (ctx.quick or i % 3) else 1
        ev = random_trace(mod, rng, ncall, nkeys, sl, lifetime, maxtime, nsteps)
        lines.append({"ev": ev, "Slots": sl, "Lifetime": lifetime})
    scripted = scripted_traces(mod)
    invs = [i for i in INVS if shield or i not in DEFECT_INVS]
    nev = 0
    groups = {}
    for tr in lines:
        groups.setdefault((ncall, nkeys, tr["Slots"], tr["Lifetime"], maxtime), []).append(tr)
    for tr in scripted:
        groups.setdefault((tr["Callers"], tr["Keys"], tr["Slots"], tr["Lifetime"], 4), []).append(tr)
    for gi, ((nc, nk, sl, lt, mt), trs) in enumerate(sorted(groups.items())):
        tf = wd / f"traces{gi}.ndjson"
        tf.write_text("\n".join(json.dumps({"ev": t["ev"]}) for t in trs) + "\n")
        cs = consts(nc, nk, sl, lt, mt, nc, nc, False, shield=shield)
        (wd / f"Trace{gi}.cfg").write_text(tlc.mk_cfg(spec="TraceSpec", constants=cs, invariants=invs, deadlock=True))
        tres = tlc.run(wd, "TLCacheTrace", f"Trace{gi}.cfg", workers=min(4, ctx.workers), env={"TRACE_FILE": tf})
        n_ev = sum(len(t["ev"]) for t in trs)
        nev += n_ev
        ctx.add_tlc(tres, f"trace validation of {len(trs)} executions of the real class (callers={nc} keys={nk} slots={sl} lifetime={lt}) against Shield={shield}")
        if not tres.violations and tres.distinct < n_ev:
            raise RuntimeError(f"trace validation explored {tres.distinct} states for {n_ev} events")
        for v in tres.violations:
            last = v.trace[-1][1] if v.trace else {}
            tid, l = last.get("tid"), last.get("l")
            evs = trs[tid - 1]["ev"] if tid else []
            nxt = evs[l - 1] if tid and l and l <= len(evs) else None
            if v.kind == "invariant":
                sig = SIG_DEFECT if v.name in DEFECT_INVS else f"prop:{v.name}"
            else:
                sig = f"trace:{v.kind}:{nxt['a'] if nxt else 'end'}"
            ctx.violation(sig, {"trace_id": tid, "position": l, "next_event": nxt, "spec_state": _aio.py(last), "events": evs[:l]})
    ctx.cov["traces_validated_against_impl"] = len(lines) + len(scripted) + sum(r["walks"] for r in rep if not r["mismatches"]) + 1
    ctx.cov["trace_events"] = nev
    ctx.cov["repo_test_scenarios_validated"] = len(scripted)
    ctx.cov["evaluations"] = nev + total_edges
    ctx.cov["distinct_nontrivial"] = total_edges
    ctx.cov["exhaustive"] = True
    ctx.cov["rule"] = ("exhaustive TLC exploration of TLCache for the listed constants; every edge of the state graph replayed on the real class "
                       "with full state comparison; random and scripted executions validated by TLC; distinct_nontrivial = distinct graph edges replayed")
    ctx.sample({"kind": "impl-trace", "events": lines[0]["ev"][:5]})
