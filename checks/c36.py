"""C36 - the types the query front end reports agree with the types implied by the IR it builds; literals carry
a type their Python value satisfies.

Specs: specs/fetypes/FrontEndTypes.tla (type terms, Python values, Satisfies / Imp, expression programs, the API
typing rule Ty, the universe, Gen / Verdict), FrontEndTables.tla and FrontEndMatrix.tla (the Table / MatrixTable
state machines: reported type `fe`, IR-implied type `ir`, invariant fe = ir).

(1) B3: TLC enumerates literal values and expression / aggregation programs, checks the model's own property on
    them, the harness builds every one with the real hl.* API (whole `hail` package imported offline) and records
    reported type, IR type, node-by-node IR recomputation, the code's whole-tree recomputation; TLC judges every
    recorded case.
(2) B1: TLC explores the table and matrix-table machines exhaustively (invariants), dumps the labelled graphs, and
    every edge is replayed on real Table / MatrixTable objects with the full type state compared after each step.
(3) thorough tier: larger universes and vocabularies, and long random programs of the two machines written by
    TLC's simulator are replayed too.

The real front end runs in worker processes (`python -m checks.c36 worker <job.json>`), side by side with the TLC
processes.
"""
from __future__ import annotations

import json
import os
import random
import re
import subprocess
import sys
import time
from concurrent.futures import ThreadPoolExecutor
from pathlib import Path

from vlib import tlaval, tlc, walk

from checks import _fetypes as F

LEVEL = "model_checking"
MANIFEST = {
    "technique": "TLA+ typing specification (FrontEndTypes/FrontEndTables/FrontEndMatrix) evaluated and model-checked by TLC; "
                 "call/return conformance (B3) of every generated literal / expression / aggregation program and state-graph "
                 "replay (B1) of the Table and MatrixTable type machines against the real hail front end imported offline",
    "text": "TLC enumerates a bounded universe of Python literal values (to nesting depth 3, ints at the 32/64-bit borders, "
            "missing, falsy and heterogeneous containers, explicit dtypes), expression programs (one to three nested API calls "
            "over literals, row and global fields, lambdas, aggregators) and all action sequences of a Table and a MatrixTable "
            "type machine over a small vocabulary; the model's own property (API type = IR type; value satisfies imputed type) "
            "is checked by TLC; every program is then built with the real API and the reported type, the IR type, a "
            "node-by-node recomputation of the IR types and the specification's type are compared (verdict by TLC, graph "
            "replay by the harness).",
    "note": "Trusts TLC + CommunityModules; the MiniPEG stand-in that lets `import hail` work offline; the front end's own "
            "IR typing rules (_compute_type) as the meaning of 'type implied by the IR' (the Scala engine is not run; "
            "registered functions carry the return type the front end assigns, and a Table's reported type is read from its "
            "TableIR, so for those the IR side is not independent and only the specification's rule judges). Programs the "
            "front end refuses are outside the quantifier and only counted.",
    "design_ref": "DESIGN.md section 5, C36",
}

VERIF = Path(__file__).resolve().parent.parent
REPLAY_APPLIES = {}
WIRE_DROP = ("exc", "root")

# ---------------------------------------------------------------------------------------------------
# constants of the two machines per tier
TABLE_CONSTS = {
    0: {"NewNames": '{"a", "b"}', "TplNames": '{"one", "flt", "str", "aplusb", "arridx"}',
        "KeyTplNames": '{"stra", "idxmod"}', "AggNames": '{"count", "suma", "collectb"}',
        "MaxSteps": 2, "MaxFields": 4, "MaxTypeDepth": 1},
    1: {"NewNames": '{"a", "b", "c"}',
        "TplNames": '{"one", "big", "flt", "str", "idxmul", "a", "aplusb", "arra", "arridx", "structb", "adivb", "cond", "lena", "setc"}',
        "KeyTplNames": '{"stra", "idxmod", "str", "structb", "flt"}',
        "AggNames": '{"count", "suma", "collectb", "maxidx", "meana", "ratio", "counterb"}',
        "MaxSteps": 2, "MaxFields": 5, "MaxTypeDepth": 2},
}
MATRIX_CONSTS = {
    0: {"RowNew": '{"ra"}', "ColNew": '{"ca"}', "EntryNew": '{"e", "f"}', "RowTpl": '{"flt", "arr_ridx", "ridxstr"}',
        "ColTpl": '{"cidxstr"}', "EntryTpl": '{"prod", "eplusra"}', "AggTplNames": '{"count", "sume"}',
        "MaxSteps": 2, "MaxFields": 3},
    1: {"RowNew": '{"ra", "rb"}', "ColNew": '{"ca", "cb"}', "EntryNew": '{"e", "f"}',
        "RowTpl": '{"one", "flt", "ridxmul", "arr_ra", "arr_ridx", "ridxstr", "ra", "g", "ridxmod"}',
        "ColTpl": '{"cidxstr", "one", "cidxmod", "ca", "str", "arr_cidx"}',
        "EntryTpl": '{"prod", "eplusra", "str", "e", "estruct", "flt"}', "AggTplNames": '{"count", "sume", "collecte", "meane", "maxcidx"}',
        "MaxSteps": 2, "MaxFields": 4},
}
# simulation (thorough): longer programs over the large vocabulary
SIM_STEPS = 7
MACHINES = {
    "table": ("FrontEndTables", TABLE_CONSTS, ["C36_Agree", "C36_WF", "TypeOK"]),
    "matrix": ("FrontEndMatrix", MATRIX_CONSTS, ["C36M_Agree", "C36M_WF", "TypeOK"]),
}
WANT_ACTIONS = {
    "table": {"Annotate", "Select", "KeyBy", "KeyByExpr", "Drop", "Rename", "Transmute", "Explode", "GroupAgg", "Join",
              "AnnotateIndex", "AddIndex", "AnnotateGlobals", "OrderBy"},
    "matrix": {"AnnotateRows", "AnnotateRowsAgg", "AnnotateCols", "AnnotateEntries", "SelectRows", "SelectEntries", "KeyRowsBy",
               "KeyColsByExpr", "Drop", "Rename", "TransmuteEntries", "ExplodeRows", "GroupRowsAgg", "GroupColsAgg",
               "AnnotateRowsIndex", "AddRowIndex"},
}


# ---------------------------------------------------------------------------------------------------
# worker side (separate interpreter: `python -m checks.c36 worker job.json`)
def _worker_cases(job):
    F.setup()
    failure = None
    try:
        h = F.ExprHarness()      # builds the base table with the API: already a program of the front end
    except BaseException as ex:  # noqa: BLE001
        h, failure = None, list(F.classify_exception(ex))
    out = []
    with open(job["in"]) as f:
        for line in f:
            c = json.loads(line)
            if c["kind"] in ("lit", "litT"):
                out.append(F.run_literal(c))
            elif h is not None:
                out.append(h.run(c))
    with open(job["out"], "w") as f:
        for r in out:
            f.write(json.dumps(r) + "\n")
        f.write(json.dumps({"_meta": True, "nodes": h.nodes if h else 0, "norule": h.norule if h else 0, "setup_failure": failure,
                            "applies": list(F.APPLY_LOG.values())}) + "\n")


def _load_walks(job):
    """-> (graph or None, list of walks [(src_state_or_None, label, dst_state)])"""
    if job.get("graph"):
        g = tlc.parse_dot(job["graph"])
        ws = walk.cover_walks(g, rng=random.Random(job["seed"]))
        return [[(s, lab, d, g.nodes[d]) for (s, lab, d) in w] for w in ws]
    ws = []
    for p in job["traces"]:
        steps = tlc.parse_sim_trace_file(p)
        w = []
        for i, (hdr, st) in enumerate(steps):
            if i == 0:
                continue
            m = re.match(r"(\w+(?:\(.*\))?)", hdr or "")
            w.append((f"{p}:{i - 1}", m.group(1) if m else hdr, f"{p}:{i}", st))
        ws.append(w)
    return ws


def _worker_replay(job):
    """Replay this worker's share of the walks of one machine on real Table / MatrixTable objects."""
    F.setup()
    kind = job["kind"]
    tpl = json.loads(Path(job["tpl"]).read_text())
    Impl, view = (F.TableImpl, F.spec_table_view) if kind == "table" else (F.MatrixImpl, F.spec_matrix_view)
    ws = _load_walks(job)
    out = {"steps": 0, "edges": [], "nodes": 0, "rejected": [], "mismatch": [], "walks": 0, "total_walks": len(ws), "actions": {},
           "setup_failure": None}
    verified, seen, bad_edges = {}, set(), set()
    try:
        others = F.other_tables()
        Impl(tpl, others, verified).project()
    except BaseException as ex:  # noqa: BLE001
        out["setup_failure"] = list(F.classify_exception(ex))
        Path(job["out"]).write_text(json.dumps(out))
        return
    edges = set()
    for wi in range(job["part"], len(ws), job["parts"]):
        impl = Impl(tpl, others, verified)
        path = []
        out["walks"] += 1
        ok = True
        for (src, lab, dst, dst_state) in ws[wi]:
            name, args = tlc.parse_action_label(lab)
            path.append(lab)
            F.CONTEXT[0] = f"{kind} machine: " + " ; ".join(path)
            if (src, lab, dst) in bad_edges:       # already reported: what follows it is not judged again
                ok = False
                break
            first = (src, lab, dst) not in seen
            seen.add((src, lab, dst))
            bad_edges.add((src, lab, dst))          # removed again when the step passes
            try:
                impl.apply(name, tuple(tlaval.to_py(a) for a in args))
                got = impl.project(derived=first)
            except BaseException as ex:  # noqa: BLE001
                st, msg = F.classify_exception(ex)
                (out["mismatch"] if st == "assert" else out["rejected"]).append(
                    {"kind": kind, "why": st, "action": name, "path": list(path), "exception": msg})
                ok = False
                break
            out["steps"] += 1
            out["actions"][name] = out["actions"].get(name, 0) + 1
            edges.add((src, lab, dst))
            exp = view(tlaval.to_py(dst_state))
            if "proj" not in got:
                exp.pop("proj", None)
            if impl.bad_nodes:
                out["mismatch"].append({"kind": kind, "why": "ir-node", "action": name, "path": list(path), "nodes": impl.bad_nodes[:3]})
                ok = False
                break
            if got != exp:
                diff = {k: {"impl": got[k], "spec": exp[k]} for k in got if got[k] != exp[k]}
                pj = got.get("proj", {})
                why = "reported-vs-ir" if got["fe"] != got["ir"] or pj.get("fe") != pj.get("ir") else "spec"
                out["mismatch"].append({"kind": kind, "why": why, "action": name, "path": list(path), "diff": diff})
                ok = False
                break
            if first:
                d = impl.deep()      # the code's own whole-tree recomputation, once per distinct edge
                if d:
                    out["mismatch"].append({"kind": kind, "why": "ir-deep", "action": name, "path": list(path), "exception": d})
                    ok = False
                    break
            bad_edges.discard((src, lab, dst))
        out["nodes"] += impl.nodes
    out["edges"] = [list(e) for e in edges]
    out["applies"] = list(F.APPLY_LOG.values())
    Path(job["out"]).write_text(json.dumps(out))


def worker_main(jobfile):
    job = json.loads(Path(jobfile).read_text())
    {"cases": _worker_cases, "replay": _worker_replay}[job["what"]](job)


def spawn_worker(job, jobfile):
    Path(jobfile).write_text(json.dumps(job))
    env = dict(os.environ)
    env.setdefault("PYTHONHASHSEED", "0")
    p = subprocess.run([sys.executable, "-m", "checks.c36", "worker", str(jobfile)], cwd=VERIF, env=env, capture_output=True, text=True)
    if p.returncode != 0:
        raise RuntimeError(f"worker {jobfile} failed:\n{p.stderr[-3000:]}")
    return job


# ---------------------------------------------------------------------------------------------------
def _tlc_eval(args):
    """constant evaluation of an ASSUME-only module (as tlc.evaluate, with a JVM sized for running side by side)"""
    wd, module, env = args
    (wd / "eval.cfg").write_text("")
    # short single-threaded runs: serial GC and the C1 compiler only (a third of the CPU time of the defaults)
    res = tlc.run(wd, module, "eval.cfg", workers=1, env=env, heap="3g", timeout=2400,
                  java_opts=("-XX:-UseParallelGC", "-XX:+UseSerialGC", "-XX:TieredStopAtLevel=1"))
    if res.violations:
        raise tlc.TLCFailure(f"evaluation of {module} failed: {[v.name for v in res.violations]}\n{res.out[-2000:]}")
    return res.out


def _tlc_agree(args):
    """The model's own property on one part of the expression universe: IrTy(Lower(e)) = Ty(e).  -> (part, n, accepted, counter-example)"""
    wd, module, env = args
    (wd / "eval.cfg").write_text("")
    res = tlc.run(wd, module, "eval.cfg", workers=1, env=env, heap="3g", timeout=2400,
                  java_opts=("-XX:-UseParallelGC", "-XX:+UseSerialGC", "-XX:TieredStopAtLevel=1"))
    m = re.search(r'<<"agree", "(\w+)", (\d+), (\d+)>>', res.out)
    if not m:
        raise tlc.TLCFailure(f"agree: no size line\n{res.out[-2000:]}")
    bad = None
    if res.violations:
        i = res.out.find('<<"disagree"')
        bad = res.out[i:i + 1500] if i >= 0 else res.out[-1500:]
    return m.group(1), int(m.group(2)), int(m.group(3)), bad


def machine_tlc(args):
    """Exhaustive model check of one machine + graph dump.  -> (kind, wd, TLCResult)"""
    build, kind, level, workers = args
    module, consts, invs = MACHINES[kind]
    wd = tlc.prepare_dir(build / f"mc_{kind}", ["fetypes"])
    (wd / "MC.cfg").write_text(tlc.mk_cfg(constants=consts[level], invariants=invs))
    res = tlc.run(wd, module, "MC.cfg", workers=workers, dump="g", env={"FE_LEVEL": level, "FE_TPL": wd / "tpl.json"}, heap="6g",
                  java_opts=("-XX:ParallelGCThreads=4",), timeout=3000)
    return kind, wd, res


def machine_sim(args):
    """Random long programs of one machine (TLC simulator, invariants checked on the way), written as trace files."""
    build, kind, seed, ntraces = args
    module, consts, invs = MACHINES[kind]
    wd = tlc.prepare_dir(build / f"sim_{kind}", ["fetypes"])
    c = dict(consts[1])
    c["MaxSteps"] = SIM_STEPS
    if kind == "table":
        c["MaxFields"] = 6
    (wd / "Sim.cfg").write_text(tlc.mk_cfg(constants=c, invariants=invs))
    res = tlc.run(wd, module, "Sim.cfg", workers=4, simulate=f"file={wd}/tr,num={ntraces}", depth=SIM_STEPS + 1, seed=seed,
                  env={"FE_LEVEL": 1, "FE_TPL": wd / "tpl.json"}, heap="4g", java_opts=("-XX:ParallelGCThreads=4",), timeout=3000)
    traces = sorted(str(p) for p in wd.glob("tr_*"))
    return kind, wd, res, traces


def replay(pool, build, kind, wd, seed, nworkers, traces=None, tag="graph"):
    """-> list of futures of worker jobs"""
    futs = []
    for part in range(nworkers):
        job = {"what": "replay", "kind": kind, "tpl": str(wd / "tpl.json"), "seed": seed, "part": part, "parts": nworkers,
               "out": str(wd / f"replay_{tag}_{part}.json")}
        if traces is None:
            job["graph"] = str(wd / "g.dot")
        else:
            job["traces"] = traces
        futs.append(pool.submit(spawn_worker, job, wd / f"job_{tag}_{part}.json"))
    return futs


def add_applies(table, items):
    for a in items:
        table.setdefault(json.dumps([a["name"], a["targs"], a["args"], a["ret"]], sort_keys=True), a)


def judge_applies(build, level, applies, tag):
    """TLC judges every distinct Apply node of a judged function name against the registered signatures.
    -> (number judged, names not judged, [(apply record, why)])"""
    from checks import _fetypes_registry as R

    sigs, problems = R.judged_signatures()
    if problems or not sigs:
        raise RuntimeError(f"function registry of the working tree not understood: {problems[:3] or 'no signatures found'}")
    items = [a for a in applies.values() if a["name"] in sigs]
    skipped = sorted({a["name"] for a in applies.values() if a["name"] not in sigs})
    if not items:
        return 0, skipped, []
    wd = tlc.prepare_dir(build / f"applies_{tag}", ["fetypes"])
    with open(wd / "applies.ndjson", "w") as f:
        for a in items:
            f.write(json.dumps({"name": a["name"], "targs": a["targs"], "args": a["args"], "ret": a["ret"], "sigs": sigs[a["name"]]}) + "\n")
    _tlc_eval((wd, "FrontEndTypesApply", {"FE_LEVEL": level, "FE_APPLIES": wd / "applies.ndjson", "FE_VERDICT": wd / "verdict.json"}))
    v = json.loads((wd / "verdict.json").read_text())
    if v["n"] != len(items):
        raise RuntimeError("apply verdict did not see every node")
    return len(items), skipped, [(items[b["i"] - 1], b["why"]) for b in v["bad"]]


def collect_replay(futs):
    res = [json.loads(Path(f.result()["out"]).read_text()) for f in futs]
    for r in res:
        add_applies(REPLAY_APPLIES, r.get("applies", []))
    fails = [r["setup_failure"] for r in res if r.get("setup_failure")]
    if fails:
        return None, fails, []
    edges = set()
    for r in res:
        edges |= {tuple(e) for e in r["edges"]}
    actions = {}
    for r in res:
        for a, c in r["actions"].items():
            actions[a] = actions.get(a, 0) + c
    tot = {"walks": sum(r["walks"] for r in res), "total_walks": res[0]["total_walks"], "steps": sum(r["steps"] for r in res),
           "ir_nodes_recomputed": sum(r["nodes"] for r in res), "edges_covered": len(edges), "actions": actions}
    return tot, [x for r in res for x in r["rejected"]], [x for r in res for x in r["mismatch"]]


def machine_violations(ctx, kind, rejected, mismatch, tot, what):
    for m in mismatch:
        ctx.violation(f"{kind}:{m['why']}:{m['action']}", m)
    tot["rejected_calls"] = len(rejected)
    if rejected:
        tot["rejected_sample"] = rejected[:3]
    # vacuity: the front end must accept (nearly) every call the machine takes
    if len(rejected) > max(3, tot["steps"] // 50) and not mismatch:
        raise RuntimeError(f"{kind} machine ({what}): the front end refused {len(rejected)} calls the specification takes: {rejected[:2]}")


# ---------------------------------------------------------------------------------------------------
def signature(rec, why):
    """Short, stable root-cause signature of one bad case."""
    if rec["kind"] in ("lit", "litT"):
        exc = rec.get("exc", "")
        if why == "literal-unencodable":
            if "has no field" in exc or "KeyError" in exc:
                return "literal:unencodable:struct-field-absent"
            return "literal:unencodable:" + (exc.split(":")[1].strip() if ":" in exc else "other")
        if why == "literal-unsatisfied":
            return "literal:unsatisfied:" + F.mismatch(rec["v"], rec["rep"])
        if why == "impute-unsatisfied":
            return "impute_type:unsatisfied:" + F.mismatch(rec["v"], rec["imp"])
        return "literal:" + why.replace("literal-", "")
    e = rec["e"]
    op = e.get("op", "?")
    tail = (f":{e['o']}" if isinstance(e.get("o"), str) else "") + (f":{e['f']}" if isinstance(e.get("f"), str) else "")
    if why == "ir-node":
        m = re.search(r"'node': '(\w+)'", rec.get("exc", ""))
        return f"ir-node:{m.group(1) if m else op}"
    if why == "assert":
        m = re.search(r"AssertionError in (\w+)", rec.get("exc", ""))
        return f"assert:{m.group(1) if m else '?'}:{op}{tail}"
    return f"{why}:{op}{tail}"


def run(ctx):
    t_start = time.time()
    phases = {}
    REPLAY_APPLIES.clear()
    level = 0 if ctx.quick else 1
    nw = max(2, min(6, ctx.workers // 3))
    pool = ThreadPoolExecutor(32)
    # ---- start: TLC generates the B3 universe (4 parts) and model-checks the two machines ------------------
    parts = ["lits", "l1a", "l1b", "l2"]
    gen_jobs = []
    for p in parts:
        wd = tlc.prepare_dir(ctx.build / f"gen_{p}", ["fetypes"])
        gen_jobs.append((wd, "FrontEndTypesGen", {"FE_LEVEL": level, "FE_PART": p, "FE_OUT": wd / "out.ndjson"}))
    gen_futs = [pool.submit(_tlc_eval, j) for j in gen_jobs]
    mc_futs = {kind: pool.submit(machine_tlc, (ctx.build, kind, level, 4)) for kind in ("table", "matrix")}
    agree_futs = []
    for p in ("agree_l1a", "agree_l1b", "agree_l2"):
        wd = tlc.prepare_dir(ctx.build / p, ["fetypes"])
        agree_futs.append(pool.submit(_tlc_agree, (wd, "FrontEndTypesGen", {"FE_LEVEL": level, "FE_PART": p, "FE_OUT": wd / "unused"})))
    sim_futs = {}
    if not ctx.quick:
        sim_futs = {kind: pool.submit(machine_sim, (ctx.build, kind, ctx.seed + 1, 400)) for kind in ("table", "matrix")}
    # ---- B3: the real front end on every case -----------------------------------------------------------------
    cases, sizes, case_futs = [], {}, []
    wdc = tlc.prepare_dir(ctx.build / "cases", [])
    for (wd, _m, _e), p, fut in zip(gen_jobs, parts, gen_futs):
        out = fut.result()
        m = re.search(r'<<"universe", "(\w+)", (\d+), (\d+)>>', out)
        if not m:
            raise RuntimeError(f"universe part {p}: no size line in TLC output")
        sizes[p] = (int(m.group(2)), int(m.group(3)))
        lines = [l for l in (wd / "out.ndjson").read_text().splitlines() if l.strip()]
        # each part is split over workers as soon as it is there
        k = max(1, min(nw, len(lines) // 1500))
        for i in range(k):
            inp = wdc / f"{p}_{i}.in"
            inp.write_text("\n".join(lines[i::k]) + "\n")
            job = {"what": "cases", "in": str(inp), "out": str(wdc / f"{p}_{i}.out")}
            case_futs.append(pool.submit(spawn_worker, job, wdc / f"{p}_{i}.job"))
    phases["gen"] = round(time.time() - t_start, 1)
    recs, nodes, norule, setup_failures, applies = [], 0, 0, [], {}
    for f in case_futs:
        for line in Path(f.result()["out"]).read_text().splitlines():
            r = json.loads(line)
            if r.get("_meta"):
                nodes += r["nodes"]
                norule += r["norule"]
                if r.get("setup_failure"):
                    setup_failures.append(("base-table", r["setup_failure"]))
                add_applies(applies, r.get("applies", []))
            else:
                recs.append(r)
    if not recs:
        raise RuntimeError("empty universe")
    phases["cases_built"] = round(time.time() - t_start, 1)
    # ---- verdict by TLC (in the background) ----------------------------------------------------------------------
    k = max(1, min(5 if ctx.quick else 8, ctx.workers // 2))
    chunks = [list(range(i, len(recs), k)) for i in range(k)]
    vjobs = []
    for ci, idxs in enumerate(chunks):
        wd = tlc.prepare_dir(ctx.build / f"verdict_{ci}", ["fetypes"])
        with open(wd / "cases.ndjson", "w") as f:
            for i in idxs:
                f.write(json.dumps({a: b for a, b in recs[i].items() if a not in WIRE_DROP}) + "\n")
        vjobs.append((wd, "FrontEndTypesVerdict", {"FE_LEVEL": level, "FE_CASES": wd / "cases.ndjson", "FE_VERDICT": wd / "verdict.json"}))
    vfuts = [pool.submit(_tlc_eval, j) for j in vjobs]
    apply_fut = pool.submit(judge_applies, ctx.build, level, dict(applies), "b3")
    # ---- B1: replay of the machines' graphs (and simulated programs) ---------------------------------------------
    rfuts = {}
    mres = {}
    for kind, fut in mc_futs.items():
        _k, wd, res = fut.result()
        mres[kind] = (wd, res)
        phases[f"tlc_{kind}"] = round(res.wall_s, 1)
        ctx.add_tlc(res, f"exhaustive {MACHINES[kind][0]} {MACHINES[kind][1][level]}")
        for v in res.violations:
            ctx.violation(f"spec:{kind}:{v.name}", {"trace": [(h, s) for h, s in v.trace]})
        if not res.violations:
            rfuts[(kind, "graph")] = replay(pool, ctx.build, kind, wd, ctx.seed, nw)
    for kind, fut in sim_futs.items():
        _k, wd, res, traces = fut.result()
        ctx.add_tlc(res, f"simulation of {MACHINES[kind][0]}: {len(traces)} programs of up to {SIM_STEPS} calls")
        for v in res.violations:
            ctx.violation(f"spec:{kind}:{v.name}", {"trace": [(h, s) for h, s in v.trace]})
        if not traces:
            raise RuntimeError(f"{kind}: the simulator wrote no traces")
        if not res.violations:
            rfuts[(kind, "sim")] = replay(pool, ctx.build, kind, wd, ctx.seed, nw, traces=traces, tag="sim")
    phases["machines_checked"] = round(time.time() - t_start, 1)
    for (kind, what), futs in rfuts.items():
        tot, rejected, mismatch = collect_replay(futs)
        if tot is None:
            setup_failures += [(f"{kind}-machine", x) for x in rejected]
            continue
        if what == "graph":
            wd, res = mres[kind]
            g = tlc.parse_dot(wd / "g.dot")
            if any(lab.startswith("Next") for _s, lab, _d in g.edges):
                raise RuntimeError("unlabelled edges in the dumped graph")
            tot["edges"], tot["nodes"] = len(set(g.edges)), len(g.nodes)
            missing = WANT_ACTIONS[kind] - set(tot["actions"])
            if missing and not mismatch:
                raise RuntimeError(f"vacuous {kind} machine: actions never taken: {sorted(missing)}")
            if tot["edges_covered"] != tot["edges"] and not mismatch and not rejected:
                raise RuntimeError(f"{kind} graph not covered: {tot}")
            if g.edges:
                e = g.edges[len(g.edges) // 2]
                ctx.sample({"kind": f"{kind}-graph-edge", "edge": e[1],
                            "target": (F.spec_table_view if kind == "table" else F.spec_matrix_view)(tlaval.to_py(g.nodes[e[2]]))["fe"]})
        if tot["walks"] != tot["total_walks"]:
            raise RuntimeError(f"{kind} {what}: {tot['walks']} of {tot['total_walks']} walks replayed")
        machine_violations(ctx, kind, rejected, mismatch, tot, what)
        ctx.cov.setdefault("replay", {})[f"{kind}-{what}"] = tot
        ctx.cov["traces_validated_against_impl"] += tot["walks"]
        ctx.cov["evaluations"] += tot["steps"]
        ctx.cov["distinct_nontrivial"] += tot["edges_covered"]
    phases["replayed"] = round(time.time() - t_start, 1)
    # ---- collect the verdict ----------------------------------------------------------------------------------------
    for f in vfuts:
        f.result()
    tot = {"n": 0, "accepted": 0, "spec_accepts": 0, "both_accept": 0}
    spec_only, impl_only, bad = [], [], []
    for (wd, _m, _e), idxs in zip(vjobs, chunks):
        v = json.loads((wd / "verdict.json").read_text())
        if v["n"] != len(idxs):
            raise RuntimeError("verdict did not see every case")
        for a in tot:
            tot[a] += v[a]
        spec_only += [idxs[i - 1] for i in v["spec_only"]]
        impl_only += [idxs[i - 1] for i in v["impl_only"]]
        bad += [(idxs[b["i"] - 1], b["why"]) for b in v["bad"]]
    spec_only.sort()
    bad.sort()
    phases["verdict"] = round(time.time() - t_start, 1)
    # ---- Apply nodes against the registered signatures -----------------------------------------------------------------
    REPLAY_APPLIES_NEW = {k: a for k, a in REPLAY_APPLIES.items() if k not in applies}
    n1, skipped1, bad1 = apply_fut.result()
    n2, skipped2, bad2 = judge_applies(ctx.build, level, REPLAY_APPLIES_NEW, "machines") if REPLAY_APPLIES_NEW else (0, [], [])
    advisory = []
    for a, why in bad1 + bad2:
        d = {"why": why, "function": a["name"], "type_args": [F.tstr(t) for t in a["targs"]], "argument_types": [F.tstr(t) for t in a["args"]],
             "return_type": F.tstr(a["ret"]), "first_program": a["where"]}
        if why == "no-signature":
            ctx.violation(f"apply:no-signature:{a['name']}", d)
        else:
            advisory.append(d)       # ambiguity / a declared return type the engine does not consult: recorded, not alarmed
    ctx.cov["apply_nodes"] = {"distinct_judged": n1 + n2, "function_names_not_judged": sorted(set(skipped1) | set(skipped2)),
                              "no_signature": sum(1 for _a, w in bad1 + bad2 if w == "no-signature"), "advisory": advisory[:6]}
    ctx.cov["evaluations"] += n1 + n2
    phases["applies"] = round(time.time() - t_start, 1)
    agree = {}
    for f in agree_futs:
        part, n_all, n_acc, cex = f.result()
        agree[part] = {"programs": n_all, "accepted_by_the_api_rule": n_acc, "ir_rule_agrees": cex is None}
        if cex is not None:
            ctx.violation(f"spec:agree:{part}", {"what": "in the model, the IR the API builds has another type (IR rules) than the API rule reports", "program": cex})
    ctx.cov["model_property_agree"] = agree
    phases["agree"] = round(time.time() - t_start, 1)
    pool.shutdown()
    n = len(recs)
    # the harness's own fixtures (base table, joined tables, range tables) are programs of the front end too
    for where, (st_, msg) in setup_failures:
        if st_ != "assert":
            raise RuntimeError(f"harness set-up failed ({where}): {msg}")
        ctx.violation(f"assert:assign_type:fixture:{where}", {"what": "building the harness's fixture with the public API", "exception": msg})
    if not setup_failures and sizes["lits"][1] + sum(a + b for p, (a, b) in sizes.items() if p != "lits") != n:
        raise RuntimeError(f"{n} cases recorded for a universe of {sizes}")
    st = {}
    for r in recs:
        st[r["st"]] = st.get(r["st"], 0) + 1
    # vacuity guards: the front end accepts a large part of what the specification accepts, and vice versa
    if tot["spec_accepts"] == 0 or tot["accepted"] == 0:
        raise RuntimeError("vacuous: nothing accepted")
    frac = tot["both_accept"] / max(1, tot["spec_accepts"])
    ctx.cov["phase_s"] = phases
    ctx.cov["b3"] = {"cases": n, "universe": sizes, "front_end": st, "spec_accepts": tot["spec_accepts"],
                     "both_accept": tot["both_accept"], "spec_accepts_front_end_refuses": len(spec_only),
                     "front_end_accepts_outside_spec": len(impl_only), "ir_nodes_recomputed": nodes, "ir_nodes_without_rule": norule}
    if st.get("backend", 0) > n // 50:
        raise RuntimeError(f"{st['backend']} programs needed a back end: the universe is not what this check can run")
    F.setup()
    for i, why in bad:
        r = recs[i]
        d = {"why": why, "front_end": r["st"], "reported": F.tstr(r["rep"]), "ir": F.tstr(r["ir"]), "exception": r.get("exc", "")}
        if "e" in r:
            d["program"] = F.show(r["e"])
            d["term"] = r["e"]
        else:
            d["value"] = F.showv(r["v"])
            d["python"] = repr(F.pyval(r["v"]))[:200]
            if "t" in r:
                d["dtype"] = F.tstr(r["t"])
            d["impute_type"] = F.tstr(r["imp"])
        ctx.violation(signature(r, why), d)
    if frac < 0.9 and not bad:
        raise RuntimeError(f"the front end accepts only {frac:.0%} of the programs the specification accepts (vacuity guard)")
    ok = [r for r in recs if r["st"] == "ok"]
    for r in (ok[:1] + ok[len(ok) // 3:len(ok) // 3 + 1] + ok[-1:]):
        ctx.sample({"kind": r["kind"], "program": F.show(r["e"]) if "e" in r else F.showv(r["v"]), "reported": F.tstr(r["rep"]), "ir": F.tstr(r["ir"])})
    for i in spec_only[:2]:
        ctx.sample({"kind": "front end refuses, specification accepts", "program": F.show(recs[i]["e"]) if "e" in recs[i] else F.showv(recs[i]["v"]),
                    "exception": recs[i].get("exc", "")})
    ctx.cov.update(states=ctx.cov["states"] + 2 * n, transitions=ctx.cov["transitions"] + n,
                   traces_validated_against_impl=ctx.cov["traces_validated_against_impl"] + n,
                   evaluations=ctx.cov["evaluations"] + n,
                   distinct_nontrivial=ctx.cov["distinct_nontrivial"] + tot["both_accept"], exhaustive=True)
    ctx.cov["rule"] = ("TLC enumerates the whole stated universe of values / programs and the whole state graph of both machines for the "
                       "stated constants; every case and every graph edge is run on the real front end; B3 cases are judged by TLC, "
                       "graph edges by exact comparison with the TLA+ target state; distinct_nontrivial = programs accepted by both "
                       "the specification and the front end + distinct graph edges replayed")
    ctx.assume("the front end's IR typing rules (_compute_type) define 'the type implied by the IR'; the engine is not run",
               "a call/return pair is a two-state behaviour; states/transitions count those",
               "programs the front end refuses are outside the property's quantifier (counted, never alarmed)",
               "Satisfies: None is a value of every type; bool is an int; ints convert to floats; any Sequence is an array value, "
               "any Mapping a dict / struct value; a struct value may omit fields (missing)")


if __name__ == "__main__":
    if len(sys.argv) == 3 and sys.argv[1] == "worker":
        worker_main(sys.argv[2])
    else:
        sys.exit("usage: python -m checks.c36 worker <job.json>")
