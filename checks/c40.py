"""C40 - the copy tool's transfer semaphore (hailtop/aiotools/weighted_semaphore.py WeightedSemaphore) never
grants more than its capacity, gets every granted weight back however the holder exits (return, error,
cancellation), and a waiter cancelled before being granted does not consume capacity.

Spec specs/sem/WSem.tla (asyncio ready queue and cancellation delivery modelled explicitly).
(1) TLC checks the properties exhaustively on the spec of the intended behaviour (CancelSafe = TRUE) and shows that
    the same invariants are refuted when acquire() ignores cancellation (CancelSafe = FALSE): they are not vacuous.
(2) B1: the complete labelled state graph is replayed, edge by edge, on the real class under the deterministic
    event loop; value, the sorted wait list, every task's state/outcome and the ready queue are compared after
    every step.
(3) B2: long random executions of the real class with more tasks are validated by TLC as behaviours of the spec,
    all invariants evaluated at every step.
If the real class does not conform, TLC's counter-examples for the CancelSafe = FALSE model are replayed on the
real class and the property failure is confirmed on the real objects.
"""
from __future__ import annotations

import json
import random

from vlib import loader, tlc, walk, tlaval
from vlib.vloop import VLoop

LEVEL = "model_checking"
MANIFEST = {
    "technique": "TLA+ spec WSem (weight-sorted wait list, asyncio ready queue, task.cancel() delivery) checked exhaustively by TLC; state-graph replay (B1) and TLC trace validation (B2) against the real WeightedSemaphore on a single-stepped asyncio loop",
    "text": "All interleavings of start/acquire/finish/fail/cancel/release steps for 3-4 tasks with weights up to capacity, cancellation injected at every point (before the first step, while queued, between grant and wake-up, while holding, after the work ended), explored exhaustively by TLC on the spec; the real class is shown to have the same transition relation on that whole graph (every edge replayed, full state compared) and longer random executions of the real class are accepted by the spec with all invariants holding at each step.",
    "note": "Trusts TLC and the virtual event loop (vlib/vloop.py: FIFO ready queue, pure-Python asyncio tasks, CPython 3.12 cancellation semantics). 'Does not consume capacity' is read as: never enters the critical section, leaves no entry behind, and weight that release() assigns to it before the CancelledError is delivered is handed back at that very step. At most one cancel() per task. Liveness is a property of the spec, tied to the code by conformance.",
    "design_ref": "DESIGN.md section 5, C40; section 7 item 3",
}

CORE = ["C40_Capacity", "C40_Conservation", "C40_NoLeak", "C40_OwnerHasIt", "C40_Quiescent",
        "C40_CancelledNeverHolds", "C40_NoDeadWaiter", "C40_HandBackQueued"]
INVS = ["TypeOK"] + CORE + ["WS_Sorted", "WS_OneEntryPerWaiter", "WS_NoBlockedSmallest", "WS_ReadyQueue", "WS_Outcome"]
ACTIONS = ["Start", "Finish", "Fail", "Cancel", "Step"]


class Impl:
    """The real class driven one atomic step at a time; a task runs `async with sem.acquire_manager(w): await gate`."""

    def __init__(self, capacity, sem_cls):
        self.loop = VLoop()
        self.capacity = capacity
        self.sem = sem_cls(capacity)
        self.tasks, self.gates, self.w = {}, {}, {}
        self.began, self.inside, self.cancel_req = set(), set(), set()
        self.owner = {}   # Event object -> task that queued it
        self.entry = {}   # task -> (w, Event)

    async def body(self, t, w):
        self.began.add(t)
        async with self.sem.acquire_manager(w):
            self.inside.add(t)
            await self.gates[t]

    def start(self, t, w):
        self.gates[t] = self.loop.create_future()
        self.w[t] = w
        self.tasks[t] = self.loop.create_task(self.body(t, w), name=t)

    def finish(self, t):
        self.gates[t].set_result(None)

    def fail(self, t):
        self.gates[t].set_exception(RuntimeError("work failed"))

    def cancel(self, t):
        assert self.tasks[t].cancel(), "cancel() refused"
        self.cancel_req.add(t)

    def step(self):
        rq = self.loop.ready_tasks()
        assert rq, "nothing to step"
        assert self.loop.step()
        for e in self.sem.events:
            if e[1] not in self.owner:
                self.owner[e[1]] = rq[0]
                self.entry[rq[0]] = e

    def apply(self, name, t=None, w=None):
        if name == "Start":
            self.start(t, w)
        elif name == "Finish":
            self.finish(t)
        elif name == "Fail":
            self.fail(t)
        elif name == "Cancel":
            self.cancel(t)
        elif name == "Step":
            self.step()
        else:
            raise RuntimeError(name)

    def outcome(self, t):
        task = self.tasks[t]
        if task.cancelled():
            return "cancel"
        return "err" if task.exception() is not None else "ok"

    def project(self, all_tasks):
        rq = tuple(self.loop.ready_tasks())
        pc, cx, how = {}, {}, {}
        for t in all_tasks:
            how[t] = "none"
            if t not in self.tasks:
                pc[t] = "idle"
            elif self.tasks[t].done():
                pc[t] = "done"
                how[t] = self.outcome(t)
            elif t not in self.began:
                pc[t] = "start"
            elif t not in self.inside:
                pc[t] = "granted" if (t in self.entry and self.entry[t][1].is_set()) else "waiting"
            else:
                g = self.gates[t]
                pc[t] = "exit" if g.done() else "holding"
                if g.done() and not g.cancelled():
                    how[t] = "err" if g.exception() is not None else "ok"
            cx[t] = t in self.cancel_req and pc[t] != "done"
        events = tuple({"t": self.owner.get(e[1], "?"), "w": e[0]} for e in self.sem.events)
        return {"value": self.sem.value, "events": events, "pc": pc, "cx": cx, "how": how, "rq": rq}

    # facts about the real objects, independent of the projection used for conformance
    def facts(self):
        live_owner_w = sum(self.w[t] for t in self.tasks if not self.tasks[t].done() and t in self.began and
                           (t in self.inside or (t in self.entry and self.entry[t][1].is_set())))
        return {"value": self.sem.value, "capacity": self.capacity,
                "all_tasks_done": all(x.done() for x in self.tasks.values()),
                "ready_queue_empty": not self.loop.pending_ready(),
                "entries_left": [[e[0], self.owner.get(e[1], "?")] for e in self.sem.events],
                "entries_of_finished_tasks": [self.owner.get(e[1], "?") for e in self.sem.events
                                              if self.owner.get(e[1]) in self.tasks and self.tasks[self.owner[e[1]]].done()],
                "weight_held_by_live_tasks": live_owner_w}

    def close(self):
        for t in self.tasks.values():
            if t.done() and not t.cancelled():
                t.exception()
        errs = [e for e in self.loop.errors]
        self.loop.dispose()
        if errs:
            raise RuntimeError(f"event loop errors: {errs}")


def view(st):
    return {"value": st["value"], "events": tuple({"t": e["t"], "w": e["w"]} for e in st["events"]),
            "pc": dict(st["pc"]), "cx": dict(st["cx"]), "how": dict(st["how"]), "rq": tuple(st["rq"])}


def _set(xs):
    return "{" + ", ".join(f'"{x}"' if isinstance(x, str) else str(x) for x in xs) + "}"


def _consts(tasks, maxw, cap, safe=True):
    return {"Tasks": _set(tasks), "Weights": _set(range(1, maxw + 1)), "Capacity": cap, "CancelSafe": "TRUE" if safe else "FALSE"}


def _apply_edge(impl, name, args, src, dst):
    impl.apply(name, *args)


def _stepper(src):
    """root cause class of a mismatching Step: what the task at the head of the ready queue was doing."""
    s = tlaval.to_py(src)
    rq = s.get("rq") or ()
    if not rq:
        return "?"
    t = rq[0]
    return s["pc"][t] + ("+cancel" if s["cx"][t] else "")


def _confirm_on_real(ctx, wd, tasks, maxw, cap, sem_cls):
    """The real class did not conform to the intended spec.  Take TLC's counter-examples for the model of acquire()
    that ignores cancellation, run them on the real class and look at the real objects."""
    preds = {
        "C40_Quiescent": lambda f: f["all_tasks_done"] and f["ready_queue_empty"] and (f["value"] != f["capacity"] or f["entries_left"]),
        "C40_Conservation": lambda f: f["value"] + f["weight_held_by_live_tasks"] != f["capacity"],
        "C40_NoDeadWaiter": lambda f: bool(f["entries_of_finished_tasks"]),
    }
    consts = _consts(tasks, maxw, cap, safe=False)
    for inv, pred in preds.items():
        (wd / f"AF_{inv}.cfg").write_text(tlc.mk_cfg(constants=consts, invariants=[inv]))
        res = tlc.run(wd, "WSem", f"AF_{inv}.cfg", workers=1)
        ctx.add_tlc(res, f"counter-example search for {inv} on the model with CancelSafe = FALSE")
        if not res.violations:
            continue
        trace = res.violations[0].trace
        impl = sem_cls and Impl(cap, sem_cls)
        followed = True
        labels = []
        try:
            for hdr, st in trace[1:]:
                name, args = tlc.parse_action_label(hdr)
                labels.append(hdr)
                impl.apply(name, *args)
                if walk.diff_states(view(st), impl.project(tasks)):
                    followed = False
                    break
            facts = impl.facts()
        finally:
            impl.close()
        if followed and pred(facts):
            ctx.violation(f"confirmed:{inv}", {"config": consts, "history": labels, "real_objects_after": facts,
                                                "meaning": "the real WeightedSemaphore follows TLC's counter-example step by step and ends in a state that violates the property"})
        else:
            ctx.note(f"counter-example for {inv} of the CancelSafe=FALSE model is not a behaviour of the real class (followed={followed})")



# ---- the call sites: SourceCopier._copy_file / _copy_part with a fault at every await point ------------------------------------
def call_site_stage(ctx, wd):
    """Runs the real copier functions that hold the transfer semaphore over a fake file system whose k-th operation raises an
    error / a time-out / cancels the running task; TLC (WSemSite.tla) judges the semaphore's value afterwards."""
    import asyncio

    from hailtop.aiotools.fs import copier as C
    from hailtop.aiotools.weighted_semaphore import WeightedSemaphore

    class Injected(OSError):
        pass

    def make(fault, at):
        st = {"n": 0, "hit": False}

        async def point():
            k = st["n"]
            st["n"] += 1
            st["max"] = max(st.get("max", 0), st["cap"] - st["sem"].value)
            if fault != "none" and k == at:
                st["hit"] = True
                if fault == "error":
                    raise Injected("injected")
                if fault == "timeout":
                    raise asyncio.TimeoutError()
                asyncio.current_task().cancel()
                await asyncio.sleep(0)

        class Src:
            def __init__(self, data):
                self.data, self.pos = data, 0

            async def __aenter__(self):
                await point()
                return self

            async def __aexit__(self, *a):
                await point()
                return False

            async def read(self, n):
                await point()
                b = self.data[self.pos:self.pos + n]
                self.pos += len(b)
                return b

            async def readexactly(self, n):
                return await self.read(n)

        class Dst:
            async def __aenter__(self):
                await point()
                return self

            async def __aexit__(self, *a):
                await point()
                return False

            async def write(self, b):
                await point()
                return len(b)

        class FS:
            async def open(self, f):
                await point()
                return Src(b"x" * 10)

            async def open_from(self, f, start, *, length=None):
                await point()
                return Src(b"y" * (length or 4))

            async def create(self, f, retry_writes=True):
                await point()
                return Dst()

            async def makedirs(self, *a, **k):
                await point()

        class Parts:
            async def create_part(self, number, start, size_hint=None):
                await point()
                return Dst()

        return st, FS(), Parts()

    cap = 2 * C.Copier.BUFFER_SIZE
    cases = []
    for fn in ("_copy_file", "_copy_part"):
        for fault in ("none", "error", "timeout", "cancel"):
            for at in range(0, 1 if fault == "none" else 14):
                st, fs, parts = make(fault, at)
                loop = VLoop()
                sem = loop.call_in_loop(lambda: WeightedSemaphore(cap))
                st["sem"], st["cap"] = sem, cap
                seen = st
                real_acquire = sem.acquire

                sc = object.__new__(C.SourceCopier)
                sc.router_fs, sc.xfer_sema = fs, sem
                rep = C.SourceReport("src")

                async def run():
                    try:
                        if fn == "_copy_file":
                            await sc._copy_file(rep, "src", 10, "dest")
                        else:
                            await sc._copy_part(rep, 4, "src", 1, 4, parts, False)
                    finally:
                        pass

                t = loop.create_task(run())
                for _ in range(10000):
                    if not loop.step():
                        break
                ended = t.done()
                if ended and not t.cancelled():
                    t.exception()
                cases.append({"fn": fn, "fault": fault, "at": at, "capacity": cap, "final": sem.value, "maxinuse": seen.get("max", 0),
                              "ended": ended, "hit": st["hit"], "points": st["n"]})
                loop.dispose()
    env = {"WS_CASES": wd / "site_cases.ndjson", "WS_VERDICT": wd / "site_verdict.json"}
    env["WS_CASES"].write_text("\n".join(json.dumps(c) for c in cases) + "\n")
    tlc.evaluate(wd, "WSemSite", env=env)
    v = json.loads(env["WS_VERDICT"].read_text())
    assert v["n"] == len(cases)
    if v["faulted"] < 12:
        raise RuntimeError(f"vacuous call-site stage: only {v['faulted']} runs met their fault")
    for i in v["bad"]:
        c = cases[i - 1]
        ctx.violation(f"site:{c['fn']}:{c['fault']}:{'leak' if c['final'] != c['capacity'] else ('over' if c['maxinuse'] > c['capacity'] else 'hung')}", c)
    ctx.cov["call_sites"] = {"runs": len(cases), "runs_that_met_their_fault": v["faulted"], "functions": ["SourceCopier._copy_file", "SourceCopier._copy_part"]}
    return len(cases)

def run(ctx):
    loader.install()
    from hailtop.aiotools.weighted_semaphore import WeightedSemaphore

    wd = tlc.prepare_dir(ctx.build / "tlc", ["sem"])
    # (tasks, max weight, capacity, replay the whole graph on the real class?)  The graphs for 4 tasks have
    # 1.3-1.8 million states: they are model-checked; the code is bound on the 3-task graphs and by B2 below.
    T3, T4 = ("t1", "t2", "t3"), ("t1", "t2", "t3", "t4")
    configs = [(T3, 2, 2, True)]
    if not ctx.quick:
        configs += [(T3, 3, 3, True), (T4, 2, 2, False), (T4, 2, 3, False)]
    total_edges = 0
    nonconforming = False
    workers = min(ctx.workers, 4) if ctx.quick else ctx.workers
    for n, (tasks, maxw, cap, replay) in enumerate(configs):
        consts = _consts(tasks, maxw, cap)
        # ---- (1) the properties on the spec ---------------------------------------------------------------
        (wd / f"MC{n}.cfg").write_text(tlc.mk_cfg(constants=consts, invariants=INVS))
        res = tlc.run(wd, "WSem", f"MC{n}.cfg", workers=workers, coverage=True, dump=f"g{n}" if replay else None)
        ctx.add_tlc(res, f"exhaustive WSem tasks={len(tasks)} weights=1..{maxw} capacity={cap} CancelSafe=TRUE")
        ctx.require_covered(res, ACTIONS, "WSem")
        for v in res.violations:
            ctx.violation(f"spec:{v.name}", {"config": consts, "trace": [(h, s) for h, s in v.trace]})
        if res.violations:
            continue
        if n == 0:
            # liveness on the spec under fairness (quick: one weight class only, the graph is 8 times smaller)
            lconsts = dict(consts, Weights=_set([cap])) if ctx.quick else consts
            (wd / "Live.cfg").write_text(tlc.mk_cfg(spec="FairSpec", constants=lconsts, properties=["WS_Live", "WS_EventuallyQuiescent"]))
            lres = tlc.run(wd, "WSem", "Live.cfg", workers=workers)
            ctx.add_tlc(lres, f"liveness WS_Live, WS_EventuallyQuiescent under WF(Step), WF(Finish), weights {lconsts['Weights']}")
            for v in lres.violations:
                ctx.violation(f"spec-liveness:{v.name}", {"config": consts, "trace": [(h, s) for h, s in v.trace]})
            # falsifiability: an acquire() that ignores cancellation must be refuted by these invariants
            for inv in ["C40_Conservation", "C40_NoLeak", "C40_Quiescent", "C40_NoDeadWaiter"]:
                (wd / f"F_{inv}.cfg").write_text(tlc.mk_cfg(constants=_consts(tasks[:2], maxw, cap, safe=False), invariants=[inv]))
                fres = tlc.run(wd, "WSem", f"F_{inv}.cfg", workers=2)
                ctx.add_tlc(fres, f"vacuity guard: {inv} must be refuted when CancelSafe=FALSE")
                if not fres.violations:
                    raise RuntimeError(f"{inv} is not refuted on the CancelSafe=FALSE model: invariant too weak")
                if inv == "C40_Quiescent":
                    ctx.sample({"kind": "tlc-counterexample-CancelSafe=FALSE", "invariant": inv,
                                "history": [h for h, _ in fres.violations[0].trace[1:]]})

        if not replay:
            continue
        # ---- (2) B1: every edge of the graph on the real class ------------------------------------------------
        g = tlc.parse_dot(wd / f"g{n}.dot")
        srcs = {}
        stats, mism = walk.replay_graph(g, lambda: Impl(cap, WeightedSemaphore), _apply_edge,
                                        lambda impl: impl.project(tasks), view=view, rng=random.Random(ctx.seed),
                                        max_mismatches=40)
        total_edges += stats["edges_covered"]
        ctx.cov.setdefault("graph_replay", []).append({"config": consts, **stats})
        if stats["edges_covered"] != stats["edges"] and not mism:
            raise RuntimeError(f"graph not covered: {stats}")
        for m in mism:
            nonconforming = True
            if m.label == "<init>":
                sig = "replay:init:" + ",".join(sorted(m.diff))
            else:
                name = tlc.parse_action_label(m.label)[0]
                # source state of the failing edge = state reached by the path without its last label
                sig = f"replay:{name}:" + ",".join(sorted(m.diff))
                if name == "Step":
                    src = _source_state(g, m.path)
                    sig = f"replay:Step[{_stepper(src)}]" if src is not None else sig
            ctx.violation(sig, {"config": consts, "path": m.path, "diff": m.diff})
        if n == 0 and g.edges:
            e = g.edges[len(g.edges) // 2]
            ctx.sample({"kind": "graph-edge", "edge": e[1], "target": view(tlaval.to_py(g.nodes[e[2]]))})
        if mism:
            break
    if nonconforming:
        tasks, maxw, cap, _ = configs[0]
        _confirm_on_real(ctx, wd, tasks, maxw, cap, WeightedSemaphore)

    # ---- (3) B2: random executions of the real class, validated by TLC -----------------------------------------
    ntr, ntasks, cap = (200, 7, 4) if ctx.quick else (4000, 10, 6)
    tasks = tuple(f"t{i}" for i in range(1, ntasks + 1))
    rng = random.Random(ctx.seed * 7919 + 40)
    lines = []
    nact = {a: 0 for a in ACTIONS}
    for k in range(ntr):
        impl = Impl(cap, WeightedSemaphore)
        ev = []
        p_cancel = rng.choice([0.5, 1, 2])
        for _ in range(8 * ntasks):
            ops = []
            idle = [t for t in tasks if t not in impl.tasks]
            live = [t for t in impl.tasks if not impl.tasks[t].done() and t not in impl.cancel_req]
            hold = [t for t in live if t in impl.inside and not impl.gates[t].done()]
            if idle:
                ops += [("Start", idle[0], 2.0)]
            ops += [("Finish", t, 1.0) for t in hold] + [("Fail", t, 0.3) for t in hold]
            ops += [("Cancel", t, p_cancel / max(1, len(live))) for t in live]
            if impl.loop.pending_ready():
                ops += [("Step", "", 3.0)]
            if not ops:
                break
            a, t, _w = rng.choices(ops, weights=[o[2] for o in ops])[0]
            e = {"a": a, "t": t, "w": 0}
            if a == "Start":
                e["w"] = rng.randint(1, cap)
            impl.apply(a, *( (t, e["w"]) if a == "Start" else (t,) if a != "Step" else ()))
            nact[a] += 1
            p = impl.project(tasks)
            e["post"] = {"value": p["value"], "events": list(p["events"]), "pc": p["pc"], "cx": p["cx"], "how": p["how"], "rq": list(p["rq"])}
            ev.append(e)
        impl.close()
        lines.append(json.dumps({"ev": ev}))
    tf = wd / "traces.ndjson"
    tf.write_text("\n".join(lines) + "\n")
    consts = _consts(tasks, cap, cap)
    (wd / "Trace.cfg").write_text(tlc.mk_cfg(spec="TraceSpec", constants=consts, invariants=INVS, deadlock=True))
    tres = tlc.run(wd, "WSemTrace", "Trace.cfg", workers=workers, env={"TRACE_FILE": tf})
    ctx.add_tlc(tres, f"trace validation of {ntr} executions of the real class ({ntasks} tasks, capacity {cap})")
    nev = sum(len(json.loads(l)["ev"]) for l in lines)
    if min(nact.values()) == 0:
        raise RuntimeError(f"random driver never produced some action: {nact}")
    if not tres.violations and tres.distinct < nev:
        raise RuntimeError(f"trace validation explored {tres.distinct} states for {nev} events")
    for v in tres.violations:
        last = v.trace[-1][1] if v.trace else {}
        tid, l = last.get("tid"), last.get("l")
        evs = json.loads(lines[tid - 1])["ev"] if tid else []
        nxt = evs[l - 1] if tid and l and l <= len(evs) else None
        what = nxt["a"] if nxt else "end"
        if nxt and nxt["a"] == "Step":
            what = f"Step[{_stepper(last)}]"
        ctx.violation(f"trace:{v.kind}:{v.name}:{what}",
                      {"trace_id": tid, "position": l, "next_event": nxt, "spec_state": view(tlaval.to_py(last)),
                       "events": [(x["a"], x["t"], x["w"]) for x in evs[:l]]})
    nsite = call_site_stage(ctx, wd)
    ctx.cov["traces_validated_against_impl"] = ntr + nsite + sum(s["walks"] for s in ctx.cov.get("graph_replay", []))
    ctx.cov["trace_events"] = nev
    ctx.cov["trace_actions"] = nact
    ctx.cov["evaluations"] = nev + total_edges
    ctx.cov["distinct_nontrivial"] = total_edges
    ctx.cov["exhaustive"] = True
    ctx.cov["rule"] = ("exhaustive TLC exploration of WSem for the listed constants; every edge of the state graph replayed on the real class; "
                       "random executions validated by TLC; distinct_nontrivial = distinct graph edges replayed")
    ctx.sample({"kind": "impl-trace", "events": json.loads(lines[0])["ev"][:6]})
    ctx.assume("asyncio runs ready callbacks in FIFO order and code between two awaits is atomic (modelled as rq and Step)",
               "task.cancel() follows CPython 3.12: a pending awaited future is cancelled and the wake-up queued; a task whose step is already queued receives CancelledError at that step",
               "at most one cancel() per task; holders' work is an await on a future resolved by the environment",
               "'a cancelled waiter does not consume capacity' = it never holds, leaves no entry behind, and weight assigned to it before the CancelledError is delivered is returned at that step")


def _source_state(g, path):
    """Follow the labels of `path` except the last one from the initial node."""
    out = g.out_edges()
    cur = g.init[0]
    for lab in path[:-1]:
        nxt = [d for (l, d) in out.get(cur, ()) if l == lab]
        if not nxt:
            return None
        cur = nxt[0]
    return g.nodes[cur]
