"""C27 - gear.database: transactions retry exactly the transient MySQL errors and never leave partial writes.

Spec specs/dbtx/DbTx.tla.  (1) TLC checks the clauses of C27 on the spec: with free interleaving of the background
connection clean-up (Eager = FALSE) and in the reduced form (Eager = TRUE) whose labelled state graph is dumped.
(2) Fault plans are behaviours of the spec: walks that cover every edge of the graph give (body, fault positions,
fault kinds); each kind is concretised by several real pymysql.err exceptions.  The REAL Database / Transaction /
@transaction / retry_transient_mysql_errors run over the fake aiomysql pool whose sessions (checks/_dbtx_kv.py)
follow the plan, under the virtual event loop; every round trip is logged with the committed store and the pending
writes of every connection.  Seeded random plans with longer bodies, more faults and every concrete error code
are added.  (3) TLC validates every recorded call against the spec (DbTxTrace.tla), event by event.
"""
from __future__ import annotations

import asyncio
import json
import logging
import random
import time

from vlib import loader, tlc, walk
from vlib.vloop import VLoop

from . import _dbtx_kv as KV

LEVEL = "fault_enumeration"
MANIFEST = {
    "technique": "TLA+ spec DbTx (key-value server, per-attempt connection with pending writes, retry loop, asynchronous connection "
                 "clean-up) checked by TLC; fault plans = edge-covering walks of TLC's state graph; the real gear.database code runs over a "
                 "fault-injecting fake aiomysql under a virtual-time loop; every recorded call is validated by TLC against the spec",
    "text": "Every transaction body of up to 2-3 statements (set / non-idempotent increment / read / application error) with up to 2-3 "
            "injected MySQL errors at connect, START TRANSACTION, any statement or COMMIT (kinds: retryable with the connection alive, "
            "retryable deadlock, retryable lost connection, non-retryable, non-retryable lost connection; each concretised by real "
            "pymysql classes and codes) is run through the real retry/transaction code; random longer plans add every code; store, "
            "pending writes, retry decision, back-off delay and outcome are checked by TLC after every round trip.",
    "note": "Trusts TLC, the virtual loop and the fake aiomysql/key-value server (checks/_dbtx_kv.py) as the model of MySQL: a failed "
            "statement or COMMIT has no effect, a lost connection discards the transaction, rollback on a lost connection is a silent "
            "no-op. (OperationalError,1205) and (OperationalError,2006) are accepted either way. The two async-generator methods "
            "(execute_and_fetchall/select_and_fetchall of Database) carry no retry decorator and are outside the retry clause.",
    "design_ref": "DESIGN.md section 5, C27",
}

INVS = ["TypeOK", "C27_NoPartialWrites", "C27_AtMostOneCommit", "C27_Outcome"]
PROPS = ["C27_Retried", "C27_NotRetried"]
ENV_ACTS = ("ConnectOk", "ConnectFault", "BeginOk", "BeginFault", "StmtOk", "StmtFault", "Boom", "CommitOk", "CommitFault")
ALL_ACTS = ENV_ACTS + ("Rollback", "Close", "Backoff", "Raise", "Return")


def tla_set(xs):
    return "{" + ", ".join(f'"{x}"' for x in xs) + "}"


def mc_consts(stmts, maxbody, maxfaults, eager, initvals=(0,)):
    return {"Keys": tla_set(["k1", "k2"]), "Stmts": f"<- {stmts}", "MaxBody": maxbody, "InitVals": "{" + ", ".join(map(str, initvals)) + "}",
            "RetryCodes": tla_set(["ra", "rr", "rd"]), "NoRetryCodes": tla_set(["na", "nd"]), "AmbigCodes": "{}",
            "DeadCodes": tla_set(["rd", "nd"]), "TxRollbackCodes": tla_set(["rr"]), "MaxFaults": maxfaults,
            "Eager": "TRUE" if eager else "FALSE"}


def trace_consts():
    return {"Keys": tla_set(["k1", "k2"]), "Stmts": "{}", "MaxBody": 0, "InitVals": "{0}",
            "RetryCodes": tla_set(KV.RETRY), "NoRetryCodes": tla_set(KV.NORETRY), "AmbigCodes": tla_set(KV.AMBIG),
            "DeadCodes": tla_set(KV.DEAD), "TxRollbackCodes": tla_set(KV.TXROLLBACK), "MaxFaults": 1000, "Eager": "FALSE"}


# ------------------------------------------------------------------------------------------------------------
class BoomError(Exception):
    pass


class Harness:
    def __init__(self, seed):
        import aiomysql
        import gear.database as gdb
        from hailtop.aiotools import BackgroundTaskManager

        self.aiomysql, self.gdb, self.BTM = aiomysql, gdb, BackgroundTaskManager
        self.rng = random.Random(seed)
        self.entries_used = {}
        self.methods_used = {}

    # -- one statement through one of Transaction's methods ----------------------------------------------
    async def stmt(self, tx, s, v):
        op = s[0]
        if op == "get":
            sql, args = KV.SQL_GET, (s[1],)
            m = v % 3
            if m == 0:
                row = await tx.execute_and_fetchone(sql, args)
            elif m == 1:
                row = await tx.execute_and_fetchone(sql, args, query_name="get_kv")
            else:
                rows = [r async for r in tx.execute_and_fetchall(sql, args)]
                assert len(rows) == 1
                row = rows[0]
            self.methods_used[("get", m)] = self.methods_used.get(("get", m), 0) + 1
            return row["v"]
        sql, args = (KV.SQL_SET, (s[2], s[1])) if op == "set" else (KV.SQL_INC, (s[1],))
        m = v % 7
        if m == 0:
            await tx.just_execute(sql, args)
        elif m == 1:
            assert await tx.execute_update(sql, args) == 1
        elif m == 2:
            assert await tx.execute_insertone(sql, args) is not None
        elif m == 3:
            assert await tx.execute_many(sql, [args]) == 1
        elif m == 4:
            assert await tx.execute_and_fetchone(sql, args) is None
        elif m == 5:
            assert [r async for r in tx.execute_and_fetchall(sql, args, query_name="upd")] == []
        else:
            assert await tx.execute_update(sql, args, query_name="upd") == 1
        self.methods_used[("write", m)] = self.methods_used.get(("write", m), 0) + 1
        return None

    def boom_exc(self, v):
        k = v % 5
        if k == 0:
            return BoomError("application error")
        if k == 1:
            return ValueError("bad value")
        if k == 2:
            return self.gdb.CallError({"rc": 1, "message": "procedure refused"})
        if k == 3:
            return KeyError("missing")
        return asyncio.CancelledError()

    def entries_for(self, body):
        ops = [s[0] for s in body]
        out = ["transaction", "transaction_ro", "start_in_retry"]
        if len(body) == 1 and ops[0] in ("set", "inc"):
            out += ["db.just_execute", "db.execute_update", "db.execute_insertone", "db.execute_and_fetchone"]
        if len(body) == 1 and ops[0] == "get":
            out += ["db.execute_and_fetchone", "db.select_and_fetchone", "db.check_call_procedure"]
        if len(body) >= 1 and len(set(ops)) == 1 and ops[0] in ("set", "inc"):
            out += ["db.execute_many"]
        return out

    def run(self, body, store0, plan, *, variant=0, entry=None, jitter="mid"):
        gdb = self.gdb
        body = [tuple(s) for s in body]
        loop = VLoop()
        events = []
        srv = KV.Server(store0, plan, events.append)
        st = {"boom": None}
        sentinel = object()
        entries = self.entries_for(body)
        entry = entry if entry in entries else entries[variant % len(entries)]
        self.entries_used[entry] = self.entries_used.get(entry, 0) + 1
        db = gdb.Database()
        outcome = {}
        reads = []

        async def run_body(tx):
            for n, s in enumerate(body):
                if s[0] == "boom":
                    st["boom"] = self.boom_exc(variant + n)
                    srv.event("Boom")
                    raise st["boom"]
                r = await self.stmt(tx, s, variant + 3 * n)
                if s[0] == "get":
                    reads.append(r)
            return sentinel

        async def call():
            db.pool = self.aiomysql.Pool(srv.connect)
            db.connection_release_task_manager = self.BTM()
            if entry in ("transaction", "transaction_ro"):
                @gdb.transaction(db, read_only=(entry == "transaction_ro"))
                async def f(tx, marker):
                    assert marker == "arg"
                    return await run_body(tx)
                return (await f("arg")) is sentinel
            if entry == "start_in_retry":
                @gdb.retry_transient_mysql_errors
                async def g(marker):
                    async with db.start() as tx:
                        return await run_body(tx)
                return (await g("arg")) is sentinel
            s = body[0]
            sql, args = (KV.SQL_GET, (s[1],)) if s[0] == "get" else (KV.SQL_SET, (s[2], s[1])) if s[0] == "set" else (KV.SQL_INC, (s[1],))
            if entry == "db.just_execute":
                return (await db.just_execute(sql, args)) is None
            if entry == "db.execute_update":
                return (await db.execute_update(sql, args, query_name="q")) == 1
            if entry == "db.execute_insertone":
                return (await db.execute_insertone(sql, args)) is not None
            if entry == "db.execute_many":
                arr = [((x[2], x[1]) if x[0] == "set" else (x[1],)) for x in body]
                return (await db.execute_many(sql, arr)) == len(body)
            if entry in ("db.execute_and_fetchone", "db.select_and_fetchone", "db.check_call_procedure"):
                row = await getattr(db, entry[3:])(sql, args)
                if s[0] == "get":
                    reads.append(row["v"])
                    return row["rc"] == 0
                return row is None
            raise RuntimeError(entry)

        async def outer():
            try:
                ok = await call()
                srv.event("Return", same=bool(ok))
                outcome["ret"] = ok
            except BaseException as e:  # noqa: the outcome is the datum
                expected = st["boom"] if (st["boom"] is not None and events and _last_env(events) == "Boom") else srv.last_exc
                srv.event("Raise", same=e is expected, exc=type(e).__name__)
                outcome["exc"] = e

        rng = self.rng

        def randrange(n, *a):
            assert not a
            return 0 if jitter == "lo" else n - 1 if jitter == "hi" else rng.randrange(n)

        saved = random.randrange
        random.randrange = randrange
        try:
            task = loop.create_task(outer())
            guard = 0
            while True:
                guard += 1
                if guard > 200000:
                    raise RuntimeError("dbtx harness: step budget exhausted")
                if loop.step():
                    continue
                t = loop.next_timer()
                if t is None:
                    break
                dms = (t - loop.time()) * 1000.0
                d = int(round(dms))
                if task.done() or abs(dms - d) > 1e-6:
                    raise RuntimeError(f"dbtx harness: unexpected timer ({dms} ms, call done={task.done()})")
                srv.event("Backoff", d=d)
                loop.advance()
            if not task.done():
                raise RuntimeError("dbtx harness: the call is blocked")
        finally:
            random.randrange = saved
        if loop.errors:
            raise RuntimeError(f"event loop errors: {loop.errors}")
        leaked = len(db.connection_release_task_manager.tasks)
        loop.dispose()
        return {"body": [list(s) for s in body], "store0": dict(store0), "ev": events, "entry": entry, "variant": variant,
                "injected": srv.injected, "unused_plan": len(srv.plan), "final_store": dict(srv.store), "reads": reads,
                "open_sessions": sum(1 for s in srv.sessions if s.state != "closed"), "leaked_tasks": leaked,
                "raised": type(outcome["exc"]).__name__ if "exc" in outcome else None}


def _last_env(events):
    for e in reversed(events):
        if e["a"] in ENV_ACTS:
            return e["a"]
    return None


# ------------------------------------------------------------------------------------------------------------
def walk_to_plan(graph, w, k):
    """A walk of the Eager graph -> (body, store0, plan {(attempt,pos): code}, expected env labels [(name, kind|None)])."""
    init = graph.nodes[w[0][0]]
    body = [tuple(s) for s in init["body"]]
    store0 = dict(init["store0"])
    plan, exp = {}, []
    attempt, nstmt = 0, 0
    for (_s, lab, _d) in w:
        name, args = tlc.parse_action_label(lab)
        if name not in ENV_ACTS:
            continue
        kind = args[0] if args else None
        exp.append((name, kind))
        if name in ("ConnectOk", "ConnectFault"):
            attempt += 1
            nstmt = 0
        if name in ("StmtOk", "StmtFault"):
            nstmt += 1
        if kind is not None:
            pos = {"ConnectFault": "connect", "BeginFault": "begin", "StmtFault": ("stmt", nstmt), "CommitFault": "commit"}[name]
            codes = KV.KINDS[kind]
            plan[(attempt, pos)] = codes[(k + len(plan)) % len(codes)]
    return body, store0, plan, exp


def env_projection(ev):
    return [(e["a"], KV.KIND_OF.get(e["e"]) if "e" in e else None) for e in ev if e["a"] in ENV_ACTS]


def random_case(rng, maxbody, maxfaults):
    keys = ["k1", "k2"]
    n = rng.choice([0, 1, 1, 2, 2, 3, 3, 4][: 2 * maxbody])
    body = []
    for _ in range(n):
        r = rng.random()
        if r < 0.3:
            body.append(("set", rng.choice(keys), rng.randint(0, 9)))
        elif r < 0.65:
            body.append(("inc", rng.choice(keys)))
        elif r < 0.92:
            body.append(("get", rng.choice(keys)))
        else:
            body.append(("boom",))
    store0 = {k: rng.randint(0, 5) for k in keys}
    nreal = next((i for i, s in enumerate(body) if s[0] == "boom"), len(body))
    plan = {}
    nf = rng.randint(0, maxfaults)
    attempt = 1
    for _ in range(nf):
        pos = rng.choice(["connect", "begin", "commit"] + [("stmt", i + 1) for i in range(nreal)] * 2)
        if pos == "commit" and nreal < len(body):
            pos = "begin"
        r = rng.random()
        code = rng.choice(KV.RETRY) if r < 0.7 else rng.choice(KV.AMBIG) if r < 0.8 else rng.choice(KV.NORETRY)
        plan[(attempt, pos)] = code
        attempt += 1
        if code in KV.NORETRY:
            break
    return body, store0, plan


def run(ctx):
    loader.install()
    for name in ("gear.database", "hailtop.utils", "hailtop.aiotools.tasks"):
        logging.getLogger(name).setLevel(logging.CRITICAL + 1)
    H = Harness(ctx.seed)
    t0 = time.time()
    phases = {}
    wd = tlc.prepare_dir(ctx.build / "tlc", ["dbtx", "retry"])

    # ---- (1) the spec satisfies C27 ---------------------------------------------------------------------------
    stmts, maxbody, maxfaults = ("StmtsSmall", 2, 2) if ctx.quick else ("StmtsSmall", 3, 3)
    # free interleaving of the connection clean-up, with termination under fairness (no graph)
    fb, ff = (2, 2) if ctx.quick else (3, 2)
    live = not ctx.quick
    (wd / "MCfree.cfg").write_text(tlc.mk_cfg(spec="FairSpec" if live else None, constants=mc_consts("StmtsFull" if not ctx.quick else stmts, fb, ff, False),
                                               invariants=INVS + ["C27x_Released"], properties=PROPS + (["C27_Terminates", "C27x_AllClosed"] if live else [])))
    res = tlc.run(wd, "DbTxMC", "MCfree.cfg", workers=4)
    ctx.add_tlc(res, f"exhaustive DbTx, clean-up interleaved freely, bodies <= {fb} statements, <= {ff} faults, 5 fault kinds" + (", with liveness (termination, all connections closed)" if live else ""))
    for v in res.violations:
        ctx.violation(f"spec:{v.name}", {"config": "free", "trace": [(h, s) for h, s in v.trace]})
    # reduced form (clean-up first): the graph the fault plans are taken from
    (wd / "MC.cfg").write_text(tlc.mk_cfg(constants=mc_consts(stmts, maxbody, maxfaults, True), invariants=INVS + ["C27x_Released"], properties=PROPS))
    res = tlc.run(wd, "DbTxMC", "MC.cfg", workers=4, dump="g")
    ctx.add_tlc(res, f"exhaustive DbTx (clean-up first), bodies <= {maxbody} statements, <= {maxfaults} faults, 5 fault kinds; graph dumped")
    for v in res.violations:
        ctx.violation(f"spec:{v.name}", {"config": "eager", "trace": [(h, s) for h, s in v.trace]})
    if ctx.viol:
        return
    graph = tlc.parse_dot(wd / "g.dot")
    # vacuity guard from the graph itself: every action labels at least one edge
    counts = {}
    for (_s, lab, _d) in graph.edges:
        nm = tlc.parse_action_label(lab)[0]
        counts[nm] = counts.get(nm, 0) + 1
    res.coverage = {a: (counts.get(a, 0), counts.get(a, 0)) for a in ALL_ACTS}
    ctx.require_covered(res, list(ALL_ACTS), "DbTx")
    ctx.cov["tlc_runs"][-1]["actions_covered"] = dict(counts)
    phases["model_checking"] = round(time.time() - t0, 1)

    # ---- (2) fault plans from the graph, run on the real code ---------------------------------------------------------
    runs = []
    walks = walk.cover_walks(graph, rng=random.Random(ctx.seed))
    env_edges = {(s, lab, d) for (s, lab, d) in graph.edges if tlc.parse_action_label(lab)[0] in ENV_ACTS}
    covered = set()
    diverged = []
    k = ctx.seed
    for w in walks:
        k += 1
        body, store0, plan, exp = walk_to_plan(graph, w, k)
        r = H.run(body, store0, plan, variant=k, jitter=("lo", "hi", "mid")[k % 3])
        r["src"] = "graph"
        runs.append(r)
        got = env_projection(r["ev"])
        if got[:len(exp)] == exp:
            covered |= {e for e in w if e in env_edges}
        else:
            diverged.append(len(runs) - 1)
    n_graph = len(runs)
    # seeded random plans: longer bodies, more faults, every concrete code (also the two undecidable ones)
    rng = random.Random(ctx.seed * 7919 + 27)
    n_rand = 1000 if ctx.quick else 20000
    for _ in range(n_rand):
        k += 1
        body, store0, plan = random_case(rng, 4, 6)
        r = H.run(body, store0, plan, variant=rng.randrange(10 ** 6), jitter=rng.choice(("lo", "hi", "mid")))
        r["src"] = "random"
        runs.append(r)
    phases["executions"] = round(time.time() - t0, 1)

    # ---- (3) TLC validates every recorded call ----------------------------------------------------------------------------
    keep = ("a", "e", "c", "d", "val", "same")
    korder = ("k1", "k2")

    def compact(e):
        out = {f: e[f] for f in keep if f in e}
        out["s"] = [e["store"][k_] for k_ in korder]
        out["p"] = [[p_[k_] for k_ in korder] for p_ in e["pend"]]
        return out
    uniq = {}
    for idx, r in enumerate(runs):
        line = json.dumps({"body": r["body"], "store0": r["store0"], "ev": [compact(e) for e in r["ev"]]},
                          separators=(",", ":"))
        uniq.setdefault(line, idx)
    lines = list(uniq)
    first = [uniq[x] for x in lines]
    tf = wd / "traces.ndjson"
    tf.write_text("".join(x + "\n" for x in lines))
    nev = sum(len(runs[i]["ev"]) for i in first)
    (wd / "Trace.cfg").write_text(tlc.mk_cfg(spec="TraceSpec", constants=trace_consts(), invariants=INVS + ["TraceComplete"], deadlock=True))
    tres = tlc.run(wd, "DbTxTrace", "Trace.cfg", workers=min(ctx.workers, 8), env={"TRACE_FILE": tf}, cont=True)
    ctx.add_tlc(tres, f"trace validation of {len(runs)} calls of the real gear.database code ({len(lines)} distinct, {nev} events)")
    if not tres.violations and tres.distinct < nev:
        raise RuntimeError(f"trace validation explored {tres.distinct} states for {nev} events")
    seen_t = set()
    for v in tres.violations:
        last = v.trace[-1][1] if v.trace else {}
        tid, l = last.get("tid"), last.get("l")
        if not tid or tid in seen_t:
            continue
        seen_t.add(tid)
        r = runs[first[tid - 1]]
        e = r["ev"][l - 1] if l and l <= len(r["ev"]) else None
        err = last.get("err")
        kind = "app" if err == "app" else "retryable" if err in KV.RETRY else "ambiguous" if err in KV.AMBIG else "non-retryable" if err in KV.NORETRY else str(err)
        if v.kind == "deadlock" and e is not None:
            if e["a"] == "Backoff" and last.get("pc") == "failed":
                sig = f"decision:{kind}:retried" if err not in KV.RETRY else "backoff:delay-outside-band"
            elif e["a"] == "Raise" and last.get("pc") == "failed" and e.get("same"):
                sig = f"decision:{kind}:not-retried"
            elif e["a"] in ("Raise", "Return") and not e.get("same"):
                sig = f"outcome:{e['a'].lower()}:other-object"
            elif e["a"] == "Return":
                sig = f"outcome:returned-in-state-{last.get('pc')}"
            elif e["a"] == "CommitOk":
                sig = f"atomicity:commit-in-state-{last.get('pc')}" + ("-after-error" if err not in (None, "none") else "")
            else:
                sig = f"trace:{e['a']}:in-state-{last.get('pc')}"
        elif v.kind == "invariant":
            sig = f"atomicity:{v.name}" if v.name.startswith("C27") else f"trace:{v.name}"
        else:
            sig = f"trace:{v.kind}:{v.name}"
        ctx.violation(sig, {"trace_id": tid, "position": l, "unexplained_event": e, "spec_state": walk.tlc.tlaval.to_py(last),
                            "body": r["body"], "store0": r["store0"], "entry": r["entry"], "variant": r["variant"],
                            "faults_injected": r["injected"], "events": [{f: x[f] for f in x if f != "sql"} for x in r["ev"][:l]],
                            "final_store": r["final_store"]})
    if not tres.violations:
        if diverged:
            raise RuntimeError(f"{len(diverged)} graph plans were not followed by the run although TLC accepts every trace, e.g. run {diverged[0]}")
        if covered != env_edges:
            raise RuntimeError(f"{len(env_edges - covered)} environment edges of the graph were not exercised")
    phases["trace_validation"] = round(time.time() - t0, 1)

    # ---- evidence -----------------------------------------------------------------------------------------------------------------
    leaks = sum(1 for r in runs if r["open_sessions"] or r["leaked_tasks"])
    if leaks:
        ctx.note(f"{leaks} calls ended with a connection not given back (outside C27's statement)")
    faulty = [r for r in runs if r["injected"]]
    codes_used = sorted({c for r in runs for (_a, _p, c) in r["injected"]})
    pos_used = sorted({p if isinstance(p, str) else "stmt" for r in runs for (_a, p, _c) in r["injected"]})
    retried = sum(1 for r in runs for e in r["ev"] if e["a"] == "Backoff")
    ambig = {"retried": 0, "raised": 0}
    for r in runs:
        evs = r["ev"]
        for n, e in enumerate(evs):
            if e.get("e") in KV.AMBIG:
                nxt = next((x["a"] for x in evs[n + 1:] if x["a"] in ("Backoff", "Raise")), None)
                ambig["retried" if nxt == "Backoff" else "raised"] += 1
    ctx.cov.update(
        traces_validated_against_impl=len(runs),
        evaluations=len(runs),
        distinct_nontrivial=len({(json.dumps(r["body"]), json.dumps(sorted(map(str, r["injected"])))) for r in faulty}),
        exhaustive=True,
        rule=(f"TLC explores DbTx exhaustively (bodies <= {maxbody} statements over 5 statement forms, <= {maxfaults} faults of 5 kinds at connect/"
              f"begin/statement/commit); {n_graph} walks cover every edge of that graph and are run on the real code with each kind concretised "
              f"by real pymysql errors; {n_rand} seeded random plans (bodies <= 4, <= 6 faults, all {len(KV.CODES)} codes); every call is validated "
              f"by TLC; distinct_nontrivial = distinct (body, injected fault list) with >= 1 fault"),
        trace_events=nev, distinct_executions=len(lines),
        graph={"nodes": len(graph.nodes), "edges": len(set(graph.edges)), "environment_edges": len(env_edges), "environment_edges_exercised": len(covered),
               "walks": n_graph, "walks_diverged": len(diverged)},
        calls_with_faults=len(faulty), retries_observed=retried, codes_injected=codes_used, fault_positions=pos_used,
        ambiguous_codes_outcome=ambig, entry_points=H.entries_used,
        transaction_methods={f"{a}:{b}": n for (a, b), n in sorted(H.methods_used.items())},
        calls_returned=sum(1 for r in runs if r["raised"] is None), calls_raised=sum(1 for r in runs if r["raised"] is not None),
        phase_end_s=phases,
    )
    for r in (faulty[len(faulty) // 3], faulty[-1], runs[n_graph // 2]):
        ctx.sample({"body": r["body"], "store0": r["store0"], "entry": r["entry"], "faults": r["injected"],
                    "events": [e["a"] + (f"({e['e']})" if "e" in e else f"({e['d']})" if "d" in e else "") for e in r["ev"]],
                    "final_store": r["final_store"], "raised": r["raised"]})
    ctx.assume("MySQL is represented by checks/_dbtx_kv.py: a failed statement or COMMIT has no effect; error 1213 rolls the transaction back; a lost "
               "connection (2013, 2003, 2006, InterfaceError) discards the transaction and a later rollback() on it succeeds silently; "
               "a connection given back to the pool is rolled back and closed",
               "a fault at COMMIT means the commit was not applied",
               "(OperationalError, 1205) and (OperationalError, 2006) are in neither the must-retry nor the must-not-retry set",
               "must-retry = the (class, code) pairs of gear.database's tables: OperationalError 1040/1213/2003/2013, InternalError 1205; "
               "must-not-retry = other pymysql errors and application exceptions raised by the body",
               "one call at a time (no concurrent transactions); faults are not injected into the background release of a connection")
