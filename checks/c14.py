"""C14 - access control of the batch front end.

Spec: specs/fn/Acl.tla (world, callers, route classes, the four rules as Allowed, Policy on observations, the decorator
chain as stage functions) + specs/fn/AclPipeline.tla (the request pipeline as a state machine; TLC proves that the
chain implements Policy for every request).  Binding B3: TLC enumerates the requests (class, caller, world, target,
variant); the harness (checks/_acl.py) maps EVERY route registered in batch.front_end.front_end.routes to a class by
method and path pattern, drives each (route, request) through the REAL decorated aiohttp handler over the real SQL on
MiniMySQL, records outcome class / tables changed / items shown, and TLC judges every record with Policy.
"""
from __future__ import annotations

import collections
import json

from vlib import tlc

LEVEL = "model_checking"
MANIFEST = {
    "technique": "TLA+ specification of the access policy and of the decorator chain (Acl.tla, AclPipeline.tla): TLC model-checks that the chain implements the policy, enumerates all (route class, caller, world, target, variant) requests, and judges every recorded call of the real aiohttp handlers (call/return conformance, B3)",
    "text": "Exhaustive over every route registered in the front end's route table x 9 callers (owner, member, outsider, developer, auth service, another service account, inactive user, inactive developer, anonymous) x 4 membership worlds x 2 target batches/projects x input variants (fresh / known update token, three listing queries); each request runs through the real decorated handler on the real SQL (MiniMySQL) from a restored database, and the verdict on (outcome class, tables changed, items shown) is computed by TLC from the policy. Bounded-universe model checking of a configuration- and input-quantified property.",
    "note": "Trusts: TLC + CommunityModules; MiniMySQL; the route->class table (method + path patterns) and the request bodies in checks/_acl.py; the fake authenticator (_fetch_userdata replaced by a caller table) - session lookup in the auth service, CSRF and the other middlewares are not in the loop; JSON_QUOTE/JSON_CONTAINS modelled as SQL functions; listings whose SQL (WITH ...) the engine cannot run are judged on the user bound to their membership filter only; a handler stopped by an unsupported statement counts as 'body reached'.",
    "design_ref": "DESIGN.md section 5, C14",
}

WORLDS = ("base", "open1", "owner_removed", "extra_members")
PIPELINE_INVARIANTS = ["TypeOK", "PolicyHolds", "ExactGate", "RefusalIsPure", "AgreesWithPredicted", "ListingShowsOnlyReadable"]
REACHABILITY = ["NeverRefusedAtAuth", "NeverRefusedAtGate", "NeverRefusedAtHandler", "NeverShows", "NeverChanges"]


def run(ctx):
    from checks import _acl

    # ---- 1. the specification alone: the decorator chain implements the policy ---------------------------------------
    wd = tlc.prepare_dir(ctx.build / "tlc", ["fn"])
    # one run with -continue: the invariants must hold; each reachability companion must be VIOLATED (vacuity: the situation
    # it denies - a refusal at each stage, a listing that shows something, a write - is reachable)
    (wd / "AclMC.cfg").write_text(tlc.mk_cfg(spec="Spec", invariants=PIPELINE_INVARIANTS + REACHABILITY))
    res = tlc.run(wd, "AclPipeline", "AclMC.cfg", workers=1, coverage=True, cont=True)
    hit = {v.name for v in res.violations}
    if hit - set(REACHABILITY) or not res.distinct:
        raise RuntimeError(f"AclPipeline does not satisfy its invariants: {sorted(hit - set(REACHABILITY))}")
    if set(REACHABILITY) - hit:
        raise RuntimeError(f"vacuity: {sorted(set(REACHABILITY) - hit)} hold, the situations they deny are unreachable in AclPipeline")
    ctx.add_tlc(res, "AclPipeline: every request through the decorator chain; PolicyHolds, ExactGate, RefusalIsPure, AgreesWithPredicted, "
                     "ListingShowsOnlyReadable hold; the 5 reachability companions are violated as they must")
    ctx.require_covered(res, ["AuthStage", "GateStage", "HandlerStage", "Body"], "AclPipeline")

    # ---- 2. TLC enumerates the requests ------------------------------------------------------------------------------------
    env = {"ACL_INPUTS": wd / "inputs.ndjson", "ACL_CASES": wd / "cases.ndjson", "ACL_VERDICT": wd / "verdict.ndjson"}
    tlc.evaluate(wd, "AclGen", env=env)
    requests = [json.loads(l) for l in env["ACL_INPUTS"].read_text().splitlines() if l.strip()]
    by_cls = collections.defaultdict(list)
    for rq in requests:
        by_cls[rq["cls"]].append(rq)

    # ---- 3. drive every registered route -------------------------------------------------------------------------------------
    reps = ["plain"] if ctx.quick else ["plain", "cancelled", "deleted", "closed_project", "altids", "badbody"] + [f"fuzz{i}" for i in range(1, 7)]
    own_world = {"cancelled", "deleted", "closed_project"}
    worlds = {}

    def world(name, rep):
        key = (name, rep if rep in own_world else "plain")
        if key not in worlds:
            worlds[key] = _acl.World(name, key[1])
        return worlds[key]

    fe = world("base", "plain").fe
    routes = [(r.method, r.path, r.handler.__name__) for r in fe.routes]
    if len(routes) < 20 or len({(m, p) for m, p, _ in routes}) != len(routes):
        raise RuntimeError(f"unexpected route table: {len(routes)} routes")
    cls_of = {(m, p): _acl.classify(m, p) for m, p, _ in routes}
    per_class = collections.Counter(cls_of.values())
    missing = [c for c in ("public", "authed", "create", "batch_member", "batch_owner", "bp_admin", "bp_read", "list_batches", "list_billing")
               if per_class[c] == 0]
    if missing:
        raise RuntimeError(f"route classes without any registered route: {missing}")

    cases, meta = [], []
    for rep in reps:
        for (m, p, h) in routes:
            cls = cls_of[(m, p)]
            for rq in by_cls[cls]:
                if rep == "badbody" and m not in ("POST", "PATCH"):
                    continue
                if rep == "altids" and not any(x in p for x in ("{job_id}", "{job_group_id}", "{container}")):
                    continue
                W = world(rq["world"], rep)
                W.restore()
                url, data, ctype, hdrs = _acl.concrete(m, p, cls, rq["world"], rq["target"], rq["variant"], rep, ctx.seed)
                o = W.call(m, url, data, rq["caller"], ctype, hdrs)
                mode, seen, fuser = ("none", [], "")
                if cls in ("list_batches", "list_billing"):
                    mode, seen, fuser = W.listing_observation(o)
                cases.append({"cls": cls, "caller": rq["caller"], "world": rq["world"], "target": rq["target"], "variant": rq["variant"],
                              "outcome": o.outcome, "status": int(o.status), "changed": bool(o.changed), "seen": seen, "mode": mode, "fuser": fuser})
                meta.append({"route": f"{m} {p}", "handler": h, "url": url, "rep": rep, "changed_tables": o.changed_tables,
                             "exception": (type(o.exc).__name__ + ": " + str(o.exc)[:160]) if o.exc is not None else None,
                             "location": str(o.location) if o.location else None, "unsupported_sql": bool(o.unsupported)})
                if cls == "list_batches" and rep == "plain" and rq["variant"] == "all":
                    # the same listing under every search term of the route's query language: a search never widens what may be seen
                    for ti in range(max(len(_acl.Q_V1_ALL), len(_acl.Q_V2_ALL))):
                        url2, data2, ctype2, hdrs2 = _acl.concrete(m, p, cls, rq["world"], rq["target"], rq["variant"], f"term:{ti}", ctx.seed)
                        W.restore()
                        o2 = W.call(m, url2, data2, rq["caller"], ctype2, hdrs2)
                        mode2, seen2, fuser2 = W.listing_observation(o2)
                        cases.append({"cls": cls, "caller": rq["caller"], "world": rq["world"], "target": rq["target"], "variant": rq["variant"],
                                      "outcome": o2.outcome, "status": int(o2.status), "changed": bool(o2.changed), "seen": seen2, "mode": mode2, "fuser": fuser2})
                        meta.append({"route": f"{m} {p}", "handler": h, "url": url2, "rep": f"term:{ti}", "changed_tables": o2.changed_tables,
                                     "exception": (type(o2.exc).__name__ + ": " + str(o2.exc)[:160]) if o2.exc is not None else None,
                                     "location": str(o2.location) if o2.location else None, "unsupported_sql": bool(o2.unsupported)})
    # identical observation tuples (same request, same answer on different routes) are judged once
    uniq, index = [], {}
    for c in cases:
        k = json.dumps(c, sort_keys=True)
        if k not in index:
            index[k] = len(uniq)
            uniq.append(c)
    with open(env["ACL_CASES"], "w") as f:
        for c in uniq:
            f.write(json.dumps(c) + "\n")

    # ---- 4. TLC judges every record -------------------------------------------------------------------------------------------
    tlc.evaluate(wd, "AclVerdict", env=env, timeout=1800)
    judged = [json.loads(l) for l in env["ACL_VERDICT"].read_text().splitlines() if l.strip()]
    if len(judged) != len(uniq):
        raise RuntimeError(f"verdict has {len(judged)} judgements for {len(uniq)} distinct observations")
    verdict = [judged[index[json.dumps(c, sort_keys=True)]] for c in cases]

    # vacuity of the binding: every route is reached by somebody and refuses somebody (public routes: reached by everybody)
    reached, refused = collections.Counter(), collections.Counter()
    for c, mt, v in zip(cases, meta, verdict):
        if c["outcome"] in ("passed", "clienterror", "servererror"):
            reached[mt["route"]] += 1
        if c["outcome"] == "refused" and not v["allowed"]:
            refused[mt["route"]] += 1
    never_reached = [f"{m} {p}" for m, p, _ in routes if reached[f"{m} {p}"] == 0]
    never_refused = [f"{m} {p}" for m, p, _ in routes if cls_of[(m, p)] != "public" and refused[f"{m} {p}"] == 0]
    if len(never_reached) > len(routes) // 10:
        raise RuntimeError(f"vacuous: no caller got past the access checks of {never_reached}")
    n_disallowed = sum(1 for v in verdict if v["wf"] and not v["allowed"])
    n_allowed_passed = sum(1 for c, v in zip(cases, verdict) if v["allowed"] and c["outcome"] == "passed")
    n_changed = sum(1 for c in cases if c["changed"])
    n_rows = sum(1 for c in cases if c["mode"] == "rows" and c["seen"])
    if not (n_disallowed and n_allowed_passed and n_changed and n_rows):
        raise RuntimeError(f"vacuous run: disallowed={n_disallowed} allowed-and-passed={n_allowed_passed} changed={n_changed} listings-with-rows={n_rows}")

    # ---- 5. violations, grouped by root cause ------------------------------------------------------------------------------------
    groups = collections.OrderedDict()
    for c, mt, v in zip(cases, meta, verdict):
        if v["ok"]:
            continue
        if not v["wf"]:
            what = "malformed-observation"
        elif not v["gate"]:
            what = "tables-changed" if c["changed"] else "not-refused"
        elif not v["seen"]:
            what = "shows-unreadable"
        else:
            what = "filter-user"
        kind = _acl.caller_kind(c["cls"], c["caller"]) if what in ("tables-changed", "not-refused") else "listing"
        sig = f"acl:{c['cls']}:{mt['handler']}:{kind}:{what}"
        g = groups.setdefault(sig, {"n": 0, "examples": []})
        g["n"] += 1
        if len(g["examples"]) < 5:
            g["examples"].append({**{k: c[k] for k in ("caller", "world", "target", "variant", "outcome", "status", "changed", "seen", "mode", "fuser")},
                                  **{k: mt[k] for k in ("route", "url", "rep", "changed_tables", "exception")}, "model_answer": v["model"]})
    for sig, g in groups.items():
        ctx.violation(sig, {"occurrences": g["n"], "examples": g["examples"]})

    # ---- 6. evidence ---------------------------------------------------------------------------------------------------------------
    disagree = [(c, mt, v) for c, mt, v in zip(cases, meta, verdict) if v["wf"] and not v["agree"]]
    dis_kinds = collections.Counter(f"{mt['handler']}: model {v['model']}, real {c['status']} {c['outcome']}" for c, mt, v in disagree)
    filt_routes = sorted({mt["route"] for c, mt in zip(cases, meta) if c["mode"] == "filter"})
    unsup_routes = sorted({mt["route"] for mt in meta if mt["unsupported_sql"]})
    create_nonmember = collections.Counter(c["outcome"] for c in cases if c["cls"] == "create" and c["caller"] in ("u3", "dev", "auth", "ci"))
    ctx.cov.update(
        states=ctx.cov["states"] + 2 * len(cases), transitions=ctx.cov["transitions"] + len(cases),
        traces_validated_against_impl=len(cases), evaluations=len(cases), distinct_observations_judged_by_tlc=len(uniq),
        distinct_nontrivial=len({(mt["route"], c["caller"], c["world"], c["target"], c["variant"], mt["rep"]) for c, mt, v in zip(cases, meta, verdict) if not v["allowed"]}),
        exhaustive=True,
        rule=f"TLC enumerates {len(requests)} requests (9 route classes x 9 callers x 4 worlds x targets x variants); every one of the {len(routes)} "
             f"registered routes is driven with every request of its class in {len(reps)} concretisation(s) {reps}; each record is judged by TLC with Policy; "
             "non-trivial = a request by a caller the policy does not allow; a call/return pair counts as two states and one transition")
    ctx.cov["routes"] = {"registered": len(routes), "per_class": dict(per_class)}
    ctx.cov["cases"] = {"total": len(cases), "disallowed": n_disallowed, "allowed_and_passed": n_allowed_passed, "tables_changed": n_changed,
                        "listings_with_rows": n_rows, "outcomes": dict(collections.Counter(c["outcome"] for c in cases))}
    ctx.cov["model_vs_real_answer"] = {"agree": len(cases) - len(disagree), "differ": len(disagree), "kinds": dict(dis_kinds.most_common(12))}
    ctx.cov["routes_whose_body_answers_404_to_everybody"] = never_reached
    ctx.cov["routes_that_refused_no_disallowed_caller"] = never_refused
    ctx.cov["listings_judged_on_filter_only"] = filt_routes
    ctx.cov["routes_with_unsupported_sql_in_body"] = unsup_routes
    ctx.cov["create_batch_in_foreign_project"] = dict(create_nonmember)
    picks = [i for i, (c, v) in enumerate(zip(cases, verdict)) if not v["allowed"]][:: max(1, n_disallowed // 3)][:3]
    picks += [i for i, c in enumerate(cases) if c["mode"] == "rows" and c["seen"]][:1] + [i for i, c in enumerate(cases) if c["changed"]][:2]
    for i in picks:
        ctx.sample({**cases[i], "route": meta[i]["route"], "url": meta[i]["url"], "judgement": verdict[i]})
    ctx.assume("route classes are assigned by method and path pattern (checks/_acl.py classify); a non-public route that matches nothing is 'authed'",
               "callers are identified by a fake authenticator (gear.auth Authenticator._fetch_userdata replaced); the auth service's own session handling is out of scope",
               "handlers are invoked directly from the route table: the CSRF / frozen / monitoring middlewares installed in run() are not in the loop",
               "outcome classes: refused = 401/403/404/redirect to the login page; clienterror = other 4xx; servererror = 5xx or an exception production turns into 500; "
               "passed = 2xx, another redirect, or a handler body stopped at SQL the engine cannot execute",
               "creating a batch in a billing project one does not belong to is recorded (create_batch_in_foreign_project) but only rule 1 is demanded of it, as in the statement")
