"""C36 helper: the function registry an `Apply` node is resolved against.

The Python front end carries no table of registered functions (hail.ir.ir._function_registry only holds
user-defined functions): an `(Apply name (type args) return-type args...)` it emits is resolved by the engine's
IRFunctionRegistry, which is filled by the `register*("name", parameter types..., return type)` calls in
hail/hail/src/is/hail/expr/ir/functions/*.scala of the same working tree.  This module READS those declarations
(it does not run Scala) and turns them into signature terms for the specification:

    {"name", "kind": "ir" | "jvm", "tparams": [type], "params": [type], "ret": type}

types are the type terms of FrontEndTypes.tla plus {"k": "var", "n": name, "c": condition or ""}.
kind "ir": registerIR* (an IR-defined function: the engine's lookupIR unifies type parameters and parameter types,
the declared return type is NOT consulted);  kind "jvm": everything else (lookupFunction also unifies the return type).

A name is JUDGED only if every registration of it was understood (`complete[name]`); the names registered in a
loop over `arrayOps` (ArrayFunctions.scala) are expanded from that table.
"""
from __future__ import annotations

import os
import re
from pathlib import Path

FUNCTIONS_DIR = "hail/hail/src/is/hail/expr/ir/functions"
PRIM = {"TInt32": "int32", "TInt64": "int64", "TFloat32": "float32", "TFloat64": "float64", "TBoolean": "bool", "TString": "str"}
OTHER = {"TCall": "call", "TVoid": "void", "TBinary": "binary", "TRNGState": "rng_state"}


class Unparsed(Exception):
    pass


def _split_top(s):
    """split at top-level commas"""
    out, depth, cur, instr = [], 0, [], False
    i = 0
    while i < len(s):
        ch = s[i]
        if instr:
            cur.append(ch)
            if ch == "\\":
                cur.append(s[i + 1])
                i += 1
            elif ch == '"':
                instr = False
        elif ch == '"':
            instr = True
            cur.append(ch)
        elif ch in "([{":
            depth += 1
            cur.append(ch)
        elif ch in ")]}":
            depth -= 1
            cur.append(ch)
        elif ch == "," and depth == 0:
            out.append("".join(cur).strip())
            cur = []
        else:
            cur.append(ch)
        i += 1
    if "".join(cur).strip():
        out.append("".join(cur).strip())
    return out


def _balanced(text, i):
    """text[i] == '(' -> index just after the matching ')'"""
    depth, instr = 0, False
    j = i
    while j < len(text):
        ch = text[j]
        if instr:
            if ch == "\\":
                j += 1
            elif ch == '"':
                instr = False
        elif ch == '"':
            instr = True
        elif ch == "(":
            depth += 1
        elif ch == ")":
            depth -= 1
            if depth == 0:
                return j + 1
        j += 1
    raise Unparsed("unbalanced")


def parse_type(s, aliases):
    s = s.strip()
    if s in PRIM:
        return {"k": PRIM[s]}
    if s in OTHER:
        return {"k": "other", "s": OTHER[s]}
    if s in aliases:
        return parse_type(aliases[s], aliases)
    m = re.fullmatch(r"([\w.]+)\((.*)\)", s, flags=re.S)
    if not m:
        raise Unparsed(s)
    head, args = m.group(1).split(".")[-1], _split_top(m.group(2))
    if head in ("tlocus", "tinterval", "tvariant", "TLocus", "TNDArray"):
        # genetics / n-d array types: outside the universe of this check; an opaque pattern that matches none of its types
        return {"k": "other", "s": "opaque:" + re.sub(r"\s+", "", s)}
    if head == "TInterval":
        return {"k": "interval", "e": parse_type(args[0], aliases)}
    if head in ("tv", "TVariable"):
        names = [a.strip().strip('"') for a in args]
        return {"k": "var", "n": names[0], "c": names[1] if len(names) > 1 else ""}
    if head == "tnum":
        return {"k": "var", "n": args[0].strip().strip('"'), "c": "numeric"}
    if head in ("TArray", "TSet", "TStream"):
        return {"k": {"TArray": "array", "TSet": "set", "TStream": "stream"}[head], "e": parse_type(args[0], aliases)}
    if head == "TDict":
        return {"k": "dict", "key": parse_type(args[0], aliases), "val": parse_type(args[1], aliases)}
    if head == "TTuple":
        return {"k": "tuple", "ts": [parse_type(a, aliases) for a in args]}
    if head == "TStruct":
        ns, ts = [], []
        for a in args:
            mm = re.fullmatch(r'"([^"]*)"\s*->\s*(.*)', a.strip(), flags=re.S)
            if not mm:
                raise Unparsed(a)
            ns.append(mm.group(1))
            ts.append(parse_type(mm.group(2), aliases))
        return {"k": "struct", "ns": ns, "ts": ts}
    raise Unparsed(s)


def _seq_types(s, aliases):
    m = re.fullmatch(r"(?:ArraySeq|Array|FastSeq|IndexedSeq|Seq)\s*(?:\[[^\]]*\])?\s*\((.*)\)", s.strip(), flags=re.S)
    if not m:
        raise Unparsed(s)
    return [parse_type(a, aliases) for a in _split_top(m.group(1))]


_CALL = re.compile(r"\bregister(IR|SCode|Code|IEmitCode|EmitCode|ScalaFunction|WrappedScalaFunction|JavaStaticFunction)(\d?)(t?)\s*\(")


def _one(form, n, t, args, aliases):
    """-> (tparams, params, ret)"""
    kw = [a for a in args if re.match(r"\w+\s*=[^=>]", a)]
    args = [a for a in args if a not in kw]
    rest = args[1:]
    tparams = []
    if t:                                   # register..Nt(name, typeParams, t1..tn, rt, pt)
        tparams = _seq_types(rest[0], aliases)
        rest = rest[1:]
    if n:
        k = int(n)
        params = [parse_type(a, aliases) for a in rest[:k]]
        ret = parse_type(rest[k], aliases)
    else:                                   # register..(name, Seq(types), rt, ...)
        params = _seq_types(rest[0], aliases)
        ret = parse_type(rest[1], aliases)
    for a in kw:
        mm = re.match(r"typeParameters\s*=\s*(.*)", a, flags=re.S)
        if mm:
            tparams = _seq_types(mm.group(1), aliases)
    return tparams, params, ret


def load(repo=None):
    """-> (signatures by name, complete by name, problems)"""
    repo = Path(repo or os.environ.get("VERIF_REPO", "/repo"))
    d = repo / FUNCTIONS_DIR
    sigs, complete, problems = {}, {}, []
    if not d.is_dir():
        return sigs, complete, [f"{d} not found"]
    for f in sorted(d.glob("*.scala")):
        if f.name == "Functions.scala":
            continue                        # the definitions of the register* helpers themselves
        text = f.read_text()
        text = re.sub(r"//[^\n]*", "", text)
        aliases = {m.group(1): m.group(2) for m in re.finditer(r"\bval\s+(\w+)\s*(?::\s*\w+)?\s*=\s*(T\w+\([^\n]*\))\s*\n", text)}
        for m in _CALL.finditer(text):
            try:
                end = _balanced(text, m.end() - 1)
            except Unparsed:
                continue
            args = _split_top(text[m.end():end - 1])
            if not args:
                continue
            nm = re.fullmatch(r'"([^"]+)"', args[0])
            if not nm:
                if not re.fullmatch(r"\w+", args[0]):
                    problems.append(f"{f.name}: computed name {args[0][:30]!r}")
                continue                    # a name held in a variable: arrayOps (below) / the helpers' own parameters
            name = nm.group(1)
            try:
                tp, ps, rt = _one(m.group(1), m.group(2), m.group(3), args, aliases)
                sigs.setdefault(name, []).append({"name": name, "kind": "ir" if m.group(1) == "IR" else "jvm", "tparams": tp, "params": ps, "ret": rt,
                                                  "src": f.name})
                complete.setdefault(name, True)
            except (Unparsed, IndexError, ValueError) as ex:
                complete[name] = False
                problems.append(f"{f.name}: {name}: {str(ex)[:60]}")
        if f.name == "ArrayFunctions.scala":
            # for ((stringOp, argType, retType, irOp) <- arrayOps): op(array<A>, A), op(A, array<A>), op(array<A>, array<A>) -> array<R>
            m = re.search(r"val arrayOps\b.*?=\s*Array\(", text, flags=re.S)
            if m:
                end = _balanced(text, m.end() - 1)
                for tup in _split_top(text[m.end():end - 1]):
                    parts = _split_top(tup.strip()[1:-1]) if tup.strip().startswith("(") else []
                    if len(parts) < 3 or not re.fullmatch(r'"\w+"', parts[0]):
                        problems.append(f"arrayOps entry not understood: {tup[:40]!r}")
                        continue
                    name = parts[0].strip('"')
                    try:
                        a, r = parse_type(parts[1], aliases), parse_type(parts[2], aliases)
                    except Unparsed as ex:
                        complete[name] = False
                        problems.append(f"arrayOps {name}: {ex}")
                        continue
                    arr = lambda x: {"k": "array", "e": x}  # noqa: E731
                    for ps in ([arr(a), a], [a, arr(a)], [arr(a), arr(a)]):
                        sigs.setdefault(name, []).append({"name": name, "kind": "ir", "tparams": [], "params": ps, "ret": arr(r), "src": "ArrayFunctions.scala:arrayOps"})
                    complete.setdefault(name, True)
    return sigs, complete, problems


# the functions whose Apply nodes are judged: collection methods, array arithmetic, a few scalar functions - names whose
# registrations are all literal and were all understood (`complete`).  Names that are (also) registered under a computed
# name (s"to$name", the min/max family of UtilFunctions) are not judged.
JUDGED = {"contains", "add", "remove", "union", "intersection", "difference", "isSubset", "append", "extend", "indexArray", "get",
          "index", "keySet", "keys", "values", "dict", "dictToArray", "toSet", "isEmpty", "sub", "mul", "div", "floordiv", "mod", "pow",
          "slice", "length", "concat", "land", "lor", "sum", "product", "mean", "flatten", "str"}


def judged_signatures(repo=None):
    """-> ({name: [signature]}, problems) for the judged names that were completely understood"""
    sigs, complete, problems = load(repo)
    out = {}
    for n in sorted(JUDGED):
        if complete.get(n) and sigs.get(n):
            out[n] = [{k: v for k, v in s.items() if k != "src"} for s in sigs[n]]
    return out, [p for p in problems if any(f": {n}:" in p or p.startswith(f"arrayOps {n}") for n in JUDGED)]
