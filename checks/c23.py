"""C23 - ranged reads return exactly the requested bytes (local, GCS, S3, Azure Blob).

Spec: specs/copy/RangeRead.tla.  (1) TLC model-checks the byte-range protocol (client header construction,
RFC 7233 server, stream reads) against the property relation Ok for all object sizes / offsets / lengths, with a
falsifiability self-test (off-by-one header constants must violate ProtocolOk).  (2) Binding B3: TLC enumerates
every call of the bounded universe, the harness performs it on the real LocalAsyncFS, GoogleStorageAsyncFS (real
GoogleStorageClient over a fake HTTP session), S3AsyncFS (fake boto client) and AzureAsyncFS (fake blob service
client); TLC judges every outcome with Ok and validates every response the fake stores served against the TLA+
server action.
"""
from __future__ import annotations

import asyncio
import json
import shutil
from concurrent.futures import ThreadPoolExecutor

from vlib import loader, tlc
from vlib.runner import MachineryError

LEVEL = "model_checking"
MANIFEST = {
    "technique": "TLA+ specification of the byte-range protocol (RangeRead.tla: Request/Serve/stream-read actions, RFC 7233 server) model-checked by TLC; call/return conformance (B3): TLC enumerates every (size, offset, length, mode) call, the real open_from/read_from/read_range of the four AsyncFS back ends are executed, TLC computes the verdict and validates the fake object stores against the TLA+ server",
    "text": "Exhaustive over object sizes 0..MaxN, offsets 0..n+1, lengths none/0..n+1, read()/chunked read(k)/readexactly and inclusive/exclusive range reads; the protocol model is checked exhaustively (invariants ProtocolOk, HeaderOk, ServedOk, liveness Terminates) and shown falsifiable with off-by-one headers; each real call is judged by TLC against the relation Ok. Bounded-universe model checking of an input-quantified property.",
    "note": "Trusts: TLC + CommunityModules; the in-memory object stores of checks/_copy_fakes.py as models of GCS JSON API / S3 GetObject / azure-storage-blob download_blob (each served response is re-validated by TLC against ServeRange; the Azure SDK's 416 behaviour for an explicit offset at/after the end is an assumption); the local file system.",
    "design_ref": "DESIGN.md section 5, C23; Appendix F",
}

BACKENDS = ("local", "gcs", "s3", "azure")


async def _do(fs, url, op):
    k, start = op["kind"], op["start"]
    length = None if op["len"] == -1 else op["len"]
    if k == "read_from":
        return await fs.read_from(url, start)
    if k == "open_read":
        async with await fs.open_from(url, start, length=length) as f:
            return await f.read()
    if k == "open_chunked":
        out = b""
        async with await fs.open_from(url, start, length=length) as f:
            for _ in range(4 * (len(url) + 64)):
                b = await f.read(op["k"])
                if not b:
                    return out
                out += b
        raise MachineryError("chunked read did not reach end of stream")
    if k == "read_range":
        if op["incl"]:
            return await fs.read_range(url, start, start + length - 1)
        return await fs.read_range(url, start, start + length, end_inclusive=False)
    raise MachineryError(f"unknown op {k}")


async def _harness(ctx, inputs, azure_chunk):
    from checks import _copy_fakes as F
    from hailtop.aiotools import LocalAsyncFS
    from hailtop.aiotools.fs.exceptions import UnexpectedEOFError

    data = ctx.build / "data"
    if data.exists():
        shutil.rmtree(data)
    data.mkdir(parents=True)
    cases = []
    not_covered = {}
    with ThreadPoolExecutor(max_workers=4) as tp:
        stores = {be: F.Store() for be in BACKENDS}
        fss = {}
        makers = {"local": lambda: LocalAsyncFS(tp), "gcs": lambda: F.make_gcs_fs(stores["gcs"]),
                  "s3": lambda: F.make_s3_fs(stores["s3"], tp), "azure": lambda: F.make_azure_fs(stores["azure"], azure_chunk)}
        for be in BACKENDS:
            try:
                fss[be] = makers[be]()
            except Exception as e:  # a class that cannot be built on the stubs is reported, not silently skipped
                not_covered[be] = f"{type(e).__name__}: {e}"
        urls = {"gcs": "gs://bkt/dir/obj{n}", "s3": "s3://bkt/dir/obj{n}",
                "azure": "https://acct.blob.core.windows.net/cont/dir/obj{n}", "local": str(data / "obj{n}")}
        bucket = {"gcs": "bkt", "s3": "bkt", "azure": "cont"}
        sizes = sorted({c["n"] for c in inputs})
        for n in sizes:
            body = bytes(range(1, n + 1))
            (data / f"obj{n}").write_bytes(body)
            for be in ("gcs", "s3", "azure"):
                stores[be].objects[(bucket[be], f"dir/obj{n}")] = body
        for c in inputs:
            for be, fs in fss.items():
                st = stores[be]
                st.log.clear()
                try:
                    b = await _do(fs, urls[be].format(n=c["n"]), c["op"])
                    out = {"kind": "bytes", "data": list(b)}
                except UnexpectedEOFError:
                    out = {"kind": "eof", "data": []}
                except MachineryError:
                    raise
                except Exception as e:
                    out = {"kind": "error:" + type(e).__name__, "data": []}
                cases.append({"be": be, "n": c["n"], "op": c["op"], "reqs": list(st.log), "out": out})
    return cases, not_covered


def run(ctx):
    loader.install()
    max_n = 5 if ctx.quick else 9
    chunks = "{1, 2, 5}" if ctx.quick else "{1, 2, 3, 5, 9}"
    consts = {"MaxN": max_n, "Chunks": chunks, "HeaderBug": '"none"'}
    wd = tlc.prepare_dir(ctx.build / "tlc", ["copy"])

    env = {"RR_INPUTS": wd / "inputs.ndjson", "RR_CASES": wd / "cases.ndjson", "RR_VERDICT": wd / "verdict.json"}
    tw = min(4, ctx.workers)

    # ---- 1. the protocol model (the same TLC run evaluates ASSUME Gen: the input universe, and ASSUME OkIsTight) ---
    (wd / "RR.cfg").write_text(tlc.mk_cfg(spec="Spec", constants=consts,
                                          invariants=["TypeOK", "ProtocolOk", "HeaderOk", "ServedOk"],
                                          properties=[] if ctx.quick else ["Terminates"]))
    res = tlc.run(wd, "RangeReadGen", "RR.cfg", workers=tw, coverage=True, env=env)
    ctx.add_tlc(res, f"RangeRead protocol model, MaxN={max_n}, Chunks={chunks}: ProtocolOk, HeaderOk, ServedOk" + ("" if ctx.quick else ", Terminates (liveness)") + "; ASSUME OkIsTight")
    ctx.require_covered(res, ["OpenEmpty", "Request", "Serve", "Open416", "OpenOk", "ReadAll", "ReadChunk", "ReadExactly"])
    for v in res.violations:
        if v.kind == "assumption":
            raise MachineryError(f"assumption of RangeReadGen is false: {v.name}")
        ctx.violation(f"range:protocol-model:{v.name}", {"trace": v.trace[-3:]})
    # (thorough) the antecedents of the invariants are reachable; the "minus" header bug is caught too
    for bug in (() if ctx.quick else ("minus",)):
        (wd / "RRbug.cfg").write_text(tlc.mk_cfg(spec="Spec", constants=dict(consts, HeaderBug=f'"{bug}"'), invariants=["ProtocolOk"]))
        r = tlc.run(wd, "RangeRead", "RRbug.cfg", workers=tw)
        if not any(v.name == "ProtocolOk" for v in r.violations):
            raise MachineryError(f"ProtocolOk is not falsified by the off-by-one header '{bug}': the property is vacuous")
    for reach in (() if ctx.quick else ("NeverDoneEof", "NeverPartial")):
        (wd / "RRreach.cfg").write_text(tlc.mk_cfg(spec="Spec", constants=consts, invariants=[reach]))
        r = tlc.run(wd, "RangeRead", "RRreach.cfg", workers=tw)
        if not r.violations:
            raise MachineryError(f"reachability companion {reach} holds: part of the property is vacuous")

    # ---- 2. B3: execute every generated call, judge ------------------------------------------------
    inputs = [json.loads(l) for l in env["RR_INPUTS"].read_text().splitlines() if l.strip()]
    if not inputs:
        raise MachineryError("TLC generated no inputs")
    azure_chunk = 1 + ctx.seed % 3
    loop = asyncio.new_event_loop()
    try:
        cases, not_covered = loop.run_until_complete(_harness(ctx, inputs, azure_chunk))
    finally:
        loop.close()
    for be, why in not_covered.items():
        ctx.note(f"backend {be} NOT COVERED: could not be instantiated on the stubs ({why})")
    if "local" in not_covered or len(not_covered) == len(BACKENDS):
        raise MachineryError(f"no back end could be driven: {not_covered}")
    with open(env["RR_CASES"], "w") as f:
        for c in cases:
            f.write(json.dumps(c) + "\n")
    # one TLC run: ASSUME Verdict (the B3 verdict) and the falsifiability self-test of the protocol model: with an
    # off-by-one header (HeaderBug = "plus") the invariant ProtocolOk must be violated
    (wd / "RRbug.cfg").write_text(tlc.mk_cfg(spec="Spec", constants=dict(consts, HeaderBug='"plus"'), invariants=["ProtocolOk"]))
    r = tlc.run(wd, "RangeReadVerdict", "RRbug.cfg", workers=tw, env=env)
    if any(v.kind == "assumption" for v in r.violations):
        raise MachineryError("ASSUME Verdict of RangeReadVerdict failed")
    if not any(v.name == "ProtocolOk" for v in r.violations):
        raise MachineryError("ProtocolOk is not falsified by the off-by-one header 'plus': the property is vacuous")
    verdict = json.loads(env["RR_VERDICT"].read_text())
    if verdict["cases"] != len(cases):
        raise MachineryError(f"TLC judged {verdict['cases']} cases, harness recorded {len(cases)}")
    if verdict["bad_env"]:
        i = verdict["bad_env"][0]
        raise MachineryError(f"a fake object store served a response that is not RangeRead!ServeRange: {cases[i - 1]}")
    if verdict["eof_ok"] == 0 or verdict["nonempty_ok"] == 0:
        raise MachineryError("vacuous: no accepted EOF outcome or no accepted non-empty read")
    served = {be: sum(len(c["reqs"]) for c in cases if c["be"] == be) for be in BACKENDS if be not in not_covered}
    for be in ("gcs", "s3", "azure"):
        if be in served and served[be] == 0:
            raise MachineryError(f"the fake {be} store never saw a range request")

    for b in verdict["bad"]:
        c = cases[b["i"] - 1]
        op = c["op"]
        shape = "len" if op["len"] > 0 else ("nolen" if op["len"] == -1 else "len0")
        where = "inside" if op["start"] < c["n"] else "at_or_past_end"
        ctx.violation(f"range:{c['be']}:{op['kind']}:{shape}:{where}:{b['cls']}",
                      {"backend": c["be"], "object_size": c["n"], "call": op, "outcome": c["out"],
                       "range_requests_served": c["reqs"],
                       "expected": "bytes of the object at offsets [start, start+len) (clamped for streaming reads), "
                                   "or UnexpectedEOFError where the relation allows it (RangeRead!Ok)"})

    n_calls = len(cases)
    ctx.cov["states"] += 2 * n_calls
    ctx.cov["transitions"] += n_calls + sum(served.values())
    ctx.cov.update(traces_validated_against_impl=n_calls, evaluations=n_calls,
                   distinct_nontrivial=len({json.dumps([c["n"], c["op"]], sort_keys=True) for c in cases
                                            if c["n"] >= 1 and c["op"]["start"] < c["n"] and c["op"]["len"] != 0}),
                   exhaustive=True,
                   rule=f"TLC enumerates every call: object size 0..{max_n}, start 0..n+1, length none/0..n+1, "
                        f"read()/read(k) for k in {chunks}/read_range inclusive+exclusive ({len(inputs)} calls) on each of "
                        f"{len(BACKENDS) - len(not_covered)} back ends; every outcome judged by TLC with RangeRead!Ok; every served "
                        "range response validated against RangeRead!ServeRange; non-trivial = non-empty span starting inside the object")
    ctx.cov["backends"] = {be: ("not covered: " + not_covered[be]) if be in not_covered else
                           {"calls": sum(1 for c in cases if c["be"] == be), "range_requests_served": served.get(be, 0)}
                           for be in BACKENDS}
    ctx.cov["outcomes"] = {"accepted_eof": verdict["eof_ok"], "accepted_nonempty_bytes": verdict["nonempty_ok"], "rejected": len(verdict["bad"])}
    mid = len(cases) // 2
    for c in cases[mid:mid + 4] + cases[-2:]:
        ctx.sample({"backend": c["be"], "n": c["n"], "call": c["op"], "requests": c["reqs"], "outcome": c["out"]})
    ctx.assume("an object of size n is the byte string 1..n, so returned bytes identify the offsets read",
               "GCS/S3 answer `Range: bytes=a-b` per RFC 7233 (inclusive, clamped, 416 when a >= size); azure-storage-blob's "
               "download_blob(offset, length) does the same and raises HttpResponseError(status_code=416) for an explicit offset >= size "
               "(the repository's own AzureReadableStream.read(n) handles exactly that error)",
               f"the fake Azure downloader yields chunks of {azure_chunk} byte(s) (from the seed)",
               "a call/return pair is a two-state behaviour; each served range request is one more transition")
