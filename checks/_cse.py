"""C35 helpers: s-expression reader for Hail IR text, the mapping IR text -> specification terms
(specs/cse/IRSem.tla node tables), construction of real hail.ir objects from a specification DAG
(shared node index = one shared Python object) and expression-API case builders.

Nothing here decides the property: the verdict is computed by TLC (specs/cse/CSECheck.tla).
"""
from __future__ import annotations

import base64
import re
import struct


class Unmappable(Exception):
    """the rendered text uses a construct the term mapper does not know (machinery problem)"""


class Malformed(Exception):
    """the rendered text is not a well-formed IR s-expression (unbalanced, wrong arity): a renderer fault"""


# ------------------------------------------------------------------------------------------------
# s-expressions
_TOK = re.compile(r'''\s*(?:(\()|(\))|("(?:[^"\\]|\\.)*")|(`(?:[^`\\]|\\.)*`)|([^\s()"`]+))''')


def read_sexpr(text: str):
    """-> nested python lists of atoms (str). Strings keep their quotes, back-ticked ids lose them."""
    pos = 0
    stack = [[]]
    n = len(text)
    while pos < n:
        m = _TOK.match(text, pos)
        if not m:
            if text[pos:].strip() == "":
                break
            raise Malformed(f"cannot tokenise at {pos}: {text[pos:pos + 40]!r}")
        pos = m.end()
        if m.group(1):
            stack.append([])
        elif m.group(2):
            if len(stack) < 2:
                raise Malformed("unbalanced ')'")
            top = stack.pop()
            stack[-1].append(top)
        elif m.group(3):
            stack[-1].append(m.group(3))
        elif m.group(4):
            stack[-1].append(m.group(4)[1:-1])
        else:
            stack[-1].append(m.group(5))
    if len(stack) != 1:
        raise Malformed("unbalanced '('")
    if len(stack[0]) != 1:
        raise Malformed(f"expected exactly one top-level form, got {len(stack[0])}")
    return stack[0][0]


# ------------------------------------------------------------------------------------------------
# IR text -> term table
BINOPS = {"+": "Add", "-": "Sub", "*": "Mul", "Add": "Add", "Subtract": "Sub", "Multiply": "Mul"}
CMPOPS = {"<": "LT", "<=": "LE", ">": "GT", ">=": "GE", "==": "EQ", "!=": "NEQ",
          "LT": "LT", "LTEQ": "LE", "GT": "GT", "GTEQ": "GE", "EQ": "EQ", "NEQ": "NEQ"}
AGGOPS = {"Sum": "Sum", "Collect": "Collect", "Count": "Count", "Max": "Max"}     # -> Agg<op> / Scan<op>
SITES = {"MatrixMapRows": "mrows", "MatrixMapCols": "mcols", "TableMapRows": "trows"}
ID_APPLY = {"toInt64", "toInt32"}


def _decode_int32_array(b64: str):
    raw = base64.b64decode(b64)
    (n,) = struct.unpack_from("<i", raw, 0)
    nmiss = (n + 7) // 8
    miss = raw[4:4 + nmiss]
    off = 4 + nmiss
    out = []
    for i in range(n):
        if miss[i // 8] >> (i % 8) & 1:
            out.append(None)
        else:
            (v,) = struct.unpack_from("<i", raw, off)
            off += 4
            out.append(v)
    if off != len(raw):
        raise Unmappable("EncodedLiteral Array[Int32]: trailing bytes")
    return out


class TermTable:
    def __init__(self):
        self.nodes = []

    def add(self, op, k=(), n=(), v=0):
        self.nodes.append({"op": op, "k": list(k), "n": list(n), "v": int(v)})
        return len(self.nodes)

    def as_json(self, root):
        return {"nodes": self.nodes, "root": root}


def _atom(x, what):
    if not isinstance(x, str):
        raise Malformed(f"expected an atom for {what}, got {x!r}")
    return x


def _arity(form, n, what=None):
    if len(form) != n:
        raise Malformed(f"{what or form[0]}: expected {n - 1} operands, got {len(form) - 1}")


def to_table(sx):
    """nested s-expression -> {'nodes': [...], 'root': i} in the vocabulary of IRSem.tla (a tree)."""
    tt = TermTable()

    def go(f):
        if not isinstance(f, list) or not f or not isinstance(f[0], str):
            raise Malformed(f"expected an IR form, got {f!r}")
        h = f[0]
        if h == "I32":
            _arity(f, 2)
            return tt.add("I32", v=int(_atom(f[1], "I32")))
        if h == "NA":
            _arity(f, 2)
            return tt.add("NA")
        if h in ("True", "False"):
            _arity(f, 1)
            return tt.add(h)
        if h == "Ref":
            _arity(f, 2)
            return tt.add("Ref", n=[_atom(f[1], "Ref")])
        if h == "ApplyBinaryPrimOp":
            _arity(f, 4)
            op = _atom(f[1], h)
            if op not in BINOPS:
                raise Unmappable(f"binary op {op}")
            return tt.add(BINOPS[op], k=[go(f[2]), go(f[3])])
        if h == "ApplyComparisonOp":
            _arity(f, 4)
            op = _atom(f[1], h)
            if op not in CMPOPS:
                raise Unmappable(f"comparison op {op}")
            return tt.add(CMPOPS[op], k=[go(f[2]), go(f[3])])
        if h == "If":
            _arity(f, 4)
            return tt.add("If", k=[go(f[1]), go(f[2]), go(f[3])])
        if h == "Let":
            # (Let scope name value body)   [the python renderer binds one name per Let]
            _arity(f, 5)
            scope = _atom(f[1], "Let scope")
            name = _atom(f[2], "Let name")
            if scope == "eval":
                return tt.add("Let", k=[go(f[3]), go(f[4])], n=[name])
            if scope == "agg":
                return tt.add("AggLet", k=[go(f[3]), go(f[4])], n=[name])
            if scope == "scan":
                return tt.add("ScanLet", k=[go(f[3]), go(f[4])], n=[name])
            raise Unmappable(f"Let scope {scope}")
        if h == "AggLet":
            _arity(f, 5)
            scan = _atom(f[2], "AggLet is_scan")
            if scan not in ("False", "True"):
                raise Malformed(f"AggLet is_scan {scan}")
            return tt.add("AggLet" if scan == "False" else "ScanLet", k=[go(f[3]), go(f[4])], n=[_atom(f[1], "AggLet name")])
        if h == "MakeArray":
            if len(f) < 2:
                raise Malformed("MakeArray without a type")
            return tt.add("MakeArray", k=[go(x) for x in f[2:]])
        if h == "EncodedLiteral":
            _arity(f, 3)
            if f[1] != "Array[Int32]":
                raise Unmappable(f"EncodedLiteral of type {f[1]}")
            vals = _decode_int32_array(f[2][1:-1])
            return tt.add("MakeArray", k=[tt.add("NA") if x is None else tt.add("I32", v=x) for x in vals])
        if h == "ArrayLen":
            _arity(f, 2)
            return tt.add("ArrayLen", k=[go(f[1])])
        if h == "ToStream":
            _arity(f, 3)
            return tt.add("ToStream", k=[go(f[2])])
        if h in ("ToArray", "CastToArray"):
            _arity(f, 2)
            return tt.add("ToArray" if h == "ToArray" else "Id", k=[go(f[1])])
        if h == "Cast":
            _arity(f, 3)
            return tt.add("Id", k=[go(f[2])])
        if h == "Apply":
            # (Apply <id> fname (type args) rettype args..)
            if len(f) >= 6 and f[2] in ID_APPLY and len(f) == 6:
                return tt.add("Id", k=[go(f[5])])
            raise Unmappable(f"Apply {f[2] if len(f) > 2 else ''}")
        if h in ("StreamMap", "StreamFilter"):
            _arity(f, 4)
            return tt.add(h, k=[go(f[2]), go(f[3])], n=[_atom(f[1], h)])
        if h == "StreamFold":
            _arity(f, 6)
            return tt.add(h, k=[go(f[3]), go(f[4]), go(f[5])], n=[_atom(f[1], h), _atom(f[2], h)])
        if h == "MakeStruct":
            names, kids = [], []
            for fld in f[1:]:
                if not isinstance(fld, list) or len(fld) != 2:
                    raise Malformed(f"MakeStruct field {fld!r}")
                names.append(_atom(fld[0], "field"))
                kids.append(go(fld[1]))
            return tt.add("MakeStruct", k=kids, n=names)
        if h == "GetField":
            _arity(f, 3)
            return tt.add("GetField", k=[go(f[2])], n=[_atom(f[1], h)])
        if h == "SelectFields":
            _arity(f, 3)
            if not isinstance(f[1], list):
                raise Malformed("SelectFields field list")
            return tt.add("SelectFields", k=[go(f[2])], n=[_atom(x, h) for x in f[1]])
        if h == "InsertFields":
            if len(f) < 3:
                raise Malformed("InsertFields")
            if f[2] != "None":
                raise Unmappable("InsertFields with field order")
            old = go(f[1])
            names, kids = [], []
            for fld in f[3:]:
                if not isinstance(fld, list) or len(fld) != 2:
                    raise Malformed(f"InsertFields field {fld!r}")
                names.append(_atom(fld[0], "field"))
                kids.append(go(fld[1]))
            return tt.add("InsertFields", k=[old] + kids, n=names)
        if h == "StreamAgg":
            _arity(f, 4)
            return tt.add("StreamAgg", k=[go(f[2]), go(f[3])], n=[_atom(f[1], h)])
        if h in ("ApplyAggOp", "ApplyScanOp"):
            _arity(f, 4)
            op = _atom(f[1], h)
            if op not in AGGOPS or not isinstance(f[2], list) or not isinstance(f[3], list) or f[2]:
                raise Unmappable(f"{h} {op}")
            want = 0 if op == "Count" else 1
            if len(f[3]) != want:
                raise Malformed(f"{h} {op}: {len(f[3])} seq args")
            return tt.add(("Agg" if h == "ApplyAggOp" else "Scan") + AGGOPS[op], k=[go(x) for x in f[3]])
        if h == "AggFilter":
            _arity(f, 4)
            if f[1] not in ("False", "True"):
                raise Malformed(f"AggFilter is_scan {f[1]}")
            return tt.add("AggFilter" if f[1] == "False" else "ScanFilter", k=[go(f[2]), go(f[3])])
        if h == "StreamAggScan":
            _arity(f, 4)
            return tt.add("StreamAggScan", k=[go(f[2]), go(f[3])], n=[_atom(f[1], h)])
        if h in SITES:
            # (MatrixMapRows child newrow) (TableMapRows child newrow) (MatrixMapCols newkey child newcol): the child
            # relation is opaque (it must not contain anything the renderer lifted)
            body = f[-1]
            child = f[-2]
            _arity(f, 4 if h == "MatrixMapCols" else 3)
            if "__cse_" in repr(child):
                raise Unmappable(f"{h}: lifted names inside the child relation")
            return tt.add("Site", k=[go(body)], n=[SITES[h]])
        if h == "AggExplode":
            _arity(f, 5)
            if f[2] != "False":
                raise Unmappable("scan AggExplode")
            return tt.add("AggExplode", k=[go(f[3]), go(f[4])], n=[_atom(f[1], h)])
        raise Unmappable(f"IR head {h}")

    root = go(sx)
    return tt.as_json(root)


def text_to_table(text):
    return to_table(read_sexpr(text))


def unfold(tab, drop=("Id",)):
    """canonical nested-tuple form of the tree a table denotes (sharing expanded, casts dropped)."""
    nodes = tab["nodes"]
    memo = {}

    def go(i):
        if i in memo:
            return memo[i]
        nd = nodes[i - 1]
        if nd["op"] in drop:
            r = go(nd["k"][0])
        elif nd["op"] == "Site" and nodes[nd["k"][0] - 1]["op"] == "InsertFields" and nodes[nd["k"][0] - 1]["n"] == ["out"]:
            # the harness wraps a generated Int32 new-row expression as (InsertFields (Ref va) None (out e))
            r = ("Site", tuple(nd["n"]), 0, (go(nodes[nd["k"][0] - 1]["k"][1]),))
        else:
            r = (nd["op"], tuple(nd["n"]), nd["v"], tuple(go(c) for c in nd["k"]))
        memo[i] = r
        return r

    return go(tab["root"])


def tree_size(tab):
    nodes = tab["nodes"]
    memo = {}

    def go(i):
        if i not in memo:
            memo[i] = 1 + sum(go(c) for c in nodes[i - 1]["k"])
        return memo[i]

    return go(tab["root"])


def shared_nodes(tab):
    """indices referenced more than once (the DAG's shared subexpressions)"""
    cnt = {}
    for nd in tab["nodes"]:
        for c in nd["k"]:
            cnt[c] = cnt.get(c, 0) + 1
    return sorted(i for i, c in cnt.items() if c > 1)


def has_shared_objects(root):
    """some IR object (other than a Ref) is reachable from root along two different paths"""
    seen = set()
    stack = [root]
    while stack:
        o = stack.pop()
        if id(o) in seen:
            if type(o).__name__ != "Ref":
                return True
            continue
        seen.add(id(o))
        stack.extend(c for c in o.children if hasattr(c, "children"))
    return False


def wrapper_free(dag):
    """the real IR built for this DAG has exactly the DAG's nodes (no cast / ToStream / ToArray wrappers)"""
    if any(nd["op"] in ("AggSum", "AggCount", "ScanSum", "ScanCount", "Site") for nd in dag["nodes"]):
        return False
    if dag.get("implicit"):
        return not any(nd["op"] in ("StreamMap", "StreamFilter", "StreamFold", "StreamAgg", "StreamAggScan", "AggExplode") for nd in dag["nodes"])
    return True


CSE_NAME = re.compile(r"^__cse_\d+$")
LET_OPS = ("Let", "AggLet", "ScanLet")


def lifted_names(tab):
    out = []
    for nd in tab["nodes"]:
        if nd["op"] in LET_OPS and CSE_NAME.match(nd["n"][0]):
            out.append(nd["n"][0])
    return out


# ------------------------------------------------------------------------------------------------
# specification DAG -> real hail.ir objects
def ref_type(name, hl):
    """variables are typed by the first letter of their name (same convention as IRDags.tla)"""
    if name in SITE_VARS:
        return hl.tstruct(**{SITE_VARS[name]: hl.tint32})
    c = name.lstrip("_")[0]
    if c == "a":
        return hl.tarray(hl.tint32)
    if c == "r":
        return hl.tstruct(p=hl.tint32, q=hl.tint32)
    return hl.tint32


SITE_VARS = {"va": "row_idx", "sa": "col_idx", "row": "idx"}
_BIN = {"Add": "+", "Sub": "-", "Mul": "*"}


_CMP = {"LT": "<", "LE": "<=", "GT": ">", "GE": ">=", "EQ": "==", "NEQ": "!="}
_SITE_CHILD = {}


def _site_root(kind, body, hl, ir):
    """the relational node of a binding site over a 3 x 2 range matrix table / 3-row range table; the new-row
    expression is the site's element struct with the generated Int32 expression inserted as field `out`"""
    if not _SITE_CHILD:
        t = hl.utils.range_table(3)
        mt = hl.utils.range_matrix_table(3, 2)
        _SITE_CHILD.update(t=(t._tir, t.row.dtype), mt=(mt._mir, mt.row.dtype, mt.col.dtype))
    if kind == "trows":
        child, rt = _SITE_CHILD["t"]
        return ir.TableMapRows(child, ir.InsertFields(ir.Ref("row", rt), [("out", body)], None))
    child, rt, ct = _SITE_CHILD["mt"]
    if kind == "mrows":
        return ir.MatrixMapRows(child, ir.InsertFields(ir.Ref("va", rt), [("out", body)], None))
    return ir.MatrixMapCols(child, ir.InsertFields(ir.Ref("sa", ct), [("out", body)], None), None)


def build_ir(dag, hl, ir, unwrap=True, share_refs=False):
    """-> (root IR object, [IR object per DAG node]).  One Python object per DAG node index.

    A DAG written at the level of the expression API (dag['implicit']: collections are arrays)
    gets ToStream / ToArray inserted where the API inserts them: a stream-consuming position wraps
    its array child with hail.ir.toStream (which, like the API, unwraps a ToArray and so shares the
    inner stream object; unwrap=False always builds a fresh ToStream node), and StreamMap /
    StreamFilter are wrapped in ToArray.  share_refs: one Ref object per variable name (what the API
    does) instead of one per occurrence."""
    nodes = dag["nodes"]
    objs = [None] * len(nodes)
    implicit = bool(dag.get("implicit"))
    refs = {}

    def stream(o):
        if o.is_stream:
            return o
        return ir.toStream(o) if unwrap else ir.ToStream(o)

    def go(i):
        if objs[i - 1] is not None:
            return objs[i - 1]
        nd = nodes[i - 1]
        op, n = nd["op"], nd["n"]
        k = [go(c) for c in nd["k"]]
        if op == "I32":
            o = ir.I32(nd["v"])
        elif op == "NA":
            o = ir.NA(hl.tint32)
        elif op == "True":
            o = ir.TrueIR()
        elif op == "False":
            o = ir.FalseIR()
        elif op == "Ref":
            if share_refs and n[0] in refs:
                o = refs[n[0]]
            else:
                o = refs[n[0]] = ir.Ref(n[0], ref_type(n[0], hl))
        elif op in _BIN:
            o = ir.ApplyBinaryPrimOp(_BIN[op], k[0], k[1])
        elif op in _CMP:
            o = ir.ApplyComparisonOp(_CMP[op], k[0], k[1])
        elif op == "If":
            o = ir.If(k[0], k[1], k[2])
        elif op == "Let":
            o = ir.Let(n[0], k[0], k[1])
        elif op == "MakeArray":
            o = ir.MakeArray(k, hl.tarray(hl.tint32))
        elif op == "ArrayLen":
            o = ir.ArrayLen(k[0])
        elif op == "ToStream":
            o = ir.ToStream(k[0])
        elif op == "ToArray":
            o = ir.ToArray(k[0])
        elif op == "StreamMap":
            o = ir.StreamMap(stream(k[0]), n[0], k[1])
            if implicit:
                o = ir.ToArray(o)
        elif op == "StreamFilter":
            o = ir.StreamFilter(stream(k[0]), n[0], k[1])
            if implicit:
                o = ir.ToArray(o)
        elif op == "StreamFold":
            o = ir.StreamFold(stream(k[0]), k[1], n[0], n[1], k[2])
        elif op == "MakeStruct":
            o = ir.MakeStruct(list(zip(n, k)))
        elif op == "GetField":
            o = ir.GetField(k[0], n[0])
        elif op == "SelectFields":
            o = ir.SelectFields(k[0], list(n))
        elif op == "InsertFields":
            o = ir.InsertFields(k[0], list(zip(n, k[1:])), None)
        elif op == "StreamAgg":
            o = ir.StreamAgg(stream(k[0]), n[0], k[1])
        elif op == "AggSum":
            # the Sum aggregator is registered for int64: cast in, cast out (casts are identities in the spec)
            o = ir.Cast(ir.ApplyAggOp("Sum", [], [ir.Cast(k[0], hl.tint64)]), hl.tint32)
        elif op == "AggCollect":
            o = ir.ApplyAggOp("Collect", [], [k[0]])
        elif op == "AggCount":
            o = ir.Cast(ir.ApplyAggOp("Count", [], []), hl.tint32)
        elif op == "StreamAggScan":
            o = ir.StreamAggScan(stream(k[0]), n[0], k[1])
            if implicit:
                o = ir.ToArray(o)
        elif op == "ScanSum":
            o = ir.Cast(ir.ApplyScanOp("Sum", [], [ir.Cast(k[0], hl.tint64)]), hl.tint32)
        elif op == "ScanCollect":
            o = ir.ApplyScanOp("Collect", [], [k[0]])
        elif op == "ScanCount":
            o = ir.Cast(ir.ApplyScanOp("Count", [], []), hl.tint32)
        elif op == "ScanFilter":
            o = ir.AggFilter(k[0], k[1], True)
        elif op == "ScanLet":
            o = ir.AggLet(n[0], k[0], k[1], True)
        elif op == "Site":
            o = _site_root(n[0], k[0], hl, ir)
        elif op == "AggFilter":
            o = ir.AggFilter(k[0], k[1], False)
        elif op == "AggLet":
            o = ir.AggLet(n[0], k[0], k[1], False)
        elif op == "AggExplode":
            o = ir.AggExplode(stream(k[0]), n[0], k[1], False)
        else:
            raise Unmappable(f"cannot build {op}")
        objs[i - 1] = o
        return o

    root = go(dag["root"])
    return root, objs


# ------------------------------------------------------------------------------------------------
# expression-API cases: name -> function(hl) returning an Expression.  All closed (no free variables).
def api_cases(hl):
    i32 = hl.int32

    def sq(x):
        z = x + 1
        return z * z

    A = lambda: hl.array([i32(1), i32(2), i32(3)])  # noqa: E731
    L = lambda: hl.array([1, 2, 3])  # noqa: E731 (EncodedLiteral)
    cases = {}

    def case(f):
        cases[f.__name__] = f
        return f

    @case
    def if_shared_cond_and_branch():
        e = i32(3) + 4
        return hl.if_else(e > 3, e * e, e)

    @case
    def if_shared_across_branches():
        e = i32(2) * 3
        return hl.if_else(i32(1) < 2, e + e, e - 1)

    @case
    def shared_node_also_an_if_branch_at_same_depth():
        # n3 occurs at depth 2 under (n3 + n3) and, at depth 2 again, as the branch of an If
        y = i32(2) + 1
        n3 = y * y
        return (n3 + n3) + hl.if_else(i32(1) < 2, n3, i32(0))

    @case
    def lifted_node_seen_again_at_the_depth_of_its_if_branch_site():
        z = i32(2) * 3
        x = z + z
        return ((x + 1) + x) + hl.if_else(z < 7, z, x)

    @case
    def nested_if_shared():
        e = i32(2) * 3
        return hl.if_else(e > 1, hl.if_else(e > 2, e + e, e), e * e)

    @case
    def map_loop_invariant():
        y = i32(5) * 2
        return A().map(lambda x: x + y + y)

    @case
    def map_body_shared():
        return A().map(sq)

    @case
    def map_literal_array():
        return L().map(sq)

    @case
    def map_outer_and_inner_shared():
        y = i32(5) * 2
        return A().map(lambda x: sq(x) + y) .map(lambda x: x - y)

    @case
    def filter_shared():
        return A().filter(lambda x: sq(x) > 2)

    @case
    def fold_shared():
        return hl.fold(lambda acc, x: acc + sq(x) + sq(acc), i32(0), A())

    @case
    def fold_shared_zero_and_body():
        z = i32(1) + 1
        return hl.fold(lambda acc, x: acc + x * z, z, A())

    @case
    def nested_map_shared_outer_var():
        def outer(x):
            w = x * 2
            return hl.fold(lambda acc, y: acc + y * w + w, i32(0), A())
        return A().map(outer)

    @case
    def nested_map_inner_invariant():
        a = A()
        return a.map(lambda x: hl.len(a.filter(lambda y: sq(y) > sq(x))))

    @case
    def shared_array_two_streams():
        a = A().map(lambda x: x + 1)
        return hl.len(a) + hl.fold(lambda acc, x: acc + x, i32(0), a)

    @case
    def struct_shared_fields():
        e = i32(3) + 4
        return hl.struct(p=e, q=e * 2)

    @case
    def struct_annotate_select():
        e = i32(3) + 4
        s = hl.struct(p=e, q=e * 2)
        t = s.annotate(c=s.p + s.q)
        return t.select('c', 'p')

    @case
    def struct_shared_getfield():
        s = hl.struct(p=i32(1) + 1, q=i32(2))
        return A().map(lambda x: x + s.p + s.p * s.q)

    @case
    def bind_and_share():
        e = i32(3) + 4
        return hl.bind(lambda z: z * z + e, e + 1)

    @case
    def rbind_two():
        e = i32(3) + 4
        return hl.rbind(e, e * 2, lambda u, v: u * v + u)

    @case
    def bind_inside_lambda():
        return A().map(lambda x: hl.bind(lambda z: z * z + sq(x), sq(x) + 1))

    @case
    def agg_sum_shared_seq_arg():
        return A().aggregate(lambda x: hl.agg.sum(sq(x)))

    @case
    def agg_shared_between_aggs():
        return A().aggregate(lambda x: hl.agg.sum(sq(x)) + hl.agg.filter(sq(x) > 4, hl.agg.sum(sq(x))))

    @case
    def agg_shared_in_filter_cond_and_arg():
        def q(x):
            s = sq(x)
            return hl.agg.filter(s > 4, hl.agg.sum(s))
        return A().aggregate(q)

    @case
    def agg_result_shared():
        def q(x):
            s = hl.agg.sum(x)
            return s * s + hl.agg.count()
        return A().aggregate(q)

    @case
    def agg_result_shared_under_filter():
        def q(x):
            s = hl.agg.sum(x)
            return hl.agg.filter(x > 1, s * s) + s
        return A().aggregate(q)

    @case
    def agg_eval_value_used_in_both_scopes():
        k = i32(2) * 3
        return A().aggregate(lambda x: hl.agg.sum(x * k) + hl.int64(k) + hl.int64(k))

    @case
    def agg_collect_shared():
        return A().aggregate(lambda x: hl.agg.collect(sq(x) + sq(x)))

    @case
    def agg_explode_shared():
        aa = hl.array([A(), A()])
        return aa.aggregate(lambda a: hl.agg.explode(lambda e: hl.agg.sum(sq(e) + hl.len(a) + hl.len(a)), a))

    @case
    def agg_inside_map_closed():
        inner = A()
        def f(y):
            ag = inner.aggregate(lambda x: hl.agg.sum(sq(x)))
            return ag + ag + hl.int64(y)
        return A().map(f)

    @case
    def agg_result_uses_outer_lambda_var():
        # the aggregation result mentions the enclosing lambda's variable and the whole aggregation is shared
        inner = A()
        def f(y):
            ag = inner.aggregate(lambda x: hl.agg.sum(x) + hl.int64(y))
            return ag + ag
        return A().map(f)

    @case
    def agg_result_uses_outer_lambda_var_once():
        inner = A()
        return A().map(lambda y: inner.aggregate(lambda x: hl.agg.sum(x) + hl.int64(y)))

    # ---- scans next to aggregations (relational binding sites) ----
    @case
    def mt_rows_agg_twice_scan_once():
        mt = hl.utils.range_matrix_table(3, 3)
        e = mt.row_idx * 2
        return mt.annotate_rows(a=hl.agg.sum(e) + hl.agg.max(e), b=hl.scan.sum(e))

    @case
    def mt_rows_scan_twice_agg_once():
        mt = hl.utils.range_matrix_table(3, 3)
        e = mt.row_idx * 2
        return mt.annotate_rows(a=hl.agg.sum(e), b=hl.scan.sum(e) + hl.scan.max(e))

    @case
    def mt_rows_agg_twice_scan_twice_eval_twice():
        mt = hl.utils.range_matrix_table(3, 3)
        e = mt.row_idx * 2
        return mt.annotate_rows(a=hl.agg.sum(e) + hl.agg.max(e), b=hl.scan.sum(e) + hl.scan.max(e), c=e + e)

    @case
    def mt_rows_shared_inside_one_agg_arg_and_one_scan_arg():
        mt = hl.utils.range_matrix_table(3, 3)
        e = mt.row_idx + 1
        return mt.annotate_rows(a=hl.agg.sum(e * e), b=hl.scan.sum(e), c=hl.scan.count())

    @case
    def mt_rows_agg_filter_and_scan_filter_share_condition():
        mt = hl.utils.range_matrix_table(3, 3)
        e = mt.row_idx * 2
        return mt.annotate_rows(a=hl.agg.filter(e > 1, hl.agg.sum(e)), b=hl.scan.filter(e > 1, hl.scan.sum(e)))

    @case
    def mt_cols_agg_and_scan():
        mt = hl.utils.range_matrix_table(3, 3)
        c = mt.col_idx + 1
        return mt.annotate_cols(a=hl.agg.sum(c) + hl.agg.max(c), b=hl.scan.sum(c) + hl.scan.sum(c * c), d=hl.scan.max(c))

    @case
    def mt_cols_agg_twice_scan_once():
        mt = hl.utils.range_matrix_table(3, 3)
        c = mt.col_idx * 3
        return mt.annotate_cols(a=hl.agg.sum(c) + hl.agg.max(c), b=hl.scan.count() + hl.scan.sum(c))

    @case
    def table_scans_and_eval_share():
        t = hl.utils.range_table(3)
        f = t.idx * 2
        return t.annotate(b=hl.scan.sum(f) + hl.scan.max(f), c=f + f)

    @case
    def table_scan_once_eval_twice():
        t = hl.utils.range_table(3)
        f = t.idx * 2
        return t.annotate(b=hl.scan.sum(f), c=f + f)

    @case
    def table_scan_filter_shared():
        t = hl.utils.range_table(3)
        f = t.idx * 2
        return t.annotate(b=hl.scan.filter(f > 1, hl.scan.sum(f)) + hl.scan.count())

    @case
    def table_two_scans_inside_if():
        t = hl.utils.range_table(3)
        f = t.idx + 1
        s = hl.scan.sum(f)
        return t.annotate(b=hl.if_else(t.idx > 0, s + s, s) + hl.scan.max(f))

    @case
    def local_array_scan_shared():
        a = A()
        def sc(x):
            y = x + 1
            return hl.scan.sum(y * y) + hl.scan.max(y)
        s1 = a._to_stream()._aggregate_scan(sc).to_array()
        return hl.len(s1) + hl.len(s1)

    @case
    def agg_result_uses_outer_var_twice_plus_count():
        inner = A()
        def f(y):
            t = y + 1
            return inner.aggregate(lambda x: hl.agg.filter(x > 1, hl.agg.count()) + hl.int64(t) * hl.int64(t))
        return A().map(f)

    return cases
