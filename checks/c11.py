"""C11 - the pool scheduler's fair share is the water-filling (max-min fair) allocation up to rounding.

Spec: specs/fn/FairShare.tla (the relation Ok: range, not over, not under, common water level) and
specs/fn/FairShareAlg.tla (PoolScheduler._compute_fair_share as a step machine, all tie-breaks, model-checked
against the relation and its loop invariants).  Binding B3: TLC enumerates (rows of running/ready mcpu, free
mcpu), the harness runs the real coroutine on an object built with object.__new__ and a fake db that
returns the rows, TLC judges every recorded call.
"""
from __future__ import annotations

import json

from vlib import loader, tlc

from . import _fn

LEVEL = "model_checking"
MANIFEST = {
    "technique": "TLA+ relation for max-min fairness with rounding slack (FairShare.tla) + step-machine model of the water-filling loop model-checked by TLC over all tie-breaks (FairShareAlg.tla); TLC enumerates the inputs and judges every recorded call of the real PoolScheduler._compute_fair_share (call/return conformance, B3)",
    "text": "Exhaustive over all row sequences of (running, ready) demands for up to 3-4 users with small multiples of several mcpu units (1000, 250(+1), 7, 1: exercises the rounding of the water level) and all free-core amounts in a range that includes zero and negative values; every row order is enumerated (ties in the scheduler's sorted sets). Bounded-universe model checking of an input-quantified property.",
    "note": "Trusts: TLC + CommunityModules Json/IOUtils; the fake db (rows filtered like the SQL HAVING clause); rounding slack of 1 mcpu per user as calibrated in DESIGN.md Appendix F; the solved form of the level clause is checked by TLC against the declarative form on all small inputs and allocations.",
    "design_ref": "DESIGN.md section 5, C11; Appendix F",
}

INVS = ["C11_Relation", "C11_Range", "C11_NotOver", "C11_NotUnder", "C11_Level", "C11_LevelIsMark", "Partition", "Levels", "Conservation"]
REACH = ["NeverExhaust", "NeverShort", "NeverAbove"]
NAMES = [["u1", "u2", "u3", "u4"], ["zed", "amy", "bob", "kim"], ["b", "a", "d", "c"]]


class FakeDb:
    def __init__(self):
        self.rows = []

    def execute_and_fetchall(self, sql, args=None, query_name=None):
        rows = [dict(r) for r in self.rows if r["n_ready_jobs"] + r["n_running_jobs"] > 0]  # the query's HAVING clause

        async def gen():
            for r in rows:
                yield r

        return gen()

    select_and_fetchall = execute_and_fetchall


class FakePool:
    name = "standard"

    def __str__(self):
        return "pool standard"


def run(ctx):
    loader.install()
    from batch.driver.instance_collection.pool import PoolScheduler

    wd = tlc.prepare_dir(ctx.build / "tlc", ["fn"])

    # ---- (1) the water-filling loop as a TLA+ step machine, all tie-breaks ------------------------------
    consts = {"MaxUsers": 3, "MaxVal": 2, "NegFree": 1, "MaxFree": 7} if ctx.quick else {"MaxUsers": 3, "MaxVal": 3, "NegFree": 1, "MaxFree": 10}
    (wd / "Alg.cfg").write_text(tlc.mk_cfg(constants=consts, invariants=INVS))
    res = tlc.run(wd, "FairShareAlg", "Alg.cfg", workers=ctx.workers, coverage=True)
    ctx.add_tlc(res, f"FairShareAlg exhaustive {consts}")
    ctx.require_covered(res, ["Promote", "Saturate", "Raise", "Exhaust", "ExitLoop", "Final"], "FairShareAlg")
    for v in res.violations:
        ctx.violation(f"spec:{v.name}", {"config": consts, "trace": [(h, s) for h, s in v.trace]})
    if res.violations:
        return
    _fn.require_reachable(ctx, wd, "FairShareAlg", {"MaxUsers": 2, "MaxVal": 2, "NegFree": 0, "MaxFree": 4}, REACH)

    # ---- (2) B3 on the real coroutine ---------------------------------------------------------------------------
    if ctx.quick:
        universes = [(3, 2, u, -2, 7, off) for u, off in ((1000, 0), (250, 1), (7, 0), (1, 0))] + [(2, 4, 1000, -2, 10, 0), (2, 4, 7, -2, 10, 0)]
    else:
        universes = [(3, 3, u, -2, 11, off) for u, off in ((1000, 0), (250, 1), (7, 0), (7, 3), (1, 0))] + \
                    [(4, 1, u, -1, 6, 0) for u in (1000, 7, 1)] + [(2, 5, 250, -2, 12, 0)]
    (wd / "params.ndjson").write_text("".join(
        json.dumps({"maxusers": mu, "maxval": mv, "unit": unit, "freelo": flo, "freehi": fhi, "off": off}) + "\n"
        for mu, mv, unit, flo, fhi, off in universes))
    tlc.evaluate(wd, "FairShareGen", env={"FS_PARAMS": wd / "params.ndjson", "FS_INPUTS": wd / "inputs.ndjson"}, timeout=1800)
    inputs = [json.loads(l) for l in dict.fromkeys((wd / "inputs.ndjson").read_text().splitlines()) if l.strip()]  # order kept, repeats dropped

    sched = object.__new__(PoolScheduler)
    sched.db = FakeDb()
    sched.pool = FakePool()

    cases, lines = [], []
    for n, inp in enumerate(inputs):
        names = NAMES[(n + ctx.seed) % len(NAMES)][:len(inp["users"])]
        sched.db.rows = [{"user": nm, "n_ready_jobs": 1 if u["ready"] > 0 else 0, "ready_cores_mcpu": u["ready"],
                          "n_running_jobs": 1 if u["running"] > 0 else 0, "running_cores_mcpu": u["running"]}
                         for nm, u in zip(names, inp["users"])]
        filtered = {r["user"] for r in sched.db.rows if r["n_ready_jobs"] + r["n_running_jobs"] == 0}
        err = None
        try:
            coro = sched._compute_fair_share(inp["free"])
            try:
                coro.send(None)
                coro.close()
                raise RuntimeError("_compute_fair_share suspended on a real await; the fake db must not block")
            except StopIteration as stop:
                result = stop.value
            alloc = []
            o = "alloc"
            for nm in names:
                if nm in result:
                    a = result[nm]["allocated_cores_mcpu"]
                    if isinstance(a, bool) or not isinstance(a, int):
                        o, err = "non-integer", f"{nm}: {a!r}"
                        a = 0
                    alloc.append(a)
                elif nm in filtered:
                    alloc.append(0)
                else:
                    o, err = "missing-user", nm
                    alloc.append(0)
            if set(result) - set(names):
                o, err = "unknown-user", sorted(set(result) - set(names))
            out = {"o": o, "alloc": alloc}
        except RuntimeError:
            raise
        except Exception as e:
            out = {"o": "raise", "alloc": []}
            err = f"{type(e).__name__}: {e}"
        cases.append({"in": inp, "names": names, "out": out, "error": err})
        lines.append(json.dumps({"in": inp, "out": out}))
    verdicts = _fn.sharded_verdict(ctx, ["fn"], "FairShareVerdict", lines, {}, "FS_CASES", "FS_VERDICT", 4 if ctx.quick else 12)
    short = sum(v["short"] for _o, v in verdicts)
    if short == 0:
        raise RuntimeError("vacuous universe: no user was ever left short with a positive allocation")
    for off, v in verdicts:
        for b in v["bad"]:
            c = cases[off + b["i"] - 1]
            ctx.violation(f"fairshare:{b['why']}", {"input": c["in"], "user_names": c["names"], "result": c["out"], "error": c["error"], "why": b["why"]})
    ncase = len(cases)
    ctx.cov["states"] += 2 * ncase
    ctx.cov["transitions"] += ncase
    ctx.cov.update(traces_validated_against_impl=ncase, evaluations=ncase, distinct_nontrivial=short, exhaustive=True,
                   rule="TLC enumerates every (row sequence, free) of the universes "
                        + "; ".join(f"[users <= {mu}, running/ready in 0..{mv} x {unit} mcpu, free in {flo}..{fhi} x {unit} + {off} mcpu]" for mu, mv, unit, flo, fhi, off in universes)
                        + "; each is run through the real _compute_fair_share (user names rotated); TLC judges each call/return record; "
                          "non-trivial = calls where some user got a positive allocation below its demand")
    for c in [cases[len(cases) // 3], cases[len(cases) // 2], cases[-1]]:
        ctx.sample({"input": c["in"], "result": c["out"]})
    ctx.assume("rounding slack: 1 mcpu per user in the total and in the distance to the water level (DESIGN.md Appendix F)",
               "the fake db returns the rows in the enumerated order and drops users without ready or running jobs, like the query's HAVING clause; such a user counts as allocated 0",
               "n_ready_jobs / n_running_jobs are 1 when the corresponding cores are positive, else 0",
               "a call/return pair is a two-state behaviour Call(input) -> Return(alloc); states/transitions count those in addition to the FairShareAlg run")
