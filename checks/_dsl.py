"""Shared harness for C17 / C18 (Batch DSL): programs from TLC -> real hailtop.batch API -> recorded traces.

A *program* is the list of DSL calls BatchDslGen prints (NewJob, Depend, DeclareGroup, ReadInput,
ReadInputGroup, Command(refs), AddExt, WriteOutput).  `Builder` performs the calls on the real API and logs one
event per call (arguments, outcome, Job._dependencies afterwards).  `run_local` / `run_service` then call the
real Batch.run() on a LocalBackend / ServiceBackend and log what it did.  Nothing here decides anything about
the properties: the events go to TLC (BatchDslTrace).
"""
from __future__ import annotations

import contextlib
import io
import json
import os
import shlex
import shutil
import subprocess
import warnings
from pathlib import Path

from vlib import loader, tlc

BASE_CONSTS = {
    "MaxJobs": 3, "Names": '{"o"}', "GroupMembers": "{}", "MaxInputs": 0, "InGroupMembers": "{}", "InPaths": "{}",
    "Exts": "{}", "Dests": "{}", "MaxCmds": 2, "MaxToks": 1, "LateExt": "FALSE", "Backends": '{"local"}', "EdgeLimit": 99,
}
GEN_CONSTS = {"MaxDeps": 2, "MaxUses": 2, "MaxEdges": 2, "MaxExt": 0, "MaxWrites": 0, "MaxRefs": 1, "FullJobs": "TRUE",
              "UsedDefsOnly": "TRUE", "MinLen": 0}


def tla_set(xs):
    return "{" + ", ".join(json.dumps(x) if isinstance(x, str) else tla_val(x) for x in xs) + "}"


def tla_val(x):
    if isinstance(x, bool):
        return "TRUE" if x else "FALSE"
    if isinstance(x, int):
        return str(x)
    if isinstance(x, str):
        return json.dumps(x)
    if isinstance(x, dict):
        return "[" + ", ".join(f"{k} |-> {tla_val(v)}" for k, v in x.items()) + "]"
    if isinstance(x, (list, tuple, set, frozenset)):
        return "{" + ", ".join(tla_val(v) for v in x) + "}"
    raise TypeError(x)


def parse_programs(out: str):
    progs = []
    for ln in out.splitlines():
        if ln.startswith('<<"PROG", "') and ln.endswith('">>'):
            lit = ln[len('<<"PROG", '):-2]
            progs.append(json.loads(json.loads(lit)))
    return progs


def generate(ctx, wd, name, consts, *, simulate=None, depth=60, seed=None):
    """Run BatchDslGen (exhaustively, or in simulation mode) and return the programs it printed."""
    cfg = f"Gen_{name}.cfg"
    (wd / cfg).write_text(tlc.mk_cfg(init="GInit", next="GNext", constants=consts, invariants=["Emit"]))
    res = tlc.run(wd, "BatchDslGen", cfg, workers=1, simulate=simulate, depth=depth if simulate else None, seed=seed,
                  heap="4g")
    if res.violations:
        raise RuntimeError(f"program generation failed: {[v.name for v in res.violations]}")
    progs = parse_programs(res.out)
    if simulate:  # simulation revisits programs
        seen, uniq = set(), []
        for p in progs:
            k = json.dumps(p, sort_keys=True)
            if k not in seen:
                seen.add(k)
                uniq.append(p)
        progs = uniq
    return progs, res


# ------------------------------------------------------------------------------------------------------
_hb = None


def api():
    global _hb
    if _hb is None:
        loader.install()
        warnings.filterwarnings("ignore", message=".*always run has a resource file dependency.*")
        warnings.filterwarnings("ignore", message=".*from Docker Hub.*")
        import hailtop.batch as hb  # noqa
        import hailtop.batch.backend as backend  # noqa
        from hailtop.batch.exceptions import BatchException  # noqa

        _hb = (hb, backend, BatchException)
    return _hb


JOB_NAMES = [None, "align reads/1", "qc", None, "a.b c", "x" * 12]
LITERALS = ["echo", "'a  b'", '"$HOME"', "$(true)", "a\\ b", "__RESOURCE_FILE__", "__JOB__x", "${BATCH_TMPDIR}/x", "{}",
            "{{x}}", ">", "|", "#c", "%s", "é", "x=1", "`true`", "\\n", "--out", "2>&1"]


class Builder:
    """Performs the DSL calls of one program on the real API and logs the events."""

    def __init__(self, backend, *, seed=0, decorate=True):
        hb, _bk, self.BatchException = api()
        self.b = hb.Batch(backend=backend, name="p")
        self.jobs = {}
        self.ins = {}
        self.ig = None
        self.events = []
        self.seed = seed
        self.decorate = decorate
        self.aborted = False
        self.nlit = 0

    # -- resources ------------------------------------------------------------------------------
    def res(self, r):
        k, j, n = r["k"], r["j"], r["n"]
        if k == "jf":
            return self.jobs[j][n]
        if k == "rg":
            return self.jobs[j]._resources["g"]
        if k == "gm":
            return self.jobs[j]._resources["g"][n]
        if k == "in":
            return self.ins[n]
        if k == "ig":
            return self.ig
        if k == "im":
            return self.ig[n]
        raise KeyError(r)

    def deps(self):
        ids = {j: i for i, j in self.jobs.items()}
        return [sorted(ids[d] for d in self.jobs[i]._dependencies) for i in sorted(self.jobs)]

    def lit(self):
        self.nlit += 1
        return LITERALS[(self.seed * 7 + self.nlit * 3) % len(LITERALS)]

    # -- calls ------------------------------------------------------------------------------------
    def call(self, op):
        a = op["op"]
        ev = {"a": a}
        try:
            with warnings.catch_warnings():
                warnings.simplefilter("ignore")
                getattr(self, "do_" + a)(op, ev)
            ev["out"] = "ok"
        except self.BatchException as e:
            ev["out"] = "refused"
            ev["exc"] = str(e)[:120]
            self.aborted = True
        ev["deps"] = self.deps()
        self.events.append(ev)

    def do_NewJob(self, op, ev):
        i = len(self.jobs) + 1
        name = JOB_NAMES[(i + self.seed) % len(JOB_NAMES)] if self.decorate else None
        j = self.b.new_job(name=name)
        if op["always"]:
            j.always_run()
        self.jobs[i] = j
        ev.update(always=bool(op["always"]), dir=j._dirname)

    def do_Depend(self, op, ev):
        self.jobs[op["c"]].depends_on(self.jobs[op["p"]])
        ev.update(c=op["c"], p=op["p"])

    def do_DeclareGroup(self, op, ev):
        j = self.jobs[op["j"]]
        members = sorted(self.group_members)
        j.declare_resource_group(g={m: "{root}." + m for m in members})
        ev.update(j=op["j"])

    def do_ReadInput(self, op, ev):
        ip = op["ip"]
        r = self.b.read_input(ip["dir"] + "/" + ip["base"])
        self.ins[op["r"]["n"]] = r
        ev.update(r=op["r"], ip=ip, root=r._value.rsplit("/", 1)[0])

    def do_ReadInputGroup(self, op, ev):
        f = op["f"]
        ev.update(f=f, root="")
        rg = self.b.read_input_group(**{m: ip["dir"] + "/" + ip["base"] for m, ip in f.items()})
        self.ig = rg
        ev.update(root=rg._root)

    def do_Command(self, op, ev):
        toks = []
        if "toks" in op:
            toks = op["toks"]
        else:
            toks.append({"t": "lit", "s": ":" if not self.decorate else self.lit()})
            for r in op["refs"]:
                toks.append({"t": "ref", "r": r})
                if self.decorate:
                    toks.append({"t": "lit", "s": self.lit()})
        ev.update(j=op["j"], toks=toks)
        # resolve the references only now: attribute access creates the JobResourceFile, like in an f-string
        args = {k: self.res(t["r"]) for k, t in enumerate(toks) if t["t"] == "ref"}
        parts = [t["s"] if t["t"] == "lit" else str(args[k]) for k, t in enumerate(toks)]
        self.jobs[op["j"]].command("\t".join(parts))

    def do_AddExt(self, op, ev):
        ev.update(r=op["r"], e=op["e"])
        self.res(op["r"]).add_extension(op["e"])

    def do_WriteOutput(self, op, ev):
        ev.update(r=op["r"], d=op["d"])
        self.b.write_output(self.res(op["r"]), op["d"])

    group_members = ()

    def build(self, prog, group_members=()):
        self.group_members = group_members
        for op in prog:
            self.call(op)
            if self.aborted:
                break
        return self


# ------------------------------------------------------------------------------------------------------
def run_local(prog, fails, workdir, *, seed=0):
    """Build prog on a LocalBackend whose jobs append their id to a marker file and exit 1 if in `fails`;
    returns the event list (build events + what Batch.run did)."""
    hb, backend, BatchException = api()
    workdir = Path(workdir)
    workdir.mkdir(parents=True, exist_ok=True)
    logf = workdir / "log"
    if logf.exists():
        logf.unlink()
    seen = {}

    class ProbeLocal(backend.LocalBackend):
        async def _async_run(self, batch, *a, **k):
            seen["jobs"] = list(batch._jobs)
            return await super()._async_run(batch, *a, **k)

    be = ProbeLocal(tmp_dir=str(workdir / "tmp"))
    try:
        bd = Builder(be, seed=seed, decorate=False).build(prog)
        ev = bd.events
        if bd.aborted:
            return ev
        for i in sorted(bd.jobs):
            bd.call({"op": "Command", "j": i,
                     "toks": [{"t": "lit", "s": f"echo {i} >> {shlex.quote(str(logf))}; {'false' if i in fails else 'true'}"}]})
        ids = {j: i for i, j in bd.jobs.items()}
        raised = False
        out = io.StringIO()
        try:
            with contextlib.redirect_stdout(out), contextlib.redirect_stderr(out):
                bd.b.run()
        except BatchException as e:
            if "cycle" not in str(e):
                raise
            ev.append({"a": "Reject"})
            ran = [int(x) for x in logf.read_text().split()] if logf.exists() else []
            for i in ran:  # anything that ran although the pipeline was rejected
                ev.append({"a": "Run", "j": i, "ok": i not in fails})
            return ev
        except subprocess.CalledProcessError:
            raised = True
        if "jobs" not in seen:
            raise RuntimeError("backend was not invoked")
        order = sorted(bd.jobs, key=lambda i: (bd.jobs[i]._job_id is None, bd.jobs[i]._job_id))
        if [ids[j] for j in seen["jobs"]] != order:
            ev.append({"a": "ListOrderDiffers", "list": [ids[j] for j in seen["jobs"]], "order": order})
        ev.append({"a": "Number", "order": order, "job_ids": [bd.jobs[i]._job_id for i in order]})
        ev.append({"a": "StartLocal"})
        ran = [int(x) for x in logf.read_text().split()] if logf.exists() else []
        ranset = set(ran)
        if [i for i in order if i in ranset] == ran:
            for i in order:  # skipped jobs leave no mark: they are placed at their position in the list
                ev.append({"a": "Run", "j": i, "ok": i not in fails} if i in ranset else {"a": "Skip", "j": i})
        else:  # executed out of numbering order (or twice): report the raw execution order
            for i in ran:
                ev.append({"a": "Run", "j": i, "ok": i not in fails})
            for i in order:
                if i not in ranset:
                    ev.append({"a": "Skip", "j": i})
        ev.append({"a": "EndLocal", "raised": raised})
        return ev
    finally:
        with contextlib.suppress(Exception):
            be.close()
        shutil.rmtree(workdir / "tmp", ignore_errors=True)


def _local_task(args):
    k, prog, fails, wd, seed = args
    try:
        return k, run_local(prog, set(fails), wd, seed=seed), None
    except BaseException as e:  # machinery problem: reported by the parent
        import traceback

        return k, None, traceback.format_exc()


def run_local_many(tasks, workers):
    """tasks: list of (key, prog, fails, workdir, seed) -> {key: events}; runs in forked worker processes."""
    import multiprocessing as mp

    api()
    out = {}
    if workers <= 1 or len(tasks) < 4:
        res = map(_local_task, tasks)
    else:
        pool = mp.get_context("fork").Pool(workers)
        try:
            res = pool.map(_local_task, tasks, chunksize=max(1, len(tasks) // (workers * 8)))
        finally:
            pool.close()
            pool.join()
    for k, ev, err in res:
        if err:
            raise RuntimeError(f"local run {k} failed:\n{err}")
        out[k] = ev
    return out


def strip_events(ev):
    """events as written to the trace file (diagnostic fields removed)"""
    out = []
    for e in ev:
        e = {k: v for k, v in e.items() if k not in ("exc", "job_ids")}
        out.append(e)
    return out
