"""Shared harness for C17 / C18 (Batch DSL): programs from TLC -> real hailtop.batch API -> recorded traces.

A *program* is the list of DSL calls BatchDslGen prints (NewJob, Depend, DeclareGroup, ReadInput,
ReadInputGroup, Command(refs), AddExt, WriteOutput).  `Builder` performs the calls on the real API and logs one
event per call (arguments, outcome, Job._dependencies afterwards).  `run_local` / `run_service` then call the
real Batch.run() on a LocalBackend / ServiceBackend and log what it did.  Nothing here decides anything about
the properties: the events go to TLC (BatchDslTrace).
"""
from __future__ import annotations

import contextlib
import io
import json
import os
import shlex
import shutil
import subprocess
import warnings
from pathlib import Path

from vlib import loader, tlc

BASE_CONSTS = {
    "MaxJobs": 3, "Names": '{"o"}', "GroupMembers": "{}", "MaxInputs": 0, "InGroupMembers": "{}", "InPaths": "{}",
    "Exts": "{}", "Dests": "{}", "MaxCmds": 2, "MaxToks": 1, "LateExt": "FALSE", "Backends": '{"local"}', "EdgeLimit": 99,
}
GEN_CONSTS = {"MaxDeps": 2, "MaxUses": 2, "MaxEdges": 2, "MaxExt": 0, "MaxWrites": 0, "MaxRefs": 1, "FullJobs": "TRUE",
              "UsedDefsOnly": "TRUE", "Undefined": "FALSE", "DefMembers": "TRUE", "SameBase": "TRUE", "MinLen": 0}


def tla_set(xs):
    return "{" + ", ".join(json.dumps(x) if isinstance(x, str) else tla_val(x) for x in xs) + "}"


def tla_val(x):
    if isinstance(x, bool):
        return "TRUE" if x else "FALSE"
    if isinstance(x, int):
        return str(x)
    if isinstance(x, str):
        return json.dumps(x)
    if isinstance(x, dict):
        return "[" + ", ".join(f"{k} |-> {tla_val(v)}" for k, v in x.items()) + "]"
    if isinstance(x, (list, tuple, set, frozenset)):
        return "{" + ", ".join(tla_val(v) for v in x) + "}"
    raise TypeError(x)


def parse_programs(out: str):
    progs = []
    for ln in out.splitlines():
        if ln.startswith('<<"PROG", "') and ln.endswith('">>'):
            lit = ln[len('<<"PROG", '):-2]
            progs.append(json.loads(json.loads(lit)))
    return progs


def universe_module(wd, base, name, inpaths):
    """cfg files cannot hold records: the set of input paths is defined in a wrapper module"""
    mod = f"{base}U_" + "".join(ch if ch.isalnum() else "_" for ch in name)
    (wd / f"{mod}.tla").write_text(f"---- MODULE {mod} ----\nEXTENDS {base}\nU_InPaths == {tla_val(inpaths)}\n====\n")
    return mod


def generate(ctx, wd, name, consts, *, simulate=None, depth=60, seed=None, full_invariants=None, view=None, inpaths=None):
    """Run BatchDslGen (exhaustively, or in simulation mode) and return the programs it printed.
    full_invariants: explore GFullNext (every finished program is continued with Batch.run()) and check these
    invariants on the way - the exhaustive specification check over exactly the programs handed to the harness."""
    cfg = f"Gen_{name}.cfg"
    full = full_invariants is not None
    mod = "BatchDslGen"
    if inpaths is not None:
        mod = universe_module(wd, "BatchDslGen", name, inpaths)
        consts = dict(consts, InPaths="<- U_InPaths")
    (wd / cfg).write_text(tlc.mk_cfg(init="GInit", next="GFullNext" if full else "GNext", constants=consts,
                                     invariants=list(full_invariants or []) + ["Emit"], view=view))
    res = tlc.run(wd, mod, cfg, workers=min(ctx.workers, 4) if full else 1, simulate=simulate,
                  depth=depth if simulate else None, seed=seed, heap="6g", coverage=full)
    progs = parse_programs(res.out)
    if simulate or full:  # simulation revisits programs; several workers may print a state twice
        seen, uniq = set(), []
        for p in progs:
            k = json.dumps(p, sort_keys=True)
            if k not in seen:
                seen.add(k)
                uniq.append(p)
        progs = uniq
    return progs, res


# ------------------------------------------------------------------------------------------------------
_hb = None


def api():
    global _hb
    if _hb is None:
        loader.install()
        warnings.filterwarnings("ignore", message=".*always run has a resource file dependency.*")
        warnings.filterwarnings("ignore", message=".*from Docker Hub.*")
        import hailtop.batch as hb  # noqa
        import hailtop.batch.backend as backend  # noqa
        from hailtop.batch.exceptions import BatchException  # noqa

        _hb = (hb, backend, BatchException)
    return _hb


JOB_NAMES = [None, "align reads/1", "qc", None, "a.b c", "x" * 12]
LITERALS = ["echo", "'a  b'", '"$HOME"', "$(true)", "a\\ b", "__RESOURCE_FILE__", "__JOB__x", "${BATCH_TMPDIR}/x", "{}",
            "{{x}}", ">", "|", "#c", "%s", "é", "x=1", "`true`", "\\n", "--out", "2>&1"]


def raised_in_repo(exc):
    """True iff the innermost frame of the exception's traceback is code of the repository under test"""
    tb = exc.__traceback__
    last = None
    while tb is not None:
        last = tb.tb_frame.f_code.co_filename
        tb = tb.tb_next
    return bool(last) and str(last).startswith(str(loader.REPO))


def _pyfn(*a, **k):
    return None


class Builder:
    """Performs the DSL calls of one program on the real API and logs the events."""

    def __init__(self, backend, *, seed=0, decorate=True, python=False):
        hb, _bk, self.BatchException = api()
        self.python = python     # consumer-only jobs become PythonJobs whose resource uses are arguments of call()
        self.pyjobs = set()
        self.b = hb.Batch(backend=backend, name="p")
        self.jobs = {}
        self.ins = {}
        self.ig = None
        self.events = []
        self.seed = seed
        self.decorate = decorate
        self.aborted = False
        self.nlit = 0

    # -- resources ------------------------------------------------------------------------------
    def res(self, r):
        k, j, n = r["k"], r["j"], r["n"]
        if k == "jf":
            return self.jobs[j][n]
        if k == "rg":
            return self.jobs[j]._resources["g"]
        if k == "gm":
            return self.jobs[j]._resources["g"][n]
        if k == "in":
            return self.ins[n]
        if k == "ig":
            return self.ig
        if k == "im":
            return self.ig[n]
        raise KeyError(r)

    def deps(self):
        ids = {j: i for i, j in self.jobs.items()}
        return [sorted(ids[d] for d in self.jobs[i]._dependencies) for i in sorted(self.jobs)]

    def lit(self):
        self.nlit += 1
        return LITERALS[(self.seed * 7 + self.nlit * 3) % len(LITERALS)]

    # -- calls ------------------------------------------------------------------------------------
    def call(self, op):
        a = op["op"]
        ev = {"a": a}
        try:
            with warnings.catch_warnings():
                warnings.simplefilter("ignore")
                getattr(self, "do_" + a)(op, ev)
            ev["out"] = "ok"
        except self.BatchException as e:
            ev["out"] = "refused"
            ev["exc"] = str(e)[:120]
            self.aborted = True
        except Exception as e:  # the code under test crashed (not a BatchException): an outcome no specification step has
            if not raised_in_repo(e):
                raise
            ev["out"] = "crash"
            ev["exc"] = repr(e)[:200]
            self.aborted = True
        ev["deps"] = self.deps()
        self.events.append(ev)

    def do_NewJob(self, op, ev):
        i = len(self.jobs) + 1
        name = JOB_NAMES[(i + self.seed) % len(JOB_NAMES)] if self.decorate else None
        j = self.b.new_python_job(name=name) if i in self.pyjobs else self.b.new_job(name=name)
        if op["always"]:
            j.always_run()
        self.jobs[i] = j
        ev.update(always=bool(op["always"]), dir=j._dirname)

    def do_Depend(self, op, ev):
        self.jobs[op["c"]].depends_on(self.jobs[op["p"]])
        ev.update(c=op["c"], p=op["p"])

    def do_DeclareGroup(self, op, ev):
        j = self.jobs[op["j"]]
        members = sorted(self.group_members)
        j.declare_resource_group(g={m: "{root}." + m for m in members})
        ev.update(j=op["j"])

    def do_ReadInput(self, op, ev):
        ip = op["ip"]
        r = self.b.read_input(ip["dir"] + "/" + ip["base"])
        self.ins[op["r"]["n"]] = r
        ev.update(r=op["r"], ip=ip, root=r._value.rsplit("/", 1)[0])

    def do_ReadInputGroup(self, op, ev):
        f = op["f"]
        ev.update(f=f, root="")
        rg = self.b.read_input_group(**{m: ip["dir"] + "/" + ip["base"] for m, ip in f.items()})
        self.ig = rg
        ev.update(root=rg._root)

    def do_Command(self, op, ev):
        toks = []
        if "toks" in op:
            toks = op["toks"]
        else:
            toks.append({"t": "lit", "s": ":" if not self.decorate else self.lit()})
            for r in op["refs"]:
                toks.append({"t": "ref", "r": r})
                if self.decorate:
                    toks.append({"t": "lit", "s": self.lit()})
        ev.update(j=op["j"], toks=toks)
        # resolve the references only now: attribute access creates the JobResourceFile, like in an f-string
        args = {k: self.res(t["r"]) for k, t in enumerate(toks) if t["t"] == "ref"}
        if op["j"] in self.pyjobs:
            # PythonJob: the same uses, as arguments of call() in the four shapes handle_args distinguishes
            pos, kw = [], {}
            keys = sorted(args)
            # call() handles positional arguments before keyword arguments: the first uses (in token order) become positional, the rest
            # keyword arguments, so that the uses are processed in the order of the command's tokens (what the specification models)
            npos = (len(keys) + ((self.seed + op["j"]) % 2)) // 2
            shapes = []
            for n, k in enumerate(keys):
                nested = (n + self.seed + op["j"]) % 2 == 1
                if n < npos:
                    shapes.append(2 if nested else 0)
                    pos.append([1, (args[k],)] if nested else args[k])
                else:
                    shapes.append(3 if nested else 1)
                    kw[f"k{n}"] = {"x": [args[k]]} if nested else args[k]
            ev["shapes"] = shapes
            self.jobs[op["j"]].call(_pyfn, *pos, **kw)
            return
        parts = [t["s"] if t["t"] == "lit" else str(args[k]) for k, t in enumerate(toks)]
        self.jobs[op["j"]].command("\t".join(parts))

    def do_AddExt(self, op, ev):
        ev.update(r=op["r"], e=op["e"])
        self.res(op["r"]).add_extension(op["e"])

    def do_WriteOutput(self, op, ev):
        ev.update(r=op["r"], d=op["d"])
        self.b.write_output(self.res(op["r"]), op["d"])

    group_members = ()

    def build(self, prog, group_members=()):
        self.group_members = group_members
        if self.python:
            producers = {op["j"] for op in prog if op["op"] == "DeclareGroup"}
            consumers = set()
            for op in prog:
                refs = [t["r"] for t in op.get("toks", []) if t["t"] == "ref"] + list(op.get("refs", []))
                if op["op"] in ("AddExt", "WriteOutput"):
                    refs.append(op["r"])
                for r in refs:
                    if r.get("k") in ("jf", "rg", "gm"):
                        producers.add(r["j"])
                if op["op"] == "Command" and refs:
                    consumers.add(op["j"])
            self.pyjobs = consumers - producers
        for op in prog:
            self.call(op)
            if self.aborted:
                break
        return self


# ------------------------------------------------------------------------------------------------------
def run_local(prog, fails, workdir, *, seed=0, execute=True, python=False):
    """Build prog on a LocalBackend whose jobs append their id to a marker file and exit 1 if in `fails`;
    returns the event list (build events + what Batch.run did).  execute=False: the backend is replaced by a
    probe that only records the numbering Batch._async_run hands to it (no job is run)."""
    hb, backend, BatchException = api()
    workdir = Path(workdir)
    workdir.mkdir(parents=True, exist_ok=True)
    logf = workdir / "log"
    if logf.exists():
        logf.unlink()
    seen = {}

    class ProbeLocal(backend.LocalBackend):
        async def _async_run(self, batch, *a, **k):
            seen["jobs"] = list(batch._jobs)
            if not execute:
                return None
            return await super()._async_run(batch, *a, **k)

        def __del__(self):  # Backend.__del__ would re-enter the event loop from the garbage collector
            pass

    be = ProbeLocal(tmp_dir=str(workdir / "tmp"))
    try:
        if python and execute:
            raise RuntimeError("the PythonJob variant is numbering-only")
        bd = Builder(be, seed=seed, decorate=False, python=python).build(prog)
        ev = bd.events
        if bd.aborted:
            return ev
        for i in sorted(bd.jobs):
            if i in bd.pyjobs:
                continue
            bd.call({"op": "Command", "j": i,
                     "toks": [{"t": "lit", "s": f"echo {i} >> {shlex.quote(str(logf))}; {'false' if i in fails else 'true'}"}]})
        ids = {j: i for i, j in bd.jobs.items()}
        raised = False
        out = io.StringIO()
        try:
            with contextlib.redirect_stdout(out), contextlib.redirect_stderr(out):
                bd.b.run(delete_scratch_on_exit=False)
        except BatchException as e:
            if "cycle" not in str(e):
                raise
            ev.append({"a": "Reject"})
            ran = [int(x) for x in logf.read_text().split()] if logf.exists() else []
            for i in ran:  # anything that ran although the pipeline was rejected
                ev.append({"a": "Run", "j": i, "ok": i not in fails})
            return ev
        except subprocess.CalledProcessError:
            raised = True
        except Exception as e:
            if not raised_in_repo(e):
                raise
            ev.append({"a": "Crash", "exc": repr(e)[:200]})
            return ev
        if "jobs" not in seen:
            raise RuntimeError("backend was not invoked")
        order = sorted(bd.jobs, key=lambda i: (bd.jobs[i]._job_id is None, bd.jobs[i]._job_id))
        if [ids[j] for j in seen["jobs"]] != order:
            ev.append({"a": "ListOrderDiffers", "list": [ids[j] for j in seen["jobs"]], "order": order})
        ev.append({"a": "Number", "order": order, "job_ids": [bd.jobs[i]._job_id for i in order]})
        if not execute:
            return ev
        ev.append({"a": "StartLocal"})
        ran = [int(x) for x in logf.read_text().split()] if logf.exists() else []
        ranset = set(ran)
        if [i for i in order if i in ranset] == ran:
            for i in order:  # skipped jobs leave no mark: they are placed at their position in the list
                ev.append({"a": "Run", "j": i, "ok": i not in fails} if i in ranset else {"a": "Skip", "j": i})
        else:  # executed out of numbering order (or twice): report the raw execution order
            for i in ran:
                ev.append({"a": "Run", "j": i, "ok": i not in fails})
            for i in order:
                if i not in ranset:
                    ev.append({"a": "Skip", "j": i})
        ev.append({"a": "EndLocal", "raised": raised})
        return ev
    finally:
        with contextlib.suppress(Exception):
            be.close()
        shutil.rmtree(workdir / "tmp", ignore_errors=True)


def _local_task(args):
    k, prog, fails, wd, seed = args
    try:
        return k, run_local(prog, set(fails or ()), wd, seed=seed, execute=fails is not None, python=(fails is None and k[-1] == -2)), None
    except BaseException as e:  # machinery problem: reported by the parent
        import traceback

        return k, None, traceback.format_exc()


def run_local_many(tasks, workers):
    """tasks: list of (key, prog, fails | None = numbering only, workdir, seed) -> {key: events}; runs in forked
    worker processes."""
    import multiprocessing as mp

    api()
    out = {}
    if workers <= 1 or len(tasks) < 4:
        res = map(_local_task, tasks)
    else:
        pool = mp.get_context("fork").Pool(workers)
        try:
            res = pool.map(_local_task, tasks, chunksize=max(1, len(tasks) // (workers * 8)))
        finally:
            pool.close()
            pool.join()
    for k, ev, err in res:
        if err:
            raise RuntimeError(f"local run {k} failed:\n{err}")
        out[k] = ev
    return out


def strip_events(ev):
    """events as written to the trace file (diagnostic fields removed)"""
    out = []
    for e in ev:
        e = {k: v for k, v in e.items() if k not in ("exc", "job_ids", "always_run", "raw_command", "shapes")}
        out.append(e)
    return out


# ------------------------------------------------------------------------------------------------------
# ServiceBackend with a recording batch client (no network)
def _service_backend():
    """A real ServiceBackend object (constructed without credentials / network) whose batch client creates real
    hailtop.batch_client.aioclient.Batch objects; submit() records the job specs instead of POSTing them."""
    hb, backend, _ = api()
    import hailtop.batch_client.aioclient as aioc

    class RecBatch(aioc.Batch):
        recorded = None

        async def submit(self, *a, **k):
            self.recorded = json.loads(json.dumps(self._job_specs))
            self._id = 1
            for j in self._jobs:  # what the real submit() does after the POSTs (first absolute job id = 1)
                j._submit(1)
            self._job_specs, self._jobs, self._in_update_job_id = [], [], 0
            return self

    class FakeClient:
        def __init__(self):
            self.batches = []

        def create_batch(self, attributes=None, callback=None, token=None, cancel_after_n_failures=None):
            b = RecBatch(self, None, attributes=attributes, callback=callback, token=token,
                         cancel_after_n_failures=cancel_after_n_failures)
            self.batches.append(b)
            return b

        async def close(self):
            pass

    class FakeFS:
        async def close(self):
            pass

        async def makedirs(self, *a, **k):
            pass

        async def write(self, *a, **k):
            pass

    uploads = []

    async def no_validate(uri, fs):
        return None

    async def record_copy(*, files, **kw):
        uploads.extend(files)

    # environment of the backend module: no bucket checks, no real upload, no progress bar
    backend.validate_file = no_validate
    backend.copy_from_dict = record_copy
    backend.track = lambda it, **k: it

    class ProbeService(backend.ServiceBackend):
        def __del__(self):
            pass

    be = object.__new__(ProbeService)
    client = FakeClient()
    be._ServiceBackend__batch_client = client
    be._token = None
    be._billing_project = "verif"
    be.remote_tmpdir = "gs://tmp-bucket/tmp dir"
    be._requester_pays_fses = {None: FakeFS()}
    be._ServiceBackend__fs = FakeFS()
    be.regions = ["us-central1"]
    return be, client, uploads


def _split_command(cmd):
    """The bash script the backend submits -> (symlink pairs, list of commands as raw text) or None if it does
    not have the shape  flags / mkdir / symlinks / { {cmd} {cmd} ... }."""
    lines = cmd.split("\n")
    if len(lines) < 5 or lines[0] != "" or not lines[1].startswith("set -e") or not lines[2].startswith("mkdir -p "):
        return None
    links = []
    if lines[3].strip():
        lx = shlex.shlex(lines[3], posix=True, punctuation_chars=";")
        lx.whitespace_split = True
        toks = list(lx)
        cur = []
        for t in toks + [";"]:
            if t == ";":
                if cur:
                    if len(cur) != 4 or cur[:2] != ["ln", "-sf"]:
                        return None
                    links.append({"src": cur[2], "dst": cur[3]})
                cur = []
            else:
                cur.append(t)
    body = "\n".join(lines[4:])
    if body == "\n":  # a job without commands
        return links, []
    if not (body.startswith("{\n{\n") and body.endswith("\n}\n}\n")):
        return None
    inner = body[len("{\n{\n"):-len("\n}\n}\n")]
    return links, inner.split("\n}\n{\n")


def _bash_words(raws, env):
    """Evaluate each raw token as bash would (quotes, ${BATCH_TMPDIR}); returns the list of word lists
    (None for a token bash cannot parse)."""
    if not raws:
        return []
    script = "".join(f"printf '%s\\0' {r}\nprintf '\\1\\n'\n" for r in raws)
    p = subprocess.run(["bash", "-c", script], capture_output=True, env={**os.environ, **env})
    chunks = p.stdout.split(b"\x01\n")
    if p.returncode == 0 and len(chunks) == len(raws) + 1 and chunks[-1] == b"":
        return [[w.decode("utf-8", "replace") for w in c.split(b"\0")[:-1]] for c in chunks[:-1]]
    out = []
    for r in raws:  # a token broke the script: evaluate one by one
        q = subprocess.run(["bash", "-c", f"printf '%s\\0' {r}"], capture_output=True, env={**os.environ, **env})
        out.append([w.decode("utf-8", "replace") for w in q.stdout.split(b"\0")[:-1]] if q.returncode == 0 else None)
    return out


def run_service(prog, *, seed=0, group_members=("a", "b")):
    """Build prog with the real API on a ServiceBackend with a recording client, call Batch.run(), and return the
    events (build events + numbering + one Submit event per recorded job spec)."""
    hb, backend, BatchException = api()
    be, client, uploads = _service_backend()
    bd = Builder(be, seed=seed, decorate=True).build(prog, group_members=group_members)
    ev = bd.events
    if bd.aborted:
        return ev
    out = io.StringIO()
    try:
        with contextlib.redirect_stdout(out), contextlib.redirect_stderr(out), warnings.catch_warnings():
            warnings.simplefilter("ignore")
            bd.b.run(wait=False, disable_progress_bar=True)
    except BatchException as e:
        if "cycle" not in str(e):
            raise
        ev.append({"a": "Reject"})
        for b in client.batches:
            for spec in (b.recorded or b._job_specs):
                ev.append({"a": "Submit", "j": 0, "rec": {"parents": [], "inputs": [], "outputs": [], "links": [], "cmds": []}})
        return ev
    except Exception as e:
        if not raised_in_repo(e):
            raise
        ev.append({"a": "Crash", "exc": repr(e)[:200]})
        return ev
    order = sorted(bd.jobs, key=lambda i: (bd.jobs[i]._job_id is None, bd.jobs[i]._job_id))
    ev.append({"a": "Number", "order": order})
    if len(client.batches) != 1 or client.batches[0].recorded is None:
        raise RuntimeError("nothing was submitted")
    specs = client.batches[0].recorded
    by_client_id = {}
    for i, j in bd.jobs.items():
        if j._client_job is None:
            raise RuntimeError(f"job {i} was not submitted")
        by_client_id[j._client_job._async_job._job_id] = i
    envs = [dict((e["name"], e["value"]) for e in s.get("env", [])) for s in specs if s["job_id"] in by_client_id]
    lroot = envs[0].get("BATCH_TMPDIR", "") if envs else ""
    rroot = next((s["process"]["command"][-1] for s in specs if s.get("attributes", {}).get("name") == "remove_tmpdir"), "")
    ev.append({"a": "StartService", "l": lroot, "r": rroot})
    # pass 1: split every submitted script into its commands and tokens; pass 2: one bash evaluates all reference tokens
    pending, raws_all = [], []
    for s in sorted(specs, key=lambda s: s["job_id"]):
        i = by_client_id.get(s["job_id"])
        if i is None:
            continue
        cmdv = s["process"]["command"]
        parsed = _split_command(cmdv[2]) if len(cmdv) == 3 and cmdv[1] == "-c" else None
        links, cmds = parsed if parsed else ([], [])
        prog_cmds = [e["toks"] for e in ev if e["a"] == "Command" and e["j"] == i and e["out"] == "ok"]
        toks = []
        for ci, text in enumerate(cmds):
            raws = text.split("\t")
            want = prog_cmds[ci] if ci < len(prog_cmds) and len(prog_cmds[ci]) == len(raws) else None
            row = []
            for k, raw in enumerate(raws):
                isref = want is not None and want[k]["t"] == "ref"
                row.append({"raw": raw, "words": [], "_at": len(raws_all) if isref else None})
                if isref:
                    raws_all.append(raw)
            toks.append(row)
        pending.append((i, s, cmdv, links, toks))
    if any(e != envs[0] for e in envs):  # never the case with the real backend: then every job is evaluated in its own environment
        words, k = [], 0
        for (i, sp, *_rest), toks in zip(pending, [p[4] for p in pending]):
            n = sum(1 for row in toks for t in row if t["_at"] is not None)
            words += _bash_words(raws_all[k:k + n], dict((e["name"], e["value"]) for e in sp.get("env", [])))
            k += n
    else:
        words = _bash_words(raws_all, envs[0] if envs else {})
    for i, s, cmdv, links, toks in pending:
        for row in toks:
            for t in row:
                at = t.pop("_at")
                if at is not None:
                    t["words"] = words[at] or []
        rec = {
            "parents": sorted(by_client_id[p] for p in s.get("in_update_parent_ids", []) if p in by_client_id),
            "inputs": [{"src": f["from"], "dst": f["to"]} for f in s.get("input_files", [])],
            "outputs": [{"src": f["from"], "dst": f["to"]} for f in s.get("output_files", [])],
            "links": links, "cmds": toks,
        }
        ev.append({"a": "Submit", "j": i, "rec": rec, "always_run": s.get("always_run"), "raw_command": cmdv[2] if len(cmdv) == 3 else cmdv})
    ev.append({"a": "EndService", "ups": [{"src": u["from"], "dst": u["to"]} for u in uploads]})
    return ev


def _service_task(args):
    k, prog, seed, gm = args
    try:
        return k, run_service(prog, seed=seed, group_members=gm), None
    except BaseException:
        import traceback

        return k, None, traceback.format_exc()


def run_service_many(tasks, workers):
    """tasks: list of (key, prog, seed, group_members) -> {key: events} (forked worker processes)"""
    import multiprocessing as mp

    api()
    if workers <= 1 or len(tasks) < 8:
        res = list(map(_service_task, tasks))
    else:
        pool = mp.get_context("fork").Pool(workers)
        try:
            res = pool.map(_service_task, tasks, chunksize=max(1, len(tasks) // (workers * 8)))
        finally:
            pool.close()
            pool.join()
    out = {}
    for k, ev, err in res:
        if err:
            raise RuntimeError(f"service run {k} failed:\n{err}")
        out[k] = ev
    return out
