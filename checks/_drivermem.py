"""C10 second stage: the driver's in-memory free-core copy (specs/batchdb/DriverMem.tla, DriverOut.tla: + the DELETE requests it sends) bound to the REAL wrappers of
batch/batch/driver/job.py (schedule_job, mark_job_started, mark_job_complete, unschedule_job) and the REAL
batch/batch/driver/instance.py Instance objects, over the real SQL on MiniMySQL.
"""
from __future__ import annotations

import asyncio
import random
import time

from checks import _batchdb as B
from vlib import tlaval, tlc, walk


class FakeInstColl:
    is_pool = True
    name = "standard"

    def __init__(self, loop):
        self.scheduler_state_changed = loop.call_in_loop(asyncio.Event)

    def adjust_for_remove_instance(self, inst):
        pass

    def adjust_for_add_instance(self, inst):
        pass

    async def call_delete_instance(self, *a, **k):
        pass


def _nested_scheduler_function():
    """`schedule_with_error_handling`, the coroutine function that PoolScheduler.schedule_loop_body defines around job.schedule_job
    (what it does when the call fails is part of the in-memory accounting), rebuilt from its code object"""
    import types

    import batch.driver.instance_collection.pool as pm

    code = pm.PoolScheduler.schedule_loop_body.__code__
    for c in code.co_consts:
        if isinstance(c, types.CodeType) and c.co_name == "schedule_with_error_handling":
            if c.co_freevars:
                raise RuntimeError(f"schedule_with_error_handling closes over {c.co_freevars}: the harness must be adapted")
            return types.FunctionType(c, pm.__dict__)
    raise RuntimeError("PoolScheduler.schedule_loop_body no longer defines schedule_with_error_handling: the harness must be adapted")


class RecordingSession:
    """the driver's HTTP client to the workers: records which <<job, instance>> were told to stop (DELETE .../jobs/{j}/delete)"""

    def __init__(self, ip_to_inst):
        self.ip_to_inst = ip_to_inst
        self.deleted = set()
        self.log = []

    async def delete(self, url, *a, **k):
        import re

        self.log.append(("DELETE", url))
        m = re.match(r"http://([0-9.]+):5000/api/v1alpha/batches/(\d+)/jobs/(\d+)/delete$", url)
        if not m:
            raise RuntimeError(f"unexpected DELETE {url}")
        self.deleted.add((int(m.group(3)), self.ip_to_inst.get(m.group(1), m.group(1))))

    async def post(self, url, *a, **k):
        self.log.append(("POST", url))

    async def patch(self, url, *a, **k):
        self.log.append(("PATCH", url))


class ICM:
    def __init__(self):
        self.instances = {}

    def get_instance(self, name):
        return self.instances.get(name)


class MemImpl(B.Impl):
    def __init__(self, p, seed=0):
        super().__init__(p, seed=seed)
        import batch.driver.job as dj
        from batch.driver.instance import Instance
        from gear import CommonAiohttpAppKeys
        from hailtop.utils import Notice

        self.dj = dj
        self.schedule_with_error_handling = _nested_scheduler_function()
        w = self.w
        self.icm = ICM()
        self.ic = FakeInstColl(w.loop)
        app = w.app
        app["scheduler_state_changed"] = w.loop.call_in_loop(Notice)
        app["cancel_ready_state_changed"] = w.loop.call_in_loop(asyncio.Event)
        app["driver"] = type("D", (), {"inst_coll_manager": self.icm})()
        app["resource_name_to_id"] = {}
        self.session = RecordingSession({f"10.0.0.{n + 1}": i for n, i in enumerate(p.insts)})
        app[CommonAiohttpAppKeys.CLIENT_SESSION] = self.session
        for i in p.insts:
            self.icm.instances[i] = Instance(app, self.ic, i, "pending", p.inst_cores, p.inst_cores, 0, 0, 0, f"10.0.0.{list(p.insts).index(i) + 1}", 1, "us-central1-a",
                                            "n1-standard-16", True, None)
        self._saved_job_config = dj.job_config

        async def fake_job_config(app, record):
            return {}

        dj.job_config = fake_job_config

    def close(self):
        self.dj.job_config = self._saved_job_config
        super().close()

    def record(self, j, a):
        d = self.p.jobs[j]
        return {"batch_id": self.b, "job_id": j, "attempt_id": a, "job_group_id": d["grp"], "format_version": 7, "user": "u1",
                "cores_mcpu": d["cores"], "instance_name": self.inst_of(j, a)}

    def apply(self, name, args):
        w, b, p, dj = self.w, self.b, self.p, self.dj
        I = self.icm.instances
        if name == "MSelect":
            j, a, i = args
            I[i].adjust_free_cores_in_memory(-p.jobs[j]["cores"])      # schedule_loop_body, after pool.get_instance
            return None
        if name == "MSchedule":
            j, a, i = args

            # the REAL error handling around schedule_job: the function nested in PoolScheduler.schedule_loop_body
            return w.run(self.schedule_with_error_handling(w.app, self.record(j, a), I[i]))
        if name == "MStarted":
            j, a, i, t = args
            return w.run(dj.mark_job_started(w.app, b, j, a, I[i], t, []))
        if name == "MComplete":
            j, a, i, st, t0, t1 = args
            return w.run(dj.mark_job_complete(w.app, b, j, a, p.jobs[j]["grp"], i, st, None, t0, t1, "completed", []))
        if name == "MUnschedule":
            j, a, t = args
            w.now = t
            r = w.run(dj.unschedule_job(w.app, self.record(j, a)))
            w.now = 1000
            return r
        if name == "MActivate":
            (i,) = args
            return w.run(I[i].activate(f"10.0.0.{list(p.insts).index(i) + 1}", w.now))
        if name == "MDeactivate":
            i, t = args
            return w.run(I[i].deactivate("deactivated", t))
        if name == "MDeactivateLost":
            i, t = args        # the CALL commits, the reply is lost: the Instance object never gets past the await
            return w.call("CALL deactivate_instance(%s, %s, %s);", (i, "deactivated", t))
        inner = {"MCreateUpdate": "CreateUpdate", "MCommit": "Commit", "MInsertGroup": "InsertGroup", "MCancelGroup": "CancelGroup",
                 "MInsertJob": "InsertJob", "MCancelReadySelect": "CancelReadySelect", "MCancelReadyCall": "CancelReadyCall",
                 "MCancelRunningSelect": "CancelRunningSelect", "MOrphanSelect": "OrphanSelect"}
        return super().apply(inner.get(name, name), args)

    def project(self):
        st = super().project()
        st["mfree"] = {i: self.icm.instances[i].free_cores_mcpu for i in self.p.insts}
        st["mst"] = {i: self.icm.instances[i].state for i in self.p.insts}
        st["told"] = frozenset(self.session.deleted)
        return st


COMPARE = B.COMPARE + ["mfree", "mst", "told"]


def _label_to_call(lab):
    name, args = tlc.parse_action_label(lab)
    args = [str(a) if isinstance(a, tlaval.Sym) else a for a in args]
    if name.startswith("O"):
        name = "M" + name[1:]
    return name, args


def _expect(node):
    exp = B.spec_view(node)
    exp["mfree"] = {str(k): v for k, v in node["mfree"].items()}
    exp["mst"] = {str(k): str(v) for k, v in node["mst"].items()}
    exp["told"] = frozenset((int(x[0]), str(x[1])) for x in node["told"])
    return exp


def _save(impl):
    I = impl.icm.instances
    return {"db": impl.w.eng.save_state(), "mem": {i: (I[i]._state, I[i]._free_cores_mcpu, I[i]._failed_request_count, I[i].ip_address) for i in I},
            "told": set(impl.session.deleted)}


def _load(impl, st):
    impl.w.eng.load_state(st["db"])
    for i, (state, free, frc, ip) in st["mem"].items():
        o = impl.icm.instances[i]
        o._state, o._free_cores_mcpu, o._failed_request_count, o.ip_address = state, free, frc, ip
    impl.session.deleted = set(st["told"])


ADAPTER = {"make": lambda p, seed: MemImpl(p, seed=seed), "apply": lambda impl, lab: impl.apply(*_label_to_call(lab)), "expect": _expect,
           "observe": lambda impl: {x: v for x, v in impl.project().items() if x in COMPARE}, "save": _save, "load": _load}


def mem_programs():
    P = {}
    P["mem1"] = B.Program("mem1", {1: B.job()}, {}, 1, att_ids=("a1", "a2"), insts=("i1",), times=(1,), features=("deactivate",))
    P["mem2"] = B.Program("mem2", {1: B.job(), 2: B.job(grp=1, always=True, cores=250)}, {1: dict(parent=0, upd=1)}, 1,
                          att_ids=("a1", "a2"), insts=("i1",), times=(1,), features=("deactivate",))
    P["mem2i"] = B.Program("mem2i", {1: B.job(), 2: B.job(par=[1], cores=250)}, {}, 1, att_ids=("a1",), insts=("i1", "i2"),
                           times=(1,), features=("deactivate",))
    for p in P.values():
        p.check()
    return P


def run_tlc_mem(ctx, p, dump=True, simulate=None, depth=None, out=True):
    """out=False: DriverMem only (without the history of DELETE requests, which multiplies the states of the larger programs)"""
    name = f"DM_{p.name}"
    if out:
        mod = B.mc_module(p, name).replace("EXTENDS BatchDBLive", "EXTENDS DriverOut")
        cfg = B.mc_cfg(p, B.ALL_AVOID, ["C10_Mem", "C10_MemState", "C10_Free", "C39_EndedAttemptsToldToStop"], []).replace("INIT Init", "INIT OInit").replace("NEXT Next", "NEXT ONext")
    else:
        mod = B.mc_module(p, name).replace("EXTENDS BatchDBLive", "EXTENDS DriverMem")
        cfg = B.mc_cfg(p, B.ALL_AVOID, ["C10_Mem", "C10_MemState", "C10_Free"], []).replace("INIT Init", "INIT MInit").replace("NEXT Next", "NEXT MNext")
    wd = tlc.prepare_dir(ctx.build / f"mem_{p.name}", ["batchdb"], {f"{name}.tla": mod, f"{name}.cfg": cfg})
    res = tlc.run(wd, name, f"{name}.cfg", workers=min(ctx.workers, 8), dump="graph" if dump and simulate is None else None,
                  simulate=simulate, depth=depth, seed=ctx.seed + 3 if simulate else None, timeout=3000 if ctx.quick else 12000)
    return res, wd


def replay_walk(ctx, p, steps, seed):
    """steps: list of (label, dst_state).  Inner labels of MOther are taken from the BatchDB action that TLC names."""
    impl = MemImpl(p, seed=seed)
    path = []
    try:
        for lab, dst in steps:
            name, args = tlc.parse_action_label(lab)
            args = [str(a) if isinstance(a, tlaval.Sym) else a for a in args]
            if name.startswith("O"):
                name = {"OSelect": "MSelect", "OSchedule": "MSchedule", "OUnschedule": "MUnschedule"}.get(name, "M" + name[1:])
            path.append(lab)
            impl.apply(name, args)
            got = impl.project()
            exp = B.spec_view(dst)
            exp["mfree"] = {str(k): v for k, v in dst["mfree"].items()}
            exp["mst"] = {str(k): str(v) for k, v in dst["mst"].items()}
            exp["told"] = frozenset((int(x[0]), str(x[1])) for x in dst["told"])
            d = B.diff(exp, {x: got[x] for x in COMPARE})
            if d:
                return len(path), dict(path=list(path), diff=d)
        return len(path), None
    finally:
        impl.close()


def run_memory_stage(ctx, budget_quick=25, model_only_program=True):
    P = mem_programs()
    progs = ["mem1"] if ctx.quick else ["mem1", "mem2i"]
    total = 0
    nw = 0
    for n in progs:
        p = P[n]
        res, wd = run_tlc_mem(ctx, p)
        ctx.add_tlc(res, f"DriverMem program {n}: exhaustive, invariants C10_Mem C10_MemState C10_Free")
        for v in res.violations:
            ctx.violation(f"spec:{v.name}:{n}", {"program": n, "trace": [h for h, _ in v.trace]})
        if res.violations:
            continue
        g = tlc.parse_dot(wd / "graph.dot")
        deadline = time.time() + (budget_quick if ctx.quick else 300)
        covered = set()
        # rewinding traversal (database and in-memory instance state restored in place): every edge class, then the remaining edges
        csteps, cdone, ctotal, mism1, _e = B.replay_class_tree(p, g, seed=ctx.seed + nw, deadline=time.time() + 2.5 * (deadline - time.time()),
                                                               covered=covered, adapter=ADAPTER)
        total += csteps
        mism = mism1
        if not mism:
            esteps, _d, _t, mism, _e = B.replay_class_tree(p, g, seed=ctx.seed + nw + 1, deadline=deadline, covered=covered, all_edges=True, adapter=ADAPTER)
            total += esteps
        nw += B.replay_class_tree.paths
        for m in mism[:1]:
            lab = tlc.parse_action_label(m["label"])[0] if m["label"] != "<init>" else "init"
            touched = sorted({x.split(".")[0] for x in m["diff"]})
            ctx.violation(f"memreplay:{lab}:{','.join(t for t in touched if t in ('mfree', 'mst', 'inst', 'att', 'told'))}", {"program": n, **m})
        ctx.cov.setdefault("memory_replay", []).append({"program": n, "paths": nw, "edges_covered": len(covered), "edges": len(set(g.edges)),
                                                        "nodes": len(g.nodes), "edge_classes": ctotal, "edge_classes_exercised": cdone})
    if not ctx.quick and model_only_program:
        p = P["mem2"]
        res, wd = run_tlc_mem(ctx, p, dump=False, out=False)
        ctx.add_tlc(res, "DriverMem program mem2: exhaustive (model only)")
        for v in res.violations:
            ctx.violation(f"spec:{v.name}:mem2", {"trace": [h for h, _ in v.trace]})
    return total, nw
