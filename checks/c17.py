"""C17 - Batch DSL: jobs are numbered and run in dependency order, cyclic pipelines are rejected before
anything runs, and LocalBackend skips exactly the least fixpoint of "not always_run and some parent failed or
was skipped".

Spec specs/dsl/BatchDsl.tla (+ BatchDslGen program enumeration, BatchDslTrace trace validation).
(1) TLC checks the C17 invariants exhaustively on the specification (which models Batch._async_run's depth
    first numbering + cycle check and LocalBackend's cancel_child_jobs loop); the properties are stated over
    ghost variables (what the program said) and the observable numbering / execution log.
(2) TLC enumerates programs (exhaustively for small bounds, by -simulate for larger ones); each is built with
    the real hailtop.batch API and run by the real LocalBackend (bash subprocesses, marker files) for every /
    several sets of failing commands.
(3) TLC validates every recorded execution as a behaviour of the specification (B2) with all C17 invariants
    evaluated in every state.
"""
from __future__ import annotations

import itertools
import json
import random

from vlib import tlc

from . import _dsl

LEVEL = "model_checking"
MANIFEST = {
    "technique": "TLA+ spec BatchDsl checked exhaustively by TLC; TLC-enumerated pipelines (exhaustive small bounds + simulation) built with the real hailtop.batch API and run on the real LocalBackend; every execution validated by TLC as a behaviour of the spec (trace validation, B2) with the C17 invariants evaluated at each step",
    "text": "TLC explores on the specification all pipelines of 3 jobs in canonical call order with <= 2 (quick) / <= 3 (thorough) dependency edges - explicit, resource-induced, self loops, cycles, forward and backward in creation order - with every always_run assignment and every outcome of every command, and (thorough) all 3-job programs with freely interleaved calls (1.3M states). The same enumerated programs, plus TLC-simulated 4- and 5-job programs, are built with the real API; Batch._async_run's numbering / cycle rejection is recorded for every one and LocalBackend executes one program per (dependency sets, always_run) class with several / all sets of failing commands. TLC accepts a recorded execution only as a behaviour of the specification with: numbering topological over explicit + resource edges, cyclic <=> rejected with nothing run, every job resolved after its parents, skipped set = least fixpoint.",
    "note": "Trusts TLC; the marker-file observation of which job ran (a skipped job is placed at its position in the numbered list); /bin/sh + bash exit codes. Job._dependencies after each DSL call is compared with the spec (internal attribute). PythonJob.call is exercised for dependency / numbering / cycle rejection only (not executed); docker images are not exercised. The numbering is held to 'some permutation' and judged by the invariants, not to the depth first order the spec models.",
    "design_ref": "DESIGN.md section 5, C17 / C18",
}

INVS = ["TypeOK", "C17_DepsAreEdges", "C17_Topological", "C17_CyclicRejected", "C17_OnlyCyclicRejected",
        "C17_NothingRunsUnlessNumbered", "C17_RunAfterParents", "C17_SkipExact", "C17_SkipSound"]
GEN_ACTIONS = ["GNewJob", "GDepend", "GDefine", "GUse", "GDone", "GNumber", "GStartLocal", "GRunLocal", "GSkipLocal", "GEndLocal"]
ACTIONS = ["NewJobAny", "Depend", "CommandAny", "NumberAny", "StartLocal", "RunLocal", "SkipLocal", "EndLocal"]


def consts(**kw):
    c = dict(_dsl.BASE_CONSTS)
    c.update(kw)
    return c


def spec_check(ctx, wd):
    """exhaustive model checking of the specification with free interleaving of the DSL calls"""
    if ctx.quick:
        runs = [("2 jobs, <= 3 dependency edges", consts(MaxJobs=2, MaxCmds=2, EdgeLimit=3))]
    else:
        runs = [("2 jobs, 2 resource names, all programs", consts(MaxJobs=2, Names='{"o", "p"}', MaxCmds=2)),
                ("3 jobs, all programs", consts(MaxJobs=3, MaxCmds=2))]
    for n, (what, c) in enumerate(runs):
        cfg = f"MC{n}.cfg"
        (wd / cfg).write_text(tlc.mk_cfg(constants=c, invariants=INVS, view="NoCmdView", constraint="EdgeBound"))
        res = tlc.run(wd, "BatchDsl", cfg, workers=ctx.workers, coverage=True)
        ctx.add_tlc(res, f"exhaustive BatchDsl, free interleaving (local backend): {what}")
        ctx.require_covered(res, ACTIONS, "BatchDsl")
        for v in res.violations:
            ctx.violation(f"spec:{v.name}", {"config": c, "trace": [(h, str(tlc.tlaval.to_py(s))[:1500]) for h, s in v.trace][-6:]})


def fail_sets(n, rng, limit):
    """sets of jobs whose command fails: all of them, or `limit` of them (single failures first - the most
    discriminating for skip propagation -, then no failure, then random larger sets)"""
    allsets = [set(c) for k in range(n + 1) for c in itertools.combinations(range(1, n + 1), k)]
    if limit is None or len(allsets) <= limit:
        return allsets
    singles = [s for s in allsets if len(s) == 1]
    pairs = [s for s in allsets if len(s) == 2]
    rest = [s for s in allsets if len(s) > 2]
    rng.shuffle(singles)
    rng.shuffle(pairs)
    rng.shuffle(rest)
    # one single failure, one double failure (two independent failures: each must cancel its own children), no failure, then the others
    return (singles[:1] + pairs[:1] + [set()] + singles[1:] + pairs[1:] + rest)[:limit]


def run(ctx):
    _dsl.api()
    wd = tlc.prepare_dir(ctx.build / "tlc", ["dsl"])
    if not ctx.quick:
        spec_check(ctx, wd)

    # ---- (2) programs from TLC -> real API + LocalBackend ---------------------------------------------
    rng = random.Random(ctx.seed * 7919 + 17)
    G = _dsl.GEN_CONSTS
    # (name, spec constants, generator constants, simulate, failing sets per executed class (None = all), executed classes cap)
    if ctx.quick:
        gens = [("ex3", consts(MaxJobs=3, MaxCmds=9), dict(G, MaxDeps=2, MaxUses=2, MaxEdges=2, Undefined="TRUE"), None, 3, None),
                ("sim4", consts(MaxJobs=4, MaxCmds=9), dict(G, MaxDeps=5, MaxUses=4, MaxEdges=6, MinLen=7), "num=250", 3, 40)]
    else:
        gens = [("ex2", consts(MaxJobs=2, Names='{"o", "p"}', MaxCmds=9),
                 dict(G, MaxDeps=4, MaxUses=2, MaxEdges=5, FullJobs="FALSE", Undefined="TRUE", MaxRefs=2), None, None, None),
                ("ex3", consts(MaxJobs=3, MaxCmds=9), dict(G, MaxDeps=3, MaxUses=3, MaxEdges=3), None, None, None),
                ("sim4", consts(MaxJobs=4, MaxCmds=9), dict(G, MaxDeps=6, MaxUses=5, MaxEdges=8, MinLen=7), "num=4000", 4, 300),
                ("sim5", consts(MaxJobs=5, Names='{"o", "p"}', MaxCmds=9),
                 dict(G, MaxDeps=8, MaxUses=6, MaxEdges=10, MinLen=9, MaxRefs=2), "num=3000", 4, 200)]
    meta, nprog, tasks = {}, {}, []
    for name, c, g, sim, nfail, cap in gens:
        # exhaustive bounds: one TLC run checks the invariants on every canonical program + its run and prints the programs
        progs, res = _dsl.generate(ctx, wd, name, {**c, **g, "LateExt": "TRUE"}, simulate=sim, seed=ctx.seed + 1,
                                   full_invariants=None if sim else INVS)
        ctx.add_tlc(res, f"{'simulated' if sim else 'exhaustive canonical'} programs {name}"
                         f"{'' if sim else ' + Batch.run() on the spec, all C17 invariants'}: {len(progs)} programs")
        if not sim:
            ctx.require_covered(res, GEN_ACTIONS, "BatchDslGen")
        for v in res.violations:
            ctx.violation(f"spec:{v.name}", {"config": {**c, **g}, "trace": [(h, str(tlc.tlaval.to_py(s))[:1500]) for h, s in v.trace][-6:]})
        if not progs:
            raise RuntimeError(f"no programs generated for {name}")
        nprog[name] = len(progs)
        for k, p in enumerate(progs):  # numbering / rejection of every program (no job is run)
            key = (name, k, -1)
            tasks.append((key, p, None, str(ctx.build / "run" / f"{name}-{k}"), ctx.seed))
            meta[key] = (p, None)
            if any(op["op"] == "Command" and (op.get("refs") or any(t["t"] == "ref" for t in op.get("toks", []))) for op in p):
                # the same program with its consumer-only jobs as PythonJobs (uses = positional / keyword / nested arguments of call())
                key = (name, k, -2)
                tasks.append((key, p, None, str(ctx.build / "run" / f"{name}-{k}-py"), ctx.seed))
                meta[key] = (p, None)
    results = _dsl.run_local_many(tasks, 1 if len(tasks) < 6000 else ctx.workers)  # ~1 ms each: no job is run
    # executions: one program per (final dependency sets, always_run flags) class among the numbered ones, each
    # with all / several sets of failing commands
    tasks = []
    nclasses = {}
    for name, c, g, sim, nfail, cap in gens:
        classes = {}
        for key in sorted(k for k in results if k[0] == name):
            ev = results[key]
            if ev[-1]["a"] != "Number":
                continue
            sig = (json.dumps(ev[-2]["deps"]), tuple(e["always"] for e in ev if e["a"] == "NewJob"))
            classes.setdefault(sig, key)
        chosen = sorted(classes.values())
        if cap is not None and len(chosen) > cap:
            rng.shuffle(chosen)
            chosen = sorted(chosen[:cap])
        nclasses[name] = {"classes": len(classes), "executed": len(chosen)}
        for (_n, k, _f) in chosen:
            p = meta[(name, k, -1)][0]
            n = sum(1 for op in p if op["op"] == "NewJob")
            for f, fs in enumerate(fail_sets(n, rng, nfail)):
                key = (name, k, f)
                tasks.append((key, p, sorted(fs), str(ctx.build / "run" / f"{name}-{k}-{f}"), ctx.seed))
                meta[key] = (p, sorted(fs))
    results.update(_dsl.run_local_many(tasks, ctx.workers))
    import shutil

    shutil.rmtree(ctx.build / "run", ignore_errors=True)

    # ---- (3) trace validation -------------------------------------------------------------------------
    keys = sorted(results)
    lines = [json.dumps({"ev": _dsl.strip_events(results[k])}) for k in keys]
    tf = wd / "traces.ndjson"
    tf.write_text("\n".join(lines) + "\n")
    tc = consts(MaxJobs=5, Names='{"o", "p"}', MaxCmds=99, LateExt="TRUE")
    tc["Orders"] = "<- AnyOrders"
    (wd / "Trace.cfg").write_text(tlc.mk_cfg(spec="TraceSpec", constants=tc, invariants=INVS, deadlock=True))
    tres = tlc.run(wd, "BatchDslTrace", "Trace.cfg", workers=min(ctx.workers, 4 if ctx.quick else 8), env={"TRACE_FILE": tf})
    ctx.add_tlc(tres, f"trace validation of {len(lines)} executions of the real API + LocalBackend")
    nev = sum(len(results[k]) for k in keys)
    if not tres.violations and tres.distinct < nev:
        raise RuntimeError(f"trace validation explored {tres.distinct} states for {nev} events")
    for v in tres.violations:
        last = v.trace[-1][1] if v.trace else {}
        tid, l = last.get("tid"), last.get("l")
        evs = results[keys[tid - 1]] if tid else []
        nxt = evs[l - 1] if tid and l and l <= len(evs) else None
        prog, fs = meta[keys[tid - 1]] if tid else (None, None)
        ctx.violation(f"trace:{v.kind}:{v.name}:{nxt['a'] if nxt else 'end'}",
                      {"program": prog, "failing_jobs": fs, "position": l, "next_event": nxt, "events": evs,
                       "spec_state": {k: tlc.tlaval.to_py(last[k]) for k in ("phase", "order", "deps", "always", "log", "cancelled") if k in last}})
    # ---- evidence --------------------------------------------------------------------------------------
    stats = {"rejected": 0, "numbered": 0, "executed": 0, "aborted": 0, "with_skips": 0, "with_failures": 0, "resource_edges": 0}
    distinct = set()
    for k in keys:
        ev = results[k]
        kinds = [e["a"] for e in ev]
        if "Reject" in kinds:
            stats["rejected"] += 1
        elif "Number" in kinds:
            stats["numbered"] += 1
            stats["executed"] += "EndLocal" in kinds
        else:
            stats["aborted"] += 1
        stats["with_skips"] += "Skip" in kinds
        stats["with_failures"] += any(e["a"] == "Run" and not e["ok"] for e in ev)
        stats["resource_edges"] += any(e["a"] == "Command" and any(t["t"] == "ref" and t["r"]["j"] != e["j"] for t in e["toks"]) for e in ev)
        if len(meta[k][0]) > 3:
            distinct.add(json.dumps(meta[k][0], sort_keys=True))
    if not ctx.viol and not (stats["rejected"] and stats["with_skips"] and stats["resource_edges"]):
        raise RuntimeError(f"vacuous: {stats}")
    ctx.cov.update(traces_validated_against_impl=len(lines), trace_events=nev, evaluations=nev,
                   distinct_nontrivial=len(distinct), exhaustive=True, programs=sum(nprog.values()), programs_by_generator=nprog, executed_classes=nclasses, executions=stats,
                   rule="TLC exhaustive on BatchDsl for the listed bounds; every program TLC enumerated (exhaustive bounds listed in tlc_runs, "
                        "plus simulated larger ones) built and run by the real code with the listed number of failing-command sets; every execution "
                        "validated by TLC; distinct_nontrivial = distinct programs with more than 3 DSL calls")
    mid = keys[len(keys) // 2]
    ctx.sample({"kind": "program", "calls": meta[mid][0], "failing_jobs": meta[mid][1]})
    ctx.sample({"kind": "recorded-execution", "events": [e for e in results[mid] if e["a"] not in ("NewJob", "Depend", "Command")]})
    ctx.assume("a job that ran appended its id to the marker file; a job absent from the file was skipped (placed at its position in Batch._jobs)",
               "the command of every job ends with `true` or `false` (the failing set); resources are only mentioned (`: <path>`), not read",
               "Job._dependencies (internal attribute) is the projection compared after each DSL call")
