"""C24 - the rate limiter (hailtop/utils/rate_limiter.py RateLimiter) admits at most `count` entries in any
half-open window of `window_seconds`, and admits an entry as soon as that is possible.

Spec specs/rate/RateLimiter.tla (integer clock, asyncio ready queue, sleep timers).
(1) TLC checks the window bound, the as-soon-as-possible clause and the bookkeeping invariants exhaustively on the
    spec, with maximal progress (Urgent) and with time passing at arbitrary moments (late wake-ups).
(2) B1: the complete labelled state graph is replayed, edge by edge, on the real class under the deterministic event
    loop with `time.time` of the module patched to the virtual clock; timers that are due fire in the order TLC chose.
(3) B2: random executions of the real class with more tasks, longer horizons and asyncio's own timer order are
    validated by TLC as behaviours of the spec, all invariants evaluated at every step.
"""
from __future__ import annotations

import asyncio
import heapq
import json
import random
import time as _real_time

from vlib import loader, tlc, walk, tlaval
from vlib.vloop import VLoop

LEVEL = "model_checking"
MANIFEST = {
    "technique": "TLA+ spec RateLimiter (integer clock, sliding window deque, asyncio ready queue and sleep timers) checked exhaustively by TLC; state-graph replay (B1) and TLC trace validation (B2) against the real RateLimiter on a single-stepped asyncio loop with a virtual clock",
    "text": "All arrival times on an integer clock and all interleavings of arrivals, loop iterations, timer expiries (in every order) and clock ticks for 3-5 tasks, count 1..3, window 2..3, explored exhaustively by TLC on the spec, both under maximal progress and with arbitrarily late wake-ups; the real class is shown to have the same transition relation on those whole graphs (every edge replayed, full state compared) and longer random executions of the real class under asyncio's own timer order are accepted by the spec with all invariants holding at each step.",
    "note": "Trusts TLC and the virtual event loop (vlib/vloop.py). The class reads time.time(); the harness replaces the name `time` in hailtop.utils.rate_limiter by a shim that returns the virtual loop time. Integer seconds only, so float rounding at the window edge is outside the check. 'As soon as possible' is checked under maximal progress (the clock advances only when nothing is runnable).",
    "design_ref": "DESIGN.md section 5, C24; Appendix F",
}

INVS = ["TypeOK", "C24_Window", "C24_Asap", "C24_WakeTime", "RL_Items", "RL_ReadyQueue", "RL_AdmittedIffIn"]
ACTIONS = ["Enter", "Step", "Fire", "Tick"]


class _Clock:
    """stands in for the module `time` inside hailtop.utils.rate_limiter"""

    def __init__(self):
        self.loop = None

    def time(self):
        return self.loop.time()

    def __getattr__(self, name):
        return getattr(_real_time, name)


CLOCK = _Clock()


class TLoop(VLoop):
    """Timers fire only when the harness fires them (B1: TLC chooses the order of simultaneous expiries)."""

    def _move_due(self):
        pass


def _is_task_step(h):
    return asyncio.isfuture(getattr(h._callback, "__self__", None))


class BodyError(Exception):
    """raised by the body of an admitted entry (the admission still counts against the rate)"""


class Impl:
    def __init__(self, count, window, mod, controlled, failing=()):
        self.failing = set(failing)
        self.loop = TLoop() if controlled else VLoop()
        self.controlled = controlled
        CLOCK.loop = self.loop
        self.lim = mod.RateLimiter(mod.RateLimit(count, window))
        self.tasks = {}
        self.adm = {}

    def now(self):
        v = self.loop.time()
        assert v == int(v), v
        return int(v)

    async def body(self, t):
        async with self.lim:
            self.adm[t] = self.now()
            if t in self.failing:
                raise BodyError(t)

    def enter(self, t):
        self.tasks[t] = self.loop.create_task(self.body(t), name=t)

    def timer_of(self, t):
        fut = self.tasks[t]._fut_waiter
        if fut is None:
            return None
        for h in list(self.loop._scheduled) + list(self.loop._ready):
            if isinstance(h, asyncio.TimerHandle) and not h._cancelled and h._args and h._args[0] is fut:
                return h
        return None

    def task_of_timer(self, h):
        for t, task in self.tasks.items():
            if not task.done() and task._fut_waiter is not None and h._args and h._args[0] is task._fut_waiter:
                return t
        raise RuntimeError(f"timer {h!r} belongs to no task")

    def fire(self, t):
        h = self.timer_of(t)
        assert h is not None and h._when <= self.loop.time(), f"timer of {t} not due"
        if self.controlled:
            self.loop._scheduled.remove(h)
            heapq.heapify(self.loop._scheduled)
            h._scheduled = False
            self.loop.run_handle(h)
        else:
            head = self.loop.pending_ready()[0]
            assert head is h, "not at the head of the ready queue"
            assert self.loop.step()

    def step(self):
        pr = self.loop.pending_ready()
        assert pr and _is_task_step(pr[0]), "head of the ready queue is not a task step"
        assert self.loop.step()

    def tick(self):
        self.loop.advance_to(self.loop.time() + 1)

    def next_natural(self):
        """natural mode: what asyncio would run next: ('Step', '') or ('Fire', t) or None"""
        pr = self.loop.pending_ready()
        if not pr:
            return None
        return ("Step", "") if _is_task_step(pr[0]) else ("Fire", self.task_of_timer(pr[0]))

    def apply(self, name, t=None):
        if name == "Enter":
            self.enter(t)
        elif name == "Step":
            self.step()
        elif name == "Fire":
            self.fire(t)
        elif name == "Tick":
            self.tick()
        else:
            raise RuntimeError(name)

    def project(self, all_tasks):
        rq = tuple(n for n in self.loop.ready_tasks() if n is not None)
        pc, until, adm = {}, {}, {}
        for t in all_tasks:
            until[t] = 0
            adm[t] = self.adm.get(t, -1)
            if t not in self.tasks:
                pc[t] = "idle"
            elif self.tasks[t].done():
                exc = self.tasks[t].exception()
                if exc is not None and not (isinstance(exc, BodyError) and t in self.failing):
                    raise exc
                pc[t] = "in"
            elif t in rq:
                pc[t] = "checking"
            else:
                h = self.timer_of(t)
                if h is None:
                    raise RuntimeError(f"task {t} is neither ready nor sleeping")
                pc[t] = "sleeping"
                assert h._when == int(h._when), h._when
                until[t] = int(h._when)
        items = []
        for x in self.lim._items:
            assert x == int(x), x
            items.append(int(x))
        return {"now": self.now(), "items": tuple(items), "pc": pc, "until": until, "rq": rq, "admAt": adm}

    def close(self):
        errs = [e for e in self.loop.errors]
        self.loop.dispose()
        if errs:
            raise RuntimeError(f"event loop errors: {errs}")


def view(st):
    return {"now": st["now"], "items": tuple(st["items"]), "pc": dict(st["pc"]), "until": dict(st["until"]),
            "rq": tuple(st["rq"]), "admAt": dict(st["admAt"])}


def _set(xs):
    return "{" + ", ".join(f'"{x}"' for x in xs) + "}"


def _consts(tasks, count, window, maxtime, urgent):
    return {"Tasks": _set(tasks), "Count": count, "Window": window, "MaxTime": maxtime, "Urgent": "TRUE" if urgent else "FALSE"}


def _names(n):
    return tuple(f"t{i}" for i in range(1, n + 1))


def run(ctx):
    loader.install()
    import hailtop.utils.rate_limiter as mod

    if not hasattr(mod, "time") or not hasattr(mod.time, "time"):
        raise RuntimeError("hailtop.utils.rate_limiter no longer reads the clock through the name `time`: the harness must be adapted")
    saved = mod.time
    mod.time = CLOCK
    try:
        _run(ctx, mod)
    finally:
        mod.time = saved


def _run(ctx, mod):
    wd = tlc.prepare_dir(ctx.build / "tlc", ["rate"])
    # (ntasks, count, window, maxtime, urgent)
    configs = [(3, 1, 2, 5, True), (3, 2, 3, 6, True), (3, 2, 2, 4, False), (4, 2, 2, 5, True)]
    if not ctx.quick:
        configs += [(4, 2, 3, 8, True), (4, 2, 3, 8, False), (4, 1, 2, 8, True), (4, 3, 2, 6, True), (4, 1, 3, 7, False), (5, 2, 3, 7, True)]
    workers = min(ctx.workers, 4) if ctx.quick else ctx.workers
    total_edges = 0
    for n, (nt, count, window, maxtime, urgent) in enumerate(configs):
        tasks = _names(nt)
        consts = _consts(tasks, count, window, maxtime, urgent)
        # ---- (1) the properties on the spec -----------------------------------------------------------------
        (wd / f"MC{n}.cfg").write_text(tlc.mk_cfg(constants=consts, invariants=INVS))
        res = tlc.run(wd, "RateLimiter", f"MC{n}.cfg", workers=workers, coverage=True, dump=f"g{n}")
        ctx.add_tlc(res, f"exhaustive RateLimiter tasks={nt} count={count} window={window} horizon={maxtime} urgent={urgent}")
        ctx.require_covered(res, ACTIONS, "RateLimiter")
        for v in res.violations:
            ctx.violation(f"spec:{v.name}", {"config": consts, "trace": [(h, s) for h, s in v.trace]})
        if res.violations:
            continue
        if n == 0:
            # vacuity: the antecedent of C24_Asap (clock about to advance while somebody waits) is reachable,
            # the window can be filled, and the spec can actually admit everybody
            for name, expr in [("AsapAntecedent", "~(Urgent /\\ ~Runnable /\\ Waiting # {})"),
                               ("WindowFull", f"\\A a \\in 0..MaxTime : Cardinality(AdmittedIn(a, a + Window - 1)) < Count"),
                               ("AllAdmitted", "\\E t \\in Tasks : pc[t] # \"in\"")]:
                (wd / "Reach.tla").write_text(f"---- MODULE Reach ----\nEXTENDS RateLimiter\nNever == {expr}\n====\n")
                (wd / "Reach.cfg").write_text(tlc.mk_cfg(constants=consts, invariants=["Never"]))
                rres = tlc.run(wd, "Reach", "Reach.cfg", workers=2)
                ctx.add_tlc(rres, f"vacuity guard: {name} must be reachable")
                if not rres.violations:
                    raise RuntimeError(f"vacuity: {name} is unreachable in the spec")
            (wd / "Live.cfg").write_text(tlc.mk_cfg(spec="FairSpec", constants=consts, properties=["RL_Live"]))
            lres = tlc.run(wd, "RateLimiter", "Live.cfg", workers=workers)
            ctx.add_tlc(lres, "liveness RL_Live under WF(Step), WF(Tick), WF(Fire)")
            for v in lres.violations:
                ctx.violation(f"spec-liveness:{v.name}", {"config": consts, "trace": [(h, s) for h, s in v.trace]})

        # ---- (2) B1: every edge of the graph on the real class --------------------------------------------------
        g = tlc.parse_dot(wd / f"g{n}.dot")
        nwalk = [0]

        def fresh(count=count, window=window, tasks=tasks, nwalk=nwalk):
            # every other walk, the bodies of the even-numbered entries raise after admission (an admission counts whatever the body does)
            nwalk[0] += 1
            return Impl(count, window, mod, controlled=True, failing=tasks[1::2] if nwalk[0] % 2 == 0 else ())

        stats, mism = walk.replay_graph(g, fresh,
                                        lambda impl, name, args, src, dst: impl.apply(name, *args),
                                        lambda impl: impl.project(tasks), view=view, rng=random.Random(ctx.seed + n),
                                        max_mismatches=10)
        total_edges += stats["edges_covered"]
        ctx.cov.setdefault("graph_replay", []).append({"config": consts, **stats})
        if stats["edges_covered"] != stats["edges"] and not mism:
            raise RuntimeError(f"graph not covered: {stats}")
        for m in mism:
            name = tlc.parse_action_label(m.label)[0] if m.label != "<init>" else "init"
            ctx.violation(f"replay:{name}:{','.join(sorted(m.diff))}", {"config": consts, "path": m.path, "diff": m.diff})
        if n == 0 and g.edges:
            e = g.edges[len(g.edges) // 2]
            ctx.sample({"kind": "graph-edge", "edge": e[1], "target": view(tlaval.to_py(g.nodes[e[2]]))})

    # ---- (3) B2: random executions of the real class under asyncio's own timer order, validated by TLC ------------
    if ctx.quick:
        groups = [(7, 2, 3, 14, True, 120), (6, 1, 2, 12, False, 80)]
    else:
        groups = [(10, 2, 3, 24, True, 1200), (10, 3, 4, 24, True, 800), (8, 1, 2, 20, True, 600), (10, 2, 3, 24, False, 800),
                  (8, 3, 2, 16, False, 600), (12, 4, 5, 30, True, 600)]
    rng = random.Random(ctx.seed * 7919 + 24)
    ntr_total = nev_total = 0
    nact = {a: 0 for a in ACTIONS}
    first_lines = None
    for gi, (nt, count, window, maxtime, urgent, ntr) in enumerate(groups):
        tasks = _names(nt)
        lines = []
        for _k in range(ntr):
            impl = Impl(count, window, mod, controlled=False, failing=[t for t in tasks if rng.random() < 0.3])
            ev = []
            p_enter = rng.choice([0.3, 1.0, 3.0])
            for _ in range(12 * nt + 3 * maxtime):
                ops = []
                idle = [t for t in tasks if t not in impl.tasks]
                nat = impl.next_natural()
                if idle:
                    ops.append(("Enter", idle[0], p_enter))
                if nat:
                    ops.append((nat[0], nat[1], 3.0))
                if impl.now() < maxtime and (not urgent or not nat):
                    ops.append(("Tick", "", 1.0 if nat is None else 0.5))
                if not ops:
                    break
                a, t, _w = rng.choices(ops, weights=[o[2] for o in ops])[0]
                impl.apply(a, *((t,) if a in ("Enter", "Fire") else ()))
                nact[a] += 1
                p = impl.project(tasks)
                ev.append({"a": a, "t": t, "post": {"now": p["now"], "items": list(p["items"]), "pc": p["pc"], "until": p["until"],
                                                    "rq": list(p["rq"]), "admAt": p["admAt"]}})
            impl.close()
            lines.append(json.dumps({"ev": ev}))
        if first_lines is None:
            first_lines = lines
        tf = wd / f"traces{gi}.ndjson"
        tf.write_text("\n".join(lines) + "\n")
        consts = _consts(tasks, count, window, maxtime, urgent)
        (wd / f"Trace{gi}.cfg").write_text(tlc.mk_cfg(spec="TraceSpec", constants=consts, invariants=INVS, deadlock=True))
        tres = tlc.run(wd, "RateLimiterTrace", f"Trace{gi}.cfg", workers=workers, env={"TRACE_FILE": tf})
        ctx.add_tlc(tres, f"trace validation of {ntr} executions of the real class (tasks={nt} count={count} window={window} horizon={maxtime} urgent={urgent})")
        nev = sum(len(json.loads(l)["ev"]) for l in lines)
        ntr_total += ntr
        nev_total += nev
        if not tres.violations and tres.distinct < nev:
            raise RuntimeError(f"trace validation explored {tres.distinct} states for {nev} events")
        for v in tres.violations:
            last = v.trace[-1][1] if v.trace else {}
            tid, l = last.get("tid"), last.get("l")
            evs = json.loads(lines[tid - 1])["ev"] if tid else []
            nxt = evs[l - 1] if tid and l and l <= len(evs) else None
            ctx.violation(f"trace:{v.kind}:{v.name}:{nxt['a'] if nxt else 'end'}",
                          {"config": consts, "trace_id": tid, "position": l, "next_event": nxt, "spec_state": view(tlaval.to_py(last)),
                           "events": [(x["a"], x["t"]) for x in evs[:l]]})
    if min(nact.values()) == 0:
        raise RuntimeError(f"random driver never produced some action: {nact}")
    ctx.cov["traces_validated_against_impl"] = ntr_total + sum(s["walks"] for s in ctx.cov.get("graph_replay", []))
    ctx.cov["trace_events"] = nev_total
    ctx.cov["trace_actions"] = nact
    ctx.cov["evaluations"] = nev_total + total_edges
    ctx.cov["distinct_nontrivial"] = total_edges
    ctx.cov["exhaustive"] = True
    ctx.cov["rule"] = ("exhaustive TLC exploration of RateLimiter for the listed constants; every edge of each state graph replayed on the real class; "
                       "random executions validated by TLC; distinct_nontrivial = distinct graph edges replayed")
    ctx.sample({"kind": "impl-trace", "events": json.loads(first_lines[0])["ev"][:6]})
    ctx.assume("asyncio runs ready callbacks in FIFO order and code between two awaits is atomic (modelled as rq and Step)",
               "time is read through time.time() of the module, replaced by the virtual clock; integer seconds (float rounding at the window edge not examined)",
               "timers due at the same instant may fire in any order (B1 explores every order, B2 uses asyncio's heap order)",
               "'as soon as possible' is judged under maximal progress: the clock advances only when no step and no due timer is pending; the window bound is also checked with arbitrarily late steps and wake-ups")
