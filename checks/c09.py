"""C09 - submission is idempotent under client retries.

Spec specs/submit/BatchSubmit.tla: retrying clients (aioclient.Batch._submit) and the front end's handlers, each handler a
sequence of database transactions, every issued request re-deliverable any number of times and interleaved with another
client's update.  (1) TLC checks the C09 invariants exhaustively.  (2) B1: behaviours of the specification (exhaustive graph
walks for the small configuration, `tlc -simulate` behaviours for the larger ones) are replayed on the REAL aiohttp handlers
(create, create-fast, updates/create, update-fast, job-groups/create, jobs/create, commit) running as tasks that the harness
advances one database transaction at a time on the real SQL (MiniMySQL), with the server tables compared after every step
and every response's ids compared with the specification's.
"""
from __future__ import annotations

import json
import random
import time

from vlib import tlaval, tlc, walk

LEVEL = "model_checking"
MANIFEST = {
    "technique": "TLA+ spec BatchSubmit (clients, re-deliverable requests, handlers as transaction sequences) checked exhaustively by TLC; graph-walk / simulated-behaviour replay on the real aiohttp handlers stepped transaction by transaction over the real SQL (MiniMySQL)",
    "text": "All interleavings of duplicated / re-ordered create, create-fast, update, update-fast, job-group bunch, job bunch and commit requests of two clients (fast and multi-bunch paths) with up to 2 deliveries per request are explored by TLC: at most one batch and one update per token, contiguous disjoint ordered id ranges, every job row and staged count exactly once, client-computed ids equal server ids. The real handlers are driven along those behaviours with exact comparison of the server tables and of the ids each response reports.",
    "note": "Trusts TLC, MiniMySQL, the transaction-granularity scheduler of the harness (interleavings only at python-level commit boundaries; a handler's read-only look-up and its insert are stepped together); in stage 3 the real aioclient.Batch submits through a faulty in-process transport and TLC evaluates the C09 clauses (SubmitObs.tla) on every recorded end state.",
    "design_ref": "DESIGN.md section 5, C09",
}

INVS = ["C09_OneBatch", "C09_OneUpdatePerToken", "C09_Ranges", "C09_JobsOnce", "C09_CountOnce", "C09_ClientIds"]

CONFIGS = {
    # name: (clients, NJ, NG, bunches, max deliveries)
    "multi1": (("c1",), {"c1": 2}, {"c1": 1}, {"c1": [[1], [2]]}, 2),
    "fast2": (("c1", "c2"), {"c1": 1, "c2": 1}, {"c1": 1, "c2": 0}, {"c1": [[1]], "c2": [[1]]}, 2),
    "mixed2": (("c1", "c2"), {"c1": 2, "c2": 1}, {"c1": 1, "c2": 0}, {"c1": [[1], [2]], "c2": [[1]]}, 2),
    "big2": (("c1", "c2"), {"c1": 3, "c2": 2}, {"c1": 1, "c2": 1}, {"c1": [[1, 2], [3]], "c2": [[1], [2]]}, 2),
}


def mc_files(name):
    clients, nj, ng, bunches, maxd = CONFIGS[name]
    f = lambda d, r: "(" + " @@ ".join(f'"{k}" :> {r(v)}' for k, v in d.items()) + ")"  # noqa: E731
    mod = "\n".join([f"---- MODULE MC_{name} ----", "EXTENDS BatchSubmit",
                     "mcNJ == " + f(nj, str), "mcNG == " + f(ng, str),
                     "mcBunches == " + f(bunches, lambda b: "<<" + ", ".join("{" + ", ".join(map(str, x)) + "}" for x in b) + ">>"),
                     "===="]) + "\n"
    consts = {"Clients": "{" + ", ".join(f'"{c}"' for c in clients) + "}", "Creator": '"c1"', "NJ": "<- mcNJ", "NG": "<- mcNG",
              "Bunches": "<- mcBunches", "MaxDeliveries": maxd}
    return mod, tlc.mk_cfg(constants=consts, invariants=INVS)


class Server:
    """The real front end: one BatchWorld; requests become tasks advanced transaction by transaction."""

    def __init__(self, name, seed):
        from vlib.batchenv import BatchWorld
        import aiomysql

        self.cfg = CONFIGS[name]
        self.aiomysql = aiomysql
        aiomysql.YIELD = True
        self.w = BatchWorld(seed=seed)
        self.w.webapp()
        self.tasks = {}      # (req tuple, n) -> task
        self.pcs = {}
        self.responses = []

    def close(self):
        self.aiomysql.YIELD = False
        self.w.close()

    def job_spec(self, i):
        return {"job_id": i, "in_update_job_group_id": 0, "always_run": False,
                "process": {"type": "docker", "image": "img", "command": ["true"]},
                "resources": {"cpu": "0.25", "memory": "standard", "storage": "1Gi"}} | {"absolute_job_group_id": 0}

    def jobs(self, c, k):
        out = []
        for i in sorted(self.cfg[3][c][k - 1]):
            s = self.job_spec(i)
            del s["in_update_job_group_id"]
            out.append(s)
        return out

    def groups(self, c):
        return [{"job_group_id": g, "absolute_parent_id": 0} for g in range(1, self.cfg[2][c] + 1)]

    def uid(self, c):
        rows = [r for r in self.w.rows("batch_updates") if r["token"] == f"tok-{c}"]
        return rows[0]["update_id"] if rows else 999

    def request(self, r):
        t, c = r["t"], r["c"]
        nj, ng = self.cfg[1][c], self.cfg[2][c]
        bspec = {"billing_project": "proj", "n_jobs": nj, "n_job_groups": ng, "token": f"tok-{c}"}
        uspec = {"token": f"tok-{c}", "n_jobs": nj, "n_job_groups": ng}
        b = 1
        if t == "create":
            return "POST", "/api/v1alpha/batches/create", bspec
        if t == "create_fast":
            return "POST", "/api/v1alpha/batches/create-fast", {"batch": bspec, "bunch": self.jobs(c, 1) if nj else [], "job_groups": self.groups(c)}
        if t == "create_update":
            return "POST", f"/api/v1alpha/batches/{b}/updates/create", uspec
        if t == "update_fast":
            return "POST", f"/api/v1alpha/batches/{b}/update-fast", {"update": uspec, "bunch": self.jobs(c, 1) if nj else [], "job_groups": self.groups(c)}
        if t == "groups":
            return "POST", f"/api/v1alpha/batches/{b}/updates/{self.uid(c)}/job-groups/create", self.groups(c)
        if t == "jobs":
            return "POST", f"/api/v1alpha/batches/{b}/updates/{self.uid(c)}/jobs/create", self.jobs(c, r["k"])
        if t == "commit":
            return "PATCH", f"/api/v1alpha/batches/{b}/updates/{self.uid(c)}/commit", None
        raise RuntimeError(t)

    N_TX = {"CB": 1, "CU": 1, "G": 1, "J": 2, "CM": 1}

    def script(self, r):
        t, c = r["t"], r["c"]
        nj, ng = self.cfg[1][c], self.cfg[2][c]
        if t == "create":
            return ["CB", "CU"] if nj + ng > 0 else ["CB"]
        if t == "create_update":
            return ["CU"]
        if t == "groups":
            return ["G"]
        if t == "jobs":
            return ["J"]
        if t == "commit":
            return ["CM2"]
        pre = ["CB", "CU"] if t == "create_fast" else ["CU"]
        return pre + (["G"] if ng else []) + (["J"] if nj else []) + ["CM"]

    def deliver(self, r, n):
        key = (r["t"], r["c"], r["k"], n)
        m, path, body = self.request(r)
        user = "u1"
        self.tasks[key] = self.w.start_task(self.w.http_coro(m, path, body, user), name=f"h-{key}")
        self.pcs[key] = 0

    def step(self, r, n):
        key = (r["t"], r["c"], r["k"], n)
        task = self.tasks[key]
        op = self.script(r)[self.pcs[key]]
        self.pcs[key] += 1
        ntx = 2 if op == "CM2" else self.N_TX[op]
        done = self.w.step_tx(task, set(self.tasks.values()), ntx)
        if self.pcs[key] >= len(self.script(r)) and not done:
            self.w.finish_task(task, set(self.tasks.values()))
        if task.done() and key not in [x[0] for x in self.responses]:
            res = self.w.task_result(task)
            self.responses.append((key, res))
            return res
        return None

    def project(self):
        w = self.w
        clients = self.cfg[0]
        st = {}
        st["nbatch"] = len([r for r in w.rows("batches") if r["token"] == "tok-c1"])
        ups = sorted(w.rows("batch_updates"), key=lambda r: r["update_id"])
        st["upds"] = [dict(tok=r["token"][4:], sj=r["start_job_id"], nj=r["n_jobs"], sg=r["start_job_group_id"], ng=r["n_job_groups"],
                           committed=bool(r["committed"])) for r in ups]
        st["update_ids"] = [r["update_id"] for r in ups]
        st["jobs"] = sorted((r["job_id"], r["update_id"]) for r in w.rows("jobs"))
        st["groups"] = sorted((r["job_group_id"], r["update_id"]) for r in w.rows("job_groups") if r["job_group_id"] != 0)
        stg = {u: 0 for u in range(1, len(clients) + 1)}
        for r in w.rows("job_groups_inst_coll_staging"):
            if r["job_group_id"] == 0:
                stg[r["update_id"]] = stg.get(r["update_id"], 0) + r["n_jobs"]
        st["stg"] = stg
        b = w.rows("batches")
        st["bnj"] = b[0]["n_jobs"] if b else 0
        return st


def spec_view(s, nclients):
    upds = [dict(tok=str(u["tok"]), sj=u["sj"], nj=u["nj"], sg=u["sg"], ng=u["ng"], committed=bool(u["committed"])) for u in s["upds"]]
    stg = s["stg"]
    stgd = {i + 1: v for i, v in enumerate(stg)} if isinstance(stg, tuple) else {int(k): v for k, v in stg.items()}
    return {"nbatch": s["nbatch"], "upds": upds, "update_ids": list(range(1, len(upds) + 1)),
            "jobs": sorted((r[0], r[1]) for r in s["jobs"]), "groups": sorted((r[0], r[1]) for r in s["groups"]),
            "stg": {u: stgd.get(u, 0) for u in range(1, nclients + 1)}, "bnj": s["bnj"]}


def apply_label(srv: Server, lab, src, dst):
    name, args = tlc.parse_action_label(lab)
    if name == "Deliver":
        r = {k: (str(v) if isinstance(v, (str, tlaval.Sym)) else v) for k, v in args[0].items()}
        srv.deliver(r, dst["ndeliv"][args[0]])
        return None
    if name == "Step":
        r = {k: (str(v) if isinstance(v, (str, tlaval.Sym)) else v) for k, v in args[0].items()}
        return srv.step(r, args[1])
    if name == "Client":
        return None
    raise RuntimeError(name)


def check_response(ctx, name, srv, res_key, res, dst):
    """ids reported to the client must be the specification's ids for that client's update"""
    (t, c, k, n) = res_key
    if res.kind != "ok" or getattr(res, "json", None) is None:
        return
    ups = [u for u in dst["upds"] if str(u["tok"]) == c]
    if not ups:
        return
    u = ups[0]
    j = res.json
    exp = {}
    if "start_job_id" in j and j["start_job_id"] is not None:
        exp["start_job_id"] = u["sj"]
    if "start_job_group_id" in j and j["start_job_group_id"] is not None:
        exp["start_job_group_id"] = u["sg"]
    if "update_id" in j and j["update_id"] is not None:
        exp["update_id"] = [str(x["tok"]) for x in dst["upds"]].index(c) + 1
    bad = {kk: (j[kk], v) for kk, v in exp.items() if int(j[kk]) != v}
    if bad:
        ctx.violation(f"response-ids:{t}:{','.join(sorted(bad))}", {"config": name, "request": res_key, "response": j, "expected": exp})


def replay_behaviour(ctx, name, steps, seed):
    """steps: list of (label, src_state, dst_state). Returns number of steps executed, mismatch or None."""
    srv = Server(name, seed)
    nclients = len(CONFIGS[name][0])
    path = []
    try:
        for lab, src, dst in steps:
            path.append(lab)
            res = apply_label(srv, lab, src, dst)
            got = srv.project()
            exp = spec_view(dst, nclients)
            d = {k: {"spec": exp[k], "impl": got[k]} for k in exp if exp[k] != got[k]}
            if d:
                return len(path), dict(path=path, diff=d)
            if res is not None:
                check_response(ctx, name, srv, srv.responses[-1][0], res, dst)
                # a response that the specification treats as an error must be an error, and vice versa
                r = srv.responses[-1][0]
                req = [x for x in dst["resp"] if (str(x["t"]), str(x["c"]), x["k"]) == r[:3]]
                if res.kind == "ok" and not req and r[0] != "create":
                    return len(path), dict(path=path, diff={"response": {"spec": "error", "impl": "200", "request": r}})
                if res.kind in ("sqlerror",):
                    return len(path), dict(path=path, diff={"response": {"impl": repr(res)}})
        return len(path), None
    finally:
        srv.close()


def run(ctx):
    wd = tlc.prepare_dir(ctx.build / "tlc", ["submit"])
    quick = ctx.quick
    exhaustive = ["multi1"] if quick else ["multi1", "fast2"]
    modelcheck = ["multi1", "fast2"] if quick else ["multi1", "fast2", "mixed2"]
    simulate = {"fast2": 60, "mixed2": 60} if quick else {"fast2": 400, "mixed2": 600, "big2": 600}
    total_steps = 0
    ntraces = 0
    for name in modelcheck:
        mod, cfg = mc_files(name)
        (wd / f"MC_{name}.tla").write_text(mod)
        (wd / f"MC_{name}.cfg").write_text(cfg)
        res = tlc.run(wd, f"MC_{name}", f"MC_{name}.cfg", workers=min(ctx.workers, 8), dump=f"g_{name}" if name in exhaustive else None,
                      timeout=3000)
        ctx.add_tlc(res, f"BatchSubmit {name}: exhaustive, invariants {INVS}")
        for v in res.violations:
            ctx.violation(f"spec:{v.name}:{name}", {"config": name, "trace": [h for h, _ in v.trace]})
        if res.violations or name not in exhaustive:
            continue
        g = tlc.parse_dot(wd / f"g_{name}.dot")
        acts = {tlc.parse_action_label(l)[0] for _s, l, _d in g.edges}
        if acts != {"Deliver", "Step", "Client"}:
            raise RuntimeError(f"vacuous: {acts}")
        walks = walk.cover_walks(g, rng=random.Random(ctx.seed))
        random.Random(ctx.seed).shuffle(walks)
        deadline = time.time() + (30 if quick else 400)
        covered = set()
        for wk in walks:
            if time.time() > deadline:
                break
            steps = [(l, g.nodes[s], g.nodes[d]) for s, l, d in wk]
            n, mism = replay_behaviour(ctx, name, steps, ctx.seed + ntraces)
            total_steps += n
            ntraces += 1
            covered.update(wk[:n])
            if mism:
                lab = tlc.parse_action_label(mism["path"][-1])[0]
                ctx.violation(f"replay:{lab}:{','.join(sorted(mism['diff']))}", {"config": name, **mism})
                break
        ctx.cov.setdefault("graph_replay", []).append({"config": name, "walks": ntraces, "edges_covered": len(covered), "edges": len(set(g.edges)),
                                                       "nodes": len(g.nodes)})
        if g.edges:
            ctx.sample({"config": name, "walk": [l for _s, l, _d in walks[0][:12]]})
    # simulated behaviours of the larger configurations
    for name, num in simulate.items():
        mod, cfg = mc_files(name)
        (wd / f"MC_{name}.tla").write_text(mod)
        (wd / f"MC_{name}.cfg").write_text(cfg)
        simdir = wd / f"sim_{name}"
        simdir.mkdir(exist_ok=True)
        res = tlc.run(wd, f"MC_{name}", f"MC_{name}.cfg", workers=1, simulate=f"file={simdir}/tr,num={num}", depth=60, seed=ctx.seed + 1,
                      timeout=1200)
        ctx.add_tlc(res, f"BatchSubmit {name}: {num} simulated behaviours (depth <= 60)")
        for v in res.violations:
            ctx.violation(f"spec:{v.name}:{name}", {"config": name, "trace": [h for h, _ in v.trace]})
        files = sorted(simdir.glob("tr*"))
        nsim = 0
        for f in files:
            tr = tlc.parse_sim_trace_file(f)
            steps = [(tr[i][0], tr[i - 1][1], tr[i][1]) for i in range(1, len(tr))]
            n, mism = replay_behaviour(ctx, name, steps, ctx.seed + ntraces)
            total_steps += n
            ntraces += 1
            nsim += 1
            if mism:
                lab = tlc.parse_action_label(mism["path"][-1])[0]
                ctx.violation(f"replay:{lab}:{','.join(sorted(mism['diff']))}", {"config": name, **mism})
                break
        ctx.cov.setdefault("simulated_replay", []).append({"config": name, "behaviours": nsim})
    nruns, nreq = run_client_stage(ctx, wd)
    ntraces += nruns
    total_steps += nreq
    # stage 4: two deliveries of one request that OVERLAP (a retry sent while the first delivery is still being processed): the second
    # runs inside the first at every statement boundary; the tables must be those of one delivery after the other (BatchDB)
    from checks import _batchdb as B

    st = B.interleave_stage(ctx, "C09", ["upd2", "grp2"], budget_s=15 if quick else 200, dup_only=("Commit", "InsertJob", "InsertGroup", "CreateUpdate"))
    total_steps += st["scenarios"]
    ctx.cov.update(traces_validated_against_impl=ntraces, evaluations=total_steps, distinct_nontrivial=total_steps,
                   exhaustive=False,
                   rule="behaviours of BatchSubmit (graph walks / tlc -simulate) executed on the real aiohttp handlers one database transaction "
                        "at a time; server tables and response ids compared at every step; distinct_nontrivial = steps executed on the code")
    ctx.assume("interleavings between handlers happen only at python-level transaction boundaries (serialisable transactions)",
               "the client is the specification's model of aioclient.Batch._submit: it re-sends byte-identical requests",
               "MiniMySQL renders the MySQL semantics of the statements faithfully")


# ---- stage 3: the real client end to end -------------------------------------------------------------------------------------
class _Resp:
    def __init__(self, result):
        self._r = result
        self.headers = {}

    async def json(self):
        return self._r.json


class Transport:
    """In-process transport between the real aioclient and the real handlers, with duplication / re-delivery / lost responses."""

    def __init__(self, w, rng, fault_rate):
        self.w, self.rng, self.p = w, rng, fault_rate
        self.log = []
        self.n_faults = 0
        self.retry_refused = []

    async def _handle(self, method, path, body):
        from aiohttp import web
        try:
            v = await self.w.http_coro(method, path, body, "u1")
            r = type("R", (), {})()
            r.json = json.loads(v.body) if getattr(v, "body", None) else None
            return r
        except web.HTTPException as e:
            raise RuntimeError(f"server answered {e.status} {e.reason} to {method} {path}") from e

    async def request(self, method, path, body):
        if self.log and self.rng.random() < self.p:
            m, p_, b = self.rng.choice(self.log)        # an old request arrives again (its response goes nowhere)
            self.n_faults += 1
            try:
                await self._handle(m, p_, b)
            except RuntimeError:
                pass
        self.log.append((method, path, body))
        r = await self._handle(method, path, body)
        if self.rng.random() < self.p:                   # response lost: the client's HTTP layer retries the same request
            self.n_faults += 1
            try:
                r = await self._handle(method, path, body)
            except RuntimeError as e:
                # e.g. a re-sent job-group bunch is answered 400 'not submitted in order': the real client would give up here;
                # C09 is about what the re-sent request does to the tables, so the run continues with the first response
                self.retry_refused.append(str(e))
        return _Resp(r)


def client_run(seed, fault_rate, n_updates_max=3):
    """One end-to-end run; returns the observation record for SubmitObs."""
    from vlib.batchenv import BatchWorld
    from hailtop.batch_client import aioclient

    rng = random.Random(seed)
    w = BatchWorld(seed=seed)
    w.webapp()
    tr = Transport(w, rng, fault_rate)
    bc = object.__new__(aioclient.BatchClient)
    bc.billing_project, bc.url, bc._session, bc._headers = "proj", "", None, {}

    async def _post(path, data=None, json=None):
        body = json
        if data is not None:
            raw = getattr(data, "_value", data)
            body = __import__("json").loads(bytes(raw).decode())
        return await tr.request("POST", path, body)

    async def _patch(path):
        return await tr.request("PATCH", path, None)

    bc._post, bc._patch = _post, _patch
    subs = []

    async def go():
        b = aioclient.Batch(bc, None, token=f"tok{seed}")
        for u in range(rng.randint(1, n_updates_max)):
            ng = rng.choice([0, 0, 1, 2])
            nj = rng.randint(1, 4) if ng == 0 else rng.randint(0, 3)
            groups = [b.create_job_group() for _ in range(ng)]
            jobs = []
            for k in range(nj):
                jg = rng.choice(groups) if groups and rng.random() < 0.5 else None
                parents = [rng.choice(jobs)] if jobs and rng.random() < 0.4 else None
                kw = dict(resources={"cpu": "0.25", "memory": "standard", "storage": "1Gi"}, parents=parents)
                jobs.append((jg or b).create_job("img", ["true"], **kw))
            bunch = rng.choice([1, 2, 1024])
            await b.submit(max_bunch_size=bunch, disable_progress_bar=True)
            tok = [r["token"] for r in w.rows("batch_updates")]
            subs.append({"nj": nj, "ng": ng, "ids": [j.job_id for j in jobs], "gids": [g.job_group_id for g in groups], "fast": bool(b._submission_info.used_fast_path)})
        return b

    try:
        res = w.run(go())
    except RuntimeError as e:
        if "server answered" not in str(e):
            raise
        w.close()
        # a request of a correct client, sent for the first time, was refused: the submission cannot complete
        return None, {"error": str(e), "faults": tr.n_faults, "requests": len(tr.log), "fast": [s["fast"] for s in subs], "retry_refused": 0}
    if res.kind != "ok":
        # the submission of a correct client ended in a database error / a crash of the code under test: it cannot complete
        w.close()
        return None, {"error": f"submission failed: {res}"[:300], "faults": tr.n_faults, "requests": len(tr.log), "fast": [s["fast"] for s in subs],
                      "retry_refused": 0}
    ups = sorted(w.rows("batch_updates"), key=lambda r: r["update_id"])
    # which update belongs to which submission: by the order of creation of distinct tokens
    toks = []
    for r in ups:
        if r["token"] not in toks:
            toks.append(r["token"])
    for s, t in zip(subs, toks):
        s["tok"] = t
    for s in subs:
        s.setdefault("tok", "missing")
    staged = []
    for r in ups:
        rows = [x for x in w.rows("job_groups_inst_coll_staging", update_id=r["update_id"]) if x["job_group_id"] == 0]
        staged.append(sum(x["n_jobs"] for x in rows) if rows or r["n_jobs"] == 0 else -1)
    obs = {"nbatch": len(w.rows("batches")), "bnj": w.rows("batches")[0]["n_jobs"],
           "upds": [dict(id=r["update_id"], tok=r["token"], sj=r["start_job_id"], nj=r["n_jobs"], sg=r["start_job_group_id"], ng=r["n_job_groups"],
                         committed=bool(r["committed"])) for r in ups],
           "jobs": sorted([r["job_id"], r["update_id"]] for r in w.rows("jobs")),
           "groups": sorted([r["job_group_id"], r["update_id"]] for r in w.rows("job_groups") if r["job_group_id"] != 0),
           "staged": staged, "subs": [{k: s[k] for k in ("tok", "nj", "ng", "ids", "gids")} for s in subs]}
    meta = {"faults": tr.n_faults, "requests": len(tr.log), "fast": [s["fast"] for s in subs], "retry_refused": len(tr.retry_refused)}
    w.close()
    return obs, meta


def run_client_stage(ctx, wd):
    n = 60 if ctx.quick else 1500
    obs, metas = [], []
    for k in range(n):
        o, m = client_run(ctx.seed * 100003 + k, fault_rate=0.0 if k % 4 == 0 else 0.35)
        if o is None:
            ctx.violation("client:first-request-refused", {"seed": ctx.seed * 100003 + k, **m})
            continue
        obs.append(o)
        metas.append(m)
    if not obs:
        return n, 0
    env = {"SO_OBS": wd / "obs.ndjson", "SO_VERDICT": wd / "obs_verdict.json"}
    (wd / "obs.ndjson").write_text("\n".join(json.dumps(o) for o in obs) + "\n")
    tlc.evaluate(wd, "SubmitObsVerdict", env=env)
    v = json.loads((wd / "obs_verdict.json").read_text())
    assert v["n"] == len(obs)
    if not any(m["faults"] for m in metas) or not any(any(m["fast"]) for m in metas) or all(all(m["fast"]) for m in metas):
        raise RuntimeError("vacuous client stage: no faults injected, or only one submission path exercised")
    for i, clause in v["bad"]:
        ctx.violation(f"client:{clause}", {"observation": obs[i - 1], "meta": metas[i - 1], "seed": ctx.seed * 100003 + i - 1})
    ctx.cov["client_runs"] = {"runs": n, "requests": sum(m["requests"] for m in metas), "faults_injected": sum(m["faults"] for m in metas),
                              "fast_path_submissions": sum(sum(m["fast"]) for m in metas), "multi_bunch_submissions": sum(len(m["fast"]) - sum(m["fast"]) for m in metas)}
    nref = sum(m["retry_refused"] for m in metas)
    if nref:
        ctx.note(f"{nref} re-sent requests (lost response, then retry) were answered with an error by the server (e.g. a repeated job-group bunch: "
                 "400 'job group specs were not submitted in order'); the tables were unaffected, which is all C09 states, but a real client would fail there")
    ctx.sample({"client_observation": obs[1]})
    return n, sum(m["requests"] for m in metas)
