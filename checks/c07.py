"""C07 - cancellation stops work in the cancelled subtree only.

Spec specs/batchdb/BatchDB.tla + BatchDBProps.tla (the batch database as a transition system; one action per stored-procedure
call / @transaction block).  Verdict: (1) TLC checks the property's formulas exhaustively on the specification for a basket of
programs, with the scenarios of recorded findings avoided; (2) B1: walks covering the labelled state graph are executed on the
real SQL (batch/sql, interpreted by vlib/minimysql) and the real Python front end, full projected state compared after every
step; (3) each recorded finding is reproduced through TLC's counter-example replayed on the code.
"""
from checks import _batchdb as B

LEVEL = "model_checking"
MANIFEST = {
    "technique": "TLA+ spec BatchDB checked exhaustively by TLC per program; labelled state-graph replay (B1) on the real stored procedures/triggers (MiniMySQL interpreter) and real front-end Python with exact state comparison; graph replay by a rewinding traversal (every edge class, then every edge); overlapping-transactions stage: a second request runs inside the first at every statement boundary under a two-transaction isolation model of MiniMySQL and the result must be that of a serial order in the TLC graph",
    "text": "Cancellation of arbitrary groups in any order (sub-group before ancestor included) mixed with submission, scheduling and completion is explored; no non-always-run job of a cancelled subtree enters Creating/Running, nothing can be inserted beneath a cancelled group, repeated cancellation is a no-op, marks change only inside the subtree, and the real schedule/creating/started procedures answer every request (any SQL error is a violation).",
    "note": "Trusts TLC; MiniMySQL's rendering of MySQL semantics for the subset used (unit-tested, unknown constructs abort with exit 2); atomic serialisable transactions; one batch/user/instance collection with shard tokens summed out; bounded programs (<=4 jobs, <=3 groups, <=2 updates, <=2 attempts, <=2 instances). Recorded findings are excluded from the main run by scenario guards and reproduced separately. The overlapping-transactions stage trusts the isolation model of vlib/minimysql/isolation.py (consistent reads, predicate locks approximating InnoDB next-key locks, lock waits; approximations err towards waiting).",
    "design_ref": "DESIGN.md section 5, c07",
}

INVARIANTS = ["C01_Group"]
PROPERTIES = ["C07_NoNewWork", "C07_NoInsertBelow", "C07_SubtreeOnly"]
QUICK = ['nest_s', 'alw', 'nestc', 'ffroot']
THOROUGH = ['nest_s', 'alw', 'nestc', 'sib', 'chain2', 'grp2', 'jpim_s', 'clean', 'upd2', 'nest', 'jpim', 'ffroot', 'ff_s', 'ff']
FINDINGS = []


def run(ctx):
    B.run_property(ctx, "C07", INVARIANTS, PROPERTIES, QUICK, THOROUGH, FINDINGS, check_selection={"ffroot", "ff_s"}, overlap=['nest_s', 'alw', 'grp2'])
