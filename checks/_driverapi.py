"""C39 / C10 additional stage: the worker <-> driver HTTP protocol (specs/batchdb/DriverApi.tla + DriverApiRef.tla) bound to the
REAL aiohttp route table of batch/batch/driver/main.py (`routes`: decorators activating_instances_only / active_instances_only and
the handlers activate_instance / deactivate_instance / job_started / job_complete / billing_update), the real
batch/batch/driver/job.py wrappers, real Instance objects, the real InstanceCollectionManager (get_instance, name_token_cache) and
the real InstanceCollection base class (add / remove bookkeeping), over the real SQL on MiniMySQL (BatchWorld).

BatchDB ASSUMES that reports come only from activated instances about attempts dispatched to them.  Here that assumption is a
checked property: TLC shows DriverApi => BatchDB (refinement, D_Refines) and the graph of DriverApi is replayed on the code:
response status + projected tables + in-memory instance state are compared after every request / driver step, for every
instance name (incl. one nobody has), every token kind (right, the other token, wrong, missing) and every state.
"""
from __future__ import annotations

import asyncio
import collections
import json
import os
import random
import shutil
import time
from types import SimpleNamespace

from checks import _batchdb as B
from checks import _drivermem as M
from vlib import tlaval, tlc
from vlib.runner import BUILD

PREFIX = "w-"                    # MACHINE_NAME_PREFIX of this world: instance names are w-standard-<x>
INV = ["D_MemState", "D_ActiveWasActivated", "D_AttemptsOnActivated", "D_Mem", "C10_Free", "C39_CurrentAttempt"]
PROPS = ["D_Refines", "D_ActivateOnce", "D_NeverPendingAgain", "D_TokenSpent", "C39_OnlyCurrentCompletes", "C39_NoDoubleRun"]
# what a rogue (authenticated, but reporting about attempts never dispatched to it) worker could break: evaluated, not demanded
ROGUE_INV = INV + ["C01_User", "C04_Tally", "C41_Uncommitted"]
ROGUE_PROPS = [x for x in PROPS if x != "D_Refines"] + ["C04_Lifecycle"]

ROUTE = {"activate": "/api/v1alpha/instances/activate", "deactivate": "/api/v1alpha/instances/deactivate",
         "started": "/api/v1alpha/instances/job_started", "complete": "/api/v1alpha/instances/job_complete",
         "billing": "/api/v1alpha/billing_update"}
KIND_OF = {"Activate": "activate", "Deactivate": "deactivate", "JobStarted": "started", "JobComplete": "complete", "Billing": "billing"}
WORKER_STATE = {"Success": "succeeded", "Failed": "failed", "Error": "error"}


class FakeTaskManager:
    def ensure_future(self, coro):
        coro.close()             # the periodic monitor loop is not started: its body is driven step by step by the harness


class FakeResourceManager:
    async def delete_vm(self, instance):
        return None


class FakeInstanceConfig:
    def region_for(self, location):
        return "us-central1"


def api_programs():
    x, y = f"{PREFIX}standard-x", f"{PREFIX}standard-y"
    full = ("deactivate", "inflight", "restart", "remove", "delete_inst", "lost", "health")
    P = {}
    # quick: one job, one attempt id, one instance; requests in two pieces, deactivation, deletion, removal, restart
    P["api1q"] = B.Program("api1q", {1: B.job()}, {}, 1, att_ids=("a1",), insts=(x,), times=(1,),
                           features=("deactivate", "inflight", "restart", "remove", "delete_inst"))
    # ... plus lost deactivation replies and the health counter
    P["api1"] = B.Program("api1", {1: B.job()}, {}, 1, att_ids=("a1",), insts=(x,), times=(1,), features=full)
    # billing heartbeats
    P["api1b"] = B.Program("api1b", {1: B.job()}, {}, 1, att_ids=("a1",), insts=(x,), times=(1,), features=full + ("billing",))
    # cancellation: unschedule_job against the API's requests
    P["api1c"] = B.Program("api1c", {1: B.job(grp=1)}, {1: dict(parent=0, upd=1)}, 1, att_ids=("a1",), insts=(x,), times=(1,),
                           features=("deactivate", "inflight", "cancel", "restart", "health"))
    # two instances, no job: every request under the other instance's name / with the other instance's tokens
    P["api2q"] = B.Program("api2q", {}, {1: dict(parent=0, upd=1)}, 1, att_ids=("a1",), insts=(x, y), times=(1,), features=("deactivate", "restart"))
    # two instances and a job: reports that race with a retry on the other instance
    P["api2i"] = B.Program("api2i", {1: B.job()}, {}, 1, att_ids=("a1",), insts=(x, y), times=(1,), features=("deactivate", "inflight", "restart"))
    # two attempt ids: stale attempts, retries after deactivation
    P["api2a"] = B.Program("api2a", {1: B.job()}, {}, 1, att_ids=("a1", "a2"), insts=(x,), times=(1,),
                           features=("deactivate", "inflight", "restart", "lost"))
    # the workers' own discipline dropped (model + replay; properties evaluated, not demanded)
    P["rogue"] = B.Program("rogue", {1: B.job()}, {}, 1, att_ids=("a1",), insts=(x, y), times=(1,), features=("deactivate", "rogue"))
    # simulation only (too large to enumerate): two jobs with a dependency in a group, two attempt ids, two instances, two times
    P["apibig"] = B.Program("apibig", {1: B.job(grp=1), 2: B.job(par=[1], cores=250)}, {1: dict(parent=0, upd=1)}, 1, att_ids=("a1", "a2"),
                            insts=(x, y), times=(1, 2), features=full + ("billing", "cancel"))
    for p in P.values():
        p.check()
    return P


# ---- TLC -----------------------------------------------------------------------------------------------------------------------------
def run_tlc_api(ctx, p, invariants=INV, properties=PROPS, *, dump=True, cont=False, simulate=None, depth=None, tag="api", sim=False):
    """Exhaustive runs are cached by content hash (they depend on the specification and the configuration only, not on /repo).
    sim=True: module DriverApiSim (the action taken is recorded in the state)."""
    name = f"DA_{p.name}"
    mod = B.mc_module(p, name).replace("EXTENDS BatchDBLive", "EXTENDS DriverApiSim" if sim else "EXTENDS DriverApiRef")
    cfg = B.mc_cfg(p, B.ALL_AVOID, invariants, properties).replace("INIT Init", "INIT SInit" if sim else "INIT DInit") \
        .replace("NEXT Next", "NEXT SNext" if sim else "NEXT DNext")
    h = B.spec_hash()
    for s in (mod, cfg, repr((dump, cont, simulate, depth))):
        h.update(s.encode())
    cache = BUILD / "tlc_cache" / f"{p.name}-{tag}-{h.hexdigest()[:20]}"
    if simulate is None and (cache / "done.json").exists():
        res = tlc.parse_output((cache / f"{name}.out").read_text())
        res.wall_s = json.loads((cache / "done.json").read_text())["wall_s"]
        res.cached = True
        return res, cache
    # TLC runs in a directory of this process; a finished exhaustive run is moved into the cache in one step (other checks may
    # run the same stage at the same time)
    wd = tlc.prepare_dir(ctx.build / f"driverapi_{p.name}_{tag}_{os.getpid()}", ["batchdb"], {f"{name}.tla": mod, f"{name}.cfg": cfg})
    res = tlc.run(wd, name, f"{name}.cfg", workers=min(ctx.workers, 8), dump="graph" if dump and simulate is None else None, cont=cont,
                  simulate=simulate, depth=depth, seed=(ctx.seed + 11) if simulate else None, timeout=3000)
    res.cached = False
    if simulate is None:
        (wd / "done.json").write_text(json.dumps({"wall_s": res.wall_s}))
        cache.parent.mkdir(parents=True, exist_ok=True)
        try:
            os.rename(wd, cache)
            wd = cache
        except OSError:
            pass                  # somebody else filled the cache meanwhile: keep using our own copy
    return res, wd


# ---- the implementation side ------------------------------------------------------------------------------------------------------------
class Mismatch(Exception):
    def __init__(self, what, detail):
        super().__init__(what)
        self.what, self.detail = what, detail


class ApiImpl(M.MemImpl):
    def __init__(self, p, seed=0):
        super().__init__(p, seed=seed)
        import batch.driver.main as dm
        from aiohttp import web

        self.dm, self.web = dm, web
        self.rng = random.Random(seed * 7919 + 13)
        w = self.w
        s = w.eng.connect()
        for i in p.insts:               # every instance has its own pair of tokens
            s.execute("UPDATE instances SET activation_token = %s, token = %s WHERE name = %s", (f"act-{i}", f"tok-{i}", i))
        s.commit()
        self.webapp = None
        self.detached = {}              # objects that remove_instance dropped (a coroutine may still hold one)
        self.inflight = {}              # (kind, instance) -> (task, stream)
        self.last = None
        self.boot()

    # -- the driver process: objects built from the tables, as Pool.create does ----------------------------------------------------------
    def boot(self):
        from batch.driver.instance import Instance
        from batch.driver.instance_collection.base import InstanceCollection, InstanceCollectionManager

        w = self.w
        icm = InstanceCollectionManager(w.db, PREFIX, None, "us-central1", ["us-central1"])
        ic = InstanceCollection(w.db, icm, FakeResourceManager(), "gcp", "standard", PREFIX, True, 100, 100, FakeTaskManager())
        ic.scheduler_state_changed = w.loop.call_in_loop(asyncio.Event)       # Pool has it; Instance.activate / deactivate set it

        async def load():
            async for record in w.db.select_and_fetchall(
                """
SELECT instances.*, instances_free_cores_mcpu.free_cores_mcpu
FROM instances
INNER JOIN instances_free_cores_mcpu
ON instances.name = instances_free_cores_mcpu.name
WHERE removed = 0 AND inst_coll = %s;
""",
                (ic.name,),
            ):
                ic.add_instance(Instance(w.app, ic, record["name"], record["state"], record["cores_mcpu"], record["free_cores_mcpu"],
                                         record["time_created"], record["failed_request_count"], record["last_updated"], record["ip_address"],
                                         record["version"], record["location"], record["machine_type"], record["preemptible"],
                                         FakeInstanceConfig()))

        r = w.run(load())
        assert r.kind == "ok", r
        self.ic, self.real_icm = ic, icm
        self.icm = SimpleNamespace(instances=ic.name_instance)          # what MemImpl.apply indexes
        driver = SimpleNamespace(inst_coll_manager=icm)
        w.app["driver"] = driver
        if self.webapp is None:
            import warnings

            warnings.filterwarnings("ignore", message=".*AppKey.*")
            app = self.web.Application()
            for k, v in w.app.items():
                app[k] = v
            app.add_routes(self.dm.routes)
            self.webapp = app
        self.webapp["driver"] = driver
        self.detached = {}
        for task, _sr in self.inflight.values():      # requests in progress die with the old process
            task.cancel()
        w.loop.run_until_idle()
        self.inflight = {}

    def obj(self, i):
        return self.ic.name_instance.get(i) or self.detached.get(i)

    # -- requests ----------------------------------------------------------------------------------------------------------------------------
    def token_values(self, n, tk):
        """the header values that stand for token kind tk of a request under name n (several for 'wrong')"""
        real = n if n in self.p.insts else self.p.insts[0]       # a name nobody has, with somebody's tokens
        if tk == "act":
            return [f"act-{real}"]
        if tk == "bearer":
            return [f"tok-{real}"]
        if tk == "none":
            return [None]
        out = ["garbage", f"tok-{real}x", "NULL"]
        for o in self.p.insts:
            if o != real:
                out += [f"tok-{o}", f"act-{o}"]
        return out

    def headers(self, n, token, with_name=True):
        h = {}
        if with_name:
            h["X-Hail-Instance-Name"] = n
        if token is not None:
            if self.rng.random() < 0.5:
                h["X-Hail-Instance-Token"] = token
            else:
                h["Authorization"] = f"Bearer {token}"       # old workers
        return h

    def body(self, kind, j=None, a=None, t=1, st="Success", t0=1, t1=1):
        b = self.b
        if j is None:       # a request that will be refused still carries a plausible report
            j = sorted(self.p.jobs)[0] if self.p.jobs else 1
            a = self.p.att_ids[0]
        if kind == "activate":
            return {"ip_address": "10.0.0.9"}
        if kind == "deactivate":
            return None
        if kind == "started":
            return {"status": {"batch_id": b, "job_id": j, "attempt_id": a, "start_time": t, "resources": []}}
        if kind == "complete":
            return {"status": {"batch_id": b, "job_id": j, "attempt_id": a, "job_group_id": self.p.jobs[j]["grp"] if j in self.p.jobs else 0, "state": WORKER_STATE[st],
                               "start_time": t0, "end_time": t1, "status": {"state": WORKER_STATE[st]}, "resources": []}}
        if kind == "billing":
            return {"timestamp": t, "attempts": [{"batch_id": b, "job_id": j, "attempt_id": a}]}
        raise KeyError(kind)

    def _stream(self, data):
        from aiohttp import streams

        proto = type("P", (), {"_reading_paused": False, "transport": None, "connected": True, "resume_reading": lambda self, **k: None,
                               "pause_reading": lambda self: None})()
        sr = streams.StreamReader(proto, 2 ** 16, loop=self.w.loop)
        if data is not None:
            self.w.loop.call_in_loop(sr.feed_data, data)
            self.w.loop.call_in_loop(sr.feed_eof)
        return sr

    async def _handle(self, path, headers, sr):
        from aiohttp.test_utils import make_mocked_request

        app = self.webapp
        req = make_mocked_request("POST", path, headers=headers, app=app, payload=sr)
        mi = await app.router.resolve(req)
        mi.add_app(app)
        req._match_info = mi
        return await mi.handler(req)

    @staticmethod
    def _classify(exc, value):
        """what aiohttp answers: the response's status, the HTTPException's status, 500 for any other exception"""
        from aiohttp import web

        if exc is None:
            js = None
            if getattr(value, "body", None):
                try:
                    js = json.loads(value.body)
                except Exception:
                    js = None
            return value.status, js, None
        if isinstance(exc, web.HTTPException):
            return exc.status, None, None
        if isinstance(exc, asyncio.CancelledError):
            raise exc
        return 500, None, f"{type(exc).__name__}: {exc}"[:200]

    def send(self, kind, headers, body):
        """one request served in one piece; returns (status, json, error text)"""
        data = json.dumps(body).encode() if body is not None else b""
        task = self.w.loop.create_task(self._handle(ROUTE[kind], headers, self._stream(data)))
        self.w.loop.run_until_idle()
        if not task.done():
            raise RuntimeError(f"handler of {kind} does not finish")
        exc = task.exception()
        self.last = self._classify(exc, None if exc else task.result())
        return self.last

    def send_headers(self, kind, i, headers):
        sr = self._stream(None)
        task = self.w.loop.create_task(self._handle(ROUTE[kind], headers, sr))
        self.w.loop.run_until_idle()
        if task.done():
            exc = task.exception()
            st = self._classify(exc, None if exc else task.result())
            raise Mismatch("answered_before_body", {"kind": kind, "instance": i, "answer": st})
        self.inflight[(kind, i)] = (task, sr)

    def send_body(self, kind, i, data):
        task, sr = self.inflight.pop((kind, i))
        self.w.loop.call_in_loop(sr.feed_data, data)
        self.w.loop.call_in_loop(sr.feed_eof)
        self.w.loop.run_until_idle()
        if not task.done():
            raise RuntimeError(f"handler of {kind} does not finish after its body arrived")
        exc = task.exception()
        self.last = self._classify(exc, None if exc else task.result())
        return self.last

    def expect(self, got, status, what):
        if got[0] != status:
            raise Mismatch("status", {"request": what, "spec_status": status, "impl_status": got[0], "impl_error": got[2]})

    # -- one DriverApi action ------------------------------------------------------------------------------------------------------------------
    def apply(self, name, args):
        w, p = self.w, self.p
        I = self.ic.name_instance
        for route, kind in KIND_OF.items():
            if name == route + "Denied":
                n, tk = args
                for tv in self.token_values(n, tk):
                    got = self.send(kind, self.headers(n, tv), self.body(kind))
                    self.expect(got, 401, f"{route}({n}, {tk}={tv})")
                return
        if name == "NoNameHeader":
            (kind,) = args
            i = p.insts[0]
            got = self.send(kind, self.headers(i, f"tok-{i}" if kind != "activate" else f"act-{i}", with_name=False), self.body(kind))
            self.expect(got, 500, f"{kind} without X-Hail-Instance-Name")
            return
        if name in ("ActivateOK", "ActivateError"):
            i, tk = args
            got = self.send("activate", self.headers(i, self.token_values(i, tk)[0]), self.body("activate"))
            self.expect(got, 200 if name == "ActivateOK" else 500, f"{name}({i}, {tk})")
            if name == "ActivateOK" and (got[1] or {}).get("token") != f"tok-{i}":
                raise Mismatch("token", {"request": f"activate {i}", "returned": got[1], "expected_token": f"tok-{i}"})
            return
        if name == "DeactivateOK":
            i, tk, t = args
            w.now = t
            try:
                got = self.send("deactivate", self.headers(i, self.token_values(i, tk)[0]), None)
            finally:
                w.now = 1000
            self.expect(got, 200, f"deactivate({i}, {tk})")
            return
        if name in ("JobStartedOK", "BillingOK"):
            i, tk, j, a, t = args
            kind = "started" if name == "JobStartedOK" else "billing"
            got = self.send(kind, self.headers(i, self.token_values(i, tk)[0]), self.body(kind, j, a, t))
            self.expect(got, 200, f"{name}({i}, {tk}, {j}, {a})")
            return
        if name == "JobCompleteOK":
            i, tk, j, a, st, t0, t1 = args
            got = self.send("complete", self.headers(i, self.token_values(i, tk)[0]), self.body("complete", j, a, st=st, t0=t0, t1=t1))
            self.expect(got, 200, f"{name}({i}, {tk}, {j}, {a}, {st})")
            return
        if name in ("JobStartedError", "JobCompleteError"):
            i, tk, j = args
            kind = "started" if name == "JobStartedError" else "complete"
            got = self.send(kind, self.headers(i, self.token_values(i, tk)[0]), self.body(kind, j, p.att_ids[0]))
            self.expect(got, 500, f"{name}({i}, {tk}, job {j} has no row)")
            return
        # requests in two pieces
        if name == "ReqCheck":
            kind, i = args
            self.send_headers(kind, i, self.headers(i, f"act-{i}" if kind == "activate" else f"tok-{i}"))
            return
        if name in ("ActivateBodyOK", "ActivateBodyError"):
            (i,) = args
            got = self.send_body("activate", i, json.dumps(self.body("activate")).encode())
            self.expect(got, 200 if name == "ActivateBodyOK" else 500, f"{name}({i})")
            if name == "ActivateBodyOK" and (got[1] or {}).get("token") != f"tok-{i}":
                raise Mismatch("token", {"request": f"activate {i}", "returned": got[1], "expected_token": f"tok-{i}"})
            return
        if name in ("StartedBody", "BillingBody"):
            i, j, a, t = args
            kind = "started" if name == "StartedBody" else "billing"
            self.expect(self.send_body(kind, i, json.dumps(self.body(kind, j, a, t)).encode()), 200, f"{name}({i}, {j}, {a})")
            return
        if name == "CompleteBody":
            i, j, a, st, t0, t1 = args
            self.expect(self.send_body("complete", i, json.dumps(self.body("complete", j, a, st=st, t0=t0, t1=t1)).encode()), 200,
                        f"{name}({i}, {j}, {a}, {st})")
            return
        if name in ("StartedBodyError", "CompleteBodyError"):
            i, j = args
            kind = "started" if name == "StartedBodyError" else "complete"
            self.expect(self.send_body(kind, i, json.dumps(self.body(kind, j, p.att_ids[0])).encode()), 500, f"{name}({i}, job {j} has no row)")
            return
        if name == "BodyGarbage":
            kind, i = args
            self.expect(self.send_body(kind, i, b"{not json"), 500, f"{kind} with a body that is not JSON")
            return
        # the driver's own steps
        if name == "DSchedule":
            j, a, i = args
            inst = self.obj(i)
            if inst is None:
                raise RuntimeError(f"DSchedule on an instance that never existed in memory: {i}")

            async def go():
                try:
                    await self.dj.schedule_job(w.app, self.record(j, a), inst)
                except AssertionError:
                    pass                # schedule_with_error_handling logs it

            return w.run(go())
        if name == "DMarkDeleted":
            (i,) = args
            r = w.run(I[i].mark_deleted("deleted", w.now))
            assert r.kind == "ok", r
            return
        if name == "DRemove":
            (i,) = args
            inst = I[i]
            r = w.run(self.ic.remove_instance(inst, "deleted", w.now))
            assert r.kind == "ok", r
            self.detached[i] = inst
            return
        if name == "DIncrFailed":
            (i,) = args
            r = w.run(I[i].incr_failed_request_count())
            assert r.kind == "ok", r
            return
        if name == "DRestart":
            self.boot()
            return
        if name.startswith("D"):
            return super().apply("M" + name[1:], args)
        raise RuntimeError(f"unknown action {name}")

    # -- projection ---------------------------------------------------------------------------------------------------------------------------
    def project(self):
        st = B.Impl.project(self)
        I = self.ic.name_instance
        st["mst"] = {i: (I[i].state if i in I else "none") for i in self.p.insts}
        st["mfree"] = {i: (I[i].free_cores_mcpu if i in I else None) for i in self.p.insts}
        rows = {r["name"]: r for r in self.w.rows("instances")}
        st["rmv"] = {i: bool(rows[i]["removed"]) for i in self.p.insts}
        st["atk"] = {i: rows[i]["activation_token"] is not None for i in self.p.insts}
        st["frc"] = {i: rows[i]["failed_request_count"] for i in self.p.insts}
        st["frc_mem"] = {i: (I[i].failed_request_count if i in I else rows[i]["failed_request_count"]) for i in self.p.insts}
        st["infl"] = frozenset(k for k, (task, _sr) in self.inflight.items() if not task.done())
        st["tokens"] = {i: (rows[i]["token"], rows[i]["activation_token"]) for i in self.p.insts}
        # the real InstanceCollection's own bookkeeping
        cnt = collections.Counter(x.state for x in I.values())
        stats = self.ic.all_versions_instances_by_state
        st["ic_stats_ok"] = all(stats.get(s, 0) == cnt.get(s, 0) for s in ("pending", "active", "inactive", "deleted")) \
            and len(self.ic.instances_by_last_updated) == len(I)
        return st

    def close(self):
        for task, _sr in self.inflight.values():
            task.cancel()
        try:
            self.w.loop.run_until_idle()
        except Exception:
            pass
        self.inflight = {}
        super().close()


def expected_view(p, dst):
    exp = B.spec_view(dst)
    exp["mst"] = {str(k): str(v) for k, v in dst["mst"].items()}
    exp["mfree"] = {str(k): (v if exp["mst"][str(k)] != "none" else None) for k, v in dst["mfree"].items()}
    exp["rmv"] = {str(k): bool(v) for k, v in dst["rmv"].items()}
    exp["atk"] = {str(k): bool(v) for k, v in dst["atk"].items()}
    exp["frc"] = {str(k): v for k, v in dst["frc"].items()}
    exp["frc_mem"] = dict(exp["frc"])
    exp["infl"] = frozenset((str(x[0]), str(x[1])) for x in dst["infl"])
    exp["tokens"] = {i: (f"tok-{i}", f"act-{i}" if exp["atk"][i] else None) for i in p.insts}
    exp["ic_stats_ok"] = True
    return exp


COMPARE = B.COMPARE + ["mst", "mfree", "rmv", "atk", "frc", "frc_mem", "infl", "tokens", "ic_stats_ok"]


def compare(p, impl, dst):
    got = impl.project()
    d = B.diff(expected_view(p, dst), {x: got[x] for x in COMPARE})
    if "_extra" in got:
        d["_extra"] = got["_extra"]
    return d


def replay_walk(p, steps, seed):
    """steps: list of (label, dst_state). Returns (steps executed, mismatch or None)."""
    impl = ApiImpl(p, seed=seed)
    path = []
    try:
        for lab, dst in steps:
            name, args = tlc.parse_action_label(lab)
            args = [str(a) if isinstance(a, tlaval.Sym) else a for a in args]
            path.append(lab)
            try:
                impl.apply(name, args)
            except Mismatch as m:
                return len(path), dict(path=list(path), label=lab, what=m.what, diff={m.what: m.detail})
            d = compare(p, impl, dst)
            if d:
                return len(path), dict(path=list(path), label=lab, what="state", diff=d)
        return len(path), None
    finally:
        impl.close()


def signature(m):
    act = tlc.parse_action_label(m["label"])[0]
    if m["what"] != "state":
        return f"driverapi:{act}:{m['what']}"
    touched = sorted({k.split(".")[0] for k in m["diff"]})
    return f"driverapi:{act}:{','.join(touched)}"


def edge_class_fn(g):
    """An edge class = (action, its arguments without job / attempt / time, and what the decorators and handlers read in the source
    state: in-memory state, table state, activation token, requests in flight, job state).  Walks are ordered so that every class is
    exercised early; the remaining edges (the same request in states that differ elsewhere) follow while the budget lasts."""
    lab_cache, node_cache = {}, {}

    def cls(e):
        s, l, _d = e
        k = lab_cache.get(l)
        if k is None:
            name, args = tlc.parse_action_label(l)
            k = lab_cache[l] = (name,) + tuple(repr(a) for a in args if not isinstance(a, int))
        n = node_cache.get(s)
        if n is None:
            nd = g.nodes[s]
            n = node_cache[s] = (tuple(repr(nd.get(x)) for x in ("mst", "atk", "infl")), tuple(repr(nd.get(x)) for x in ("inst", "js", "jatt", "frc")))
        return k + n[0] + (() if k[0].endswith("Denied") or k[0] == "NoNameHeader" else n[1])

    return cls


class WalkStream:
    """Walks through the graph generated while they are executed: from the current node take an edge not yet exercised (first one of
    a class not yet exercised); if there is none, go to the nearest node that has one (breadth-first over the graph); a walk ends
    after max_len steps (a fresh implementation starts from the initial state).  Phase 1 serves unexercised classes, phase 2 the
    remaining edges.  `mark(edge)` is called by the replay for every edge it executed."""

    def __init__(self, g, cls, rng, max_len=250):
        self.g, self.cls, self.rng, self.max_len = g, cls, rng, max_len
        self.out = {}
        for e in sorted(set(g.edges)):
            self.out.setdefault(e[0], []).append(e)
        for es in self.out.values():
            rng.shuffle(es)
        self.succ = {u: {} for u in g.nodes}
        for u, es in self.out.items():
            for e in es:
                if e[2] != u and e[2] not in self.succ[u]:
                    self.succ[u][e[2]] = e
        self.todo = {u: list(es) for u, es in self.out.items()}
        self.seen_cls = set()
        self.done = set()
        self.phase = 1
        self.n_edges = sum(len(es) for es in self.out.values())

    def mark(self, e):
        self.done.add(e)
        self.seen_cls.add(self.cls(e))

    def _pick(self, u):
        """an unexercised edge out of u (phase 1: of an unexercised class), or None"""
        lst = self.todo.get(u)
        if not lst:
            return None
        lst[:] = [e for e in lst if e not in self.done]
        for e in lst:
            if self.cls(e) not in self.seen_cls:
                return e
        return lst[0] if (self.phase == 2 and lst) else None

    def _route(self, u):
        """shortest list of edges from u to a node where _pick succeeds (None if there is none)"""
        if self._pick(u) is not None:
            return []
        parent = {u: None}
        dq = collections.deque([u])
        while dq:
            x = dq.popleft()
            for v, e in self.succ[x].items():
                if v in parent:
                    continue
                parent[v] = (x, e)
                if self._pick(v) is not None:
                    path = []
                    while parent[v] is not None:
                        x2, e2 = parent[v]
                        path.append(e2)
                        v = x2
                    path.reverse()
                    return path
                dq.append(v)
        return None

    def walks(self):
        root = self.g.init[0]
        while True:
            r = self._route(root)
            if r is None:
                if self.phase == 1:
                    self.phase = 2
                    continue
                return
            wk = list(r)
            cur = wk[-1][2] if wk else root
            while len(wk) < self.max_len:
                e = self._pick(cur)
                if e is None:
                    r = self._route(cur)
                    if not r:
                        break
                    if len(wk) + len(r) >= self.max_len:
                        break
                    wk.extend(r)
                    cur = wk[-1][2]
                    continue
                wk.append(e)
                self.done.add(e)            # planned; the replay confirms with mark()
                self.seen_cls.add(self.cls(e))
                cur = e[2]
            yield wk

    def shortest(self, node):
        """edges of a shortest path from the initial state to node"""
        root = self.g.init[0]
        parent = {root: None}
        dq = collections.deque([root])
        while dq:
            x = dq.popleft()
            if x == node:
                break
            for v, e in self.succ[x].items():
                if v not in parent:
                    parent[v] = (x, e)
                    dq.append(v)
        path = []
        v = node
        while parent.get(v) is not None:
            x, e = parent[v]
            path.append(e)
            v = x
        path.reverse()
        return path


def graph_labels(g):
    return collections.Counter(tlc.parse_action_label(l)[0] for _s, l, _d in g.edges)


REQUIRED = ["ActivateOK", "ActivateDenied", "DeactivateOK", "DeactivateDenied", "JobStartedOK", "JobStartedDenied", "JobStartedError",
            "JobCompleteOK", "JobCompleteDenied", "JobCompleteError", "BillingDenied", "NoNameHeader", "ReqCheck", "ActivateBodyOK",
            "ActivateBodyError", "StartedBody", "CompleteBody", "BodyGarbage", "DSelect", "DSchedule", "DDeactivate", "DRestart"]


def run_api_stage(ctx, footprint=None, budget_quick=14, budget_thorough=240, quick_programs=("api1q", "api2q"),
                  thorough_programs=("api1q", "api2q", "api1", "api1b", "api1c", "api2i", "api2a")):
    """The stage that C39 (and C10) add.  Returns the summary dict stored under ctx.cov['driver_api'].
    footprint: the variables the calling property reads (None: everything, response status included); a departure of the code from
    the specification elsewhere is recorded as a note."""
    P = api_programs()
    names = list(quick_programs if ctx.quick else thorough_programs)
    budget = budget_quick if ctx.quick else budget_thorough
    weight = {"api2q": 0.25}
    total_w = sum(weight.get(n, 1) for n in names)
    # TLC first, all programs at once (results are cached; a cold start costs one JVM start-up, not one per program)
    from concurrent.futures import ThreadPoolExecutor

    with ThreadPoolExecutor(max_workers=4) as ex:
        tlc_results = dict(zip(names, ex.map(lambda n: run_tlc_api(ctx, P[n]), names)))
    seen_actions = collections.Counter()
    out = {"programs": [], "walks": 0, "steps": 0, "edges_covered": 0, "requests_denied": 0, "requests_accepted": 0}
    t_stage = time.time()
    for n in names:
        p = P[n]
        per = budget * weight.get(n, 1) / total_w
        res, wd = tlc_results[n]
        ctx.add_tlc(res, f"DriverApi program {n}: exhaustive; invariants {INV}; action properties {PROPS} (D_Refines: DriverApi implements BatchDB)"
                         + (" (TLC result cached from an earlier run of the same spec+config)" if getattr(res, "cached", False) else ""))
        for v in res.violations:
            ctx.violation(f"driverapi:spec:{v.name}", {"program": n, "trace": [h for h, _ in v.trace][-25:]})
        if res.violations:
            continue
        g = tlc.parse_dot(wd / "graph.dot")
        labs = graph_labels(g)
        seen_actions.update(labs)
        cls = edge_class_fn(g)
        all_classes = {cls(e) for e in g.edges}
        ws = WalkStream(g, cls, random.Random(ctx.seed))
        deadline = time.time() + per
        covered = set()
        nw = steps = 0
        failed = False
        for wk in ws.walks():
            if time.time() > deadline:
                break
            k, mism = replay_walk(p, [(l, g.nodes[d]) for _s, l, d in wk], ctx.seed + nw)
            nw += 1
            steps += k
            covered.update(wk[:k])
            if mism:
                # a short history that shows the same departure, if there is one
                bad = wk[k - 1]
                short = ws.shortest(bad[0]) + [bad]
                if len(short) < k:
                    _k2, m2 = replay_walk(p, [(l, g.nodes[d]) for _s, l, d in short], ctx.seed)
                    if m2 is not None and signature(m2) == signature(mism):
                        mism = m2
                touched = {k.split(".")[0] for k in mism["diff"]}
                if footprint is None or (mism["what"] == "state" and touched & set(footprint)):
                    ctx.violation(signature(mism), {"program": n, "path": mism["path"], "diff": mism["diff"]})
                else:
                    ctx.note(f"driver API program {n}: the code departs from DriverApi at {mism['label']} ({signature(mism)}) on {sorted(touched)}, "
                             f"which {ctx.pid} does not read (path {mism['path']})")
                failed = True
                break
        for (_s, l, _d) in covered:
            a = tlc.parse_action_label(l)[0]
            if a.endswith("Denied") or a == "NoNameHeader":
                out["requests_denied"] += 1
            elif a.endswith("OK") or a.endswith("Body"):
                out["requests_accepted"] += 1
        out["programs"].append({"program": n, "nodes": len(g.nodes), "edges": len(set(g.edges)), "walks": nw, "steps": steps,
                                "edges_covered": len(covered), "complete": len(covered) == len(set(g.edges)), "mismatch": failed,
                                "edge_classes": len(all_classes), "edge_classes_covered": len({cls(e) for e in covered}),
                                "actions": dict(labs)})
        out["walks"] += nw
        out["steps"] += steps
        out["edges_covered"] += len(covered)
        if g.edges:
            k = (ctx.seed * 5 + 3) % len(g.edges)
            ctx.sample({"driver_api_program": n, "edge": g.edges[k][1],
                        "target_state": {x: tlaval.to_py(g.nodes[g.edges[k][2]][x]) for x in ("mst", "mfree", "inst", "atk", "frc", "infl", "js", "jatt")}})
    missing = [a for a in REQUIRED if seen_actions.get(a, 0) == 0]
    if missing and not ctx.viol:
        raise RuntimeError(f"vacuous DriverApi graphs: actions never taken in any program: {missing}")
    if not ctx.quick and footprint is None:
        out["rogue"] = rogue_stage(ctx, P["rogue"])
        out["simulation"] = simulation_stage(ctx, P["apibig"], ntraces=50, depth=70)
    out["wall_s"] = round(time.time() - t_stage, 1)
    ctx.cov["driver_api"] = out
    ctx.cov["traces_validated_against_impl"] += out["walks"] + out.get("simulation", {}).get("traces", 0)
    ctx.cov["evaluations"] += out["steps"] + out.get("simulation", {}).get("steps", 0)
    ctx.cov["distinct_nontrivial"] += out["edges_covered"]
    ctx.assume("driver API stage: one pool ('standard'), instance names match MACHINE_NAME_PREFIX; cloud side (create_vm / delete_vm / VM state) faked; "
               "job_config and the HTTP client to the worker faked; instance_config of the Instance objects faked (region only)",
               "driver API stage: a worker that holds a valid token reports only about attempts dispatched to it (not enforceable by the API: "
               "a report may overtake CALL schedule_job); TLC run 'rogue' shows what an authenticated worker violating this could break")
    return out


def rogue_stage(ctx, p):
    """Model + code: what a worker with a valid token can do when it reports about attempts never dispatched to it."""
    res, wd = run_tlc_api(ctx, p, ROGUE_INV, ROGUE_PROPS, dump=False, cont=True, tag="rogue")
    ctx.add_tlc(res, "DriverApi program rogue (the workers' own discipline dropped): which properties an authenticated worker could break")
    broken = sorted({v.name for v in res.violations})
    shown = {}
    for v in res.violations:
        if v.name in shown:
            continue
        labels = [h for h, _s in v.trace[1:]]
        k, mism = replay_walk(p, [(h, s) for h, s in v.trace[1:]], ctx.seed)
        shown[v.name] = {"history": labels, "code_follows": mism is None}
        if mism is not None:
            ctx.violation(signature(mism), {"program": p.name, "path": mism["path"], "diff": mism["diff"]})
    if broken:
        ctx.note("driver API, rogue worker (NOT a violation of C10/C39 as stated: their histories contain duplicate and stale reports, not reports "
                 f"about attempts that were never dispatched to the reporter): with a valid token such reports would break {broken}; "
                 "the code follows the model on each of these histories")
    return {"broken_if_rogue": broken, "histories": shown}


def simulation_stage(ctx, p, ntraces, depth):
    """Random behaviours (TLC -simulate over DriverApiSim) of a program too large to enumerate, each replayed on the code."""
    prefix_dir = ctx.build / f"driverapi_simtraces_{os.getpid()}"
    if prefix_dir.exists():
        shutil.rmtree(prefix_dir)
    prefix_dir.mkdir(parents=True)
    res, wd = run_tlc_api(ctx, p, INV, PROPS + ["S_IsDNext"], simulate=f"file={prefix_dir}/trace,num={ntraces}", depth=depth, tag="sim", sim=True)
    ctx.add_tlc(res, f"DriverApiSim program {p.name}: {ntraces} random behaviours of depth {depth} (simulation), invariants and action properties checked")
    for v in res.violations:
        ctx.violation(f"driverapi:spec:{v.name}", {"program": p.name, "trace": [h for h, _ in v.trace][-25:]})
    files = sorted(prefix_dir.glob("trace*"))
    if not files:
        raise RuntimeError("simulation produced no trace files")
    traces = steps = 0
    seen = collections.Counter()
    for f in files:
        st = tlc.parse_sim_trace_file(f)
        seq = []
        for _h, s in st[1:]:
            la = tlaval.to_py(s["la"])
            name, args = la[0], list(la[1:])
            seen[name] += 1
            lab = f"{name}({','.join(tlaval.to_tla(a) for a in args)})" if args else name
            seq.append((lab, s))
        k, mism = replay_walk(p, seq, ctx.seed + traces)
        traces += 1
        steps += k
        if mism:
            ctx.violation(signature(mism), {"program": p.name, "path": mism["path"], "diff": mism["diff"]})
            break
    shutil.rmtree(prefix_dir, ignore_errors=True)
    shutil.rmtree(wd, ignore_errors=True)
    return {"program": p.name, "traces": traces, "steps": steps, "actions": dict(seen)}
