"""C19 - the batch client's bunches preserve order (groups before jobs) and respect the byte and count limits.

Spec: specs/fn/Bunching.tla (the relation Ok the property demands of any packing) and
specs/fn/BunchingAlg.tla (the client's greedy loop as a step machine, model-checked against the relation and
its loop invariants).  Binding B3: TLC enumerates (group sizes, job sizes, byte limit, count limit), the
harness builds real specs padded to the exact byte sizes and calls the real Batch._create_bunches, TLC
judges every recorded call.
"""
from __future__ import annotations

import json

from vlib import loader, tlc

from . import _fn

LEVEL = "model_checking"
MANIFEST = {
    "technique": "TLA+ relation for bunching (Bunching.tla) + step-machine model of the packing loop model-checked by TLC (BunchingAlg.tla); TLC enumerates the inputs and judges every recorded call of the real Batch._create_bunches (call/return conformance, B3)",
    "text": "Exhaustive over all (job-group sizes, job sizes, byte limit, count limit) up to stated bounds, including specs that alone exceed the byte limit; real specs are padded to exact byte sizes (several bytes-per-unit scales) and identified after bunching by the id they carry, so loss, duplication, reordering and mislabelling of specs are visible. Bounded-universe model checking of an input-quantified property.",
    "note": "Trusts: TLC + CommunityModules Json/IOUtils; the orjson stand-in (compact JSON, vlib/stubs/orjson.py); the byte limit is read as the client reads it: the summed spec bytes of a bunch are strictly below the limit (brackets and commas of the posted array are not counted).",
    "design_ref": "DESIGN.md section 5, C19",
}

INVS = ["C19_Relation", "C19_Order", "C19_NonEmpty", "C19_Bytes", "C19_Count", "C19_Refusal", "PrefixPacked", "CurWithin"]
REACH = ["NeverRaises", "NeverTwoBunch", "NeverFullCnt"]
UNITS = (24, 31, 100)


def lit(xs):
    return "{" + ", ".join(str(x) for x in xs) + "}"


def posted(batch, bunches):
    """what the real Batch._submit_job_group_bunches and Batch._submit_job_bunches send for these bunches: (keys of the job groups in
    posting order, keys of the jobs in posting order); _submit_spec_bunch (the HTTP POST) is replaced by a recorder"""
    import asyncio

    sent = []

    async def record(url, byte_specs, progress_task):
        sent.append(("g" if url.endswith("/job-groups/create") else "j", [json.loads(b)["i"] for b in byte_specs]))

    batch._submit_spec_bunch = record
    batch._id = 1
    batch._raise_if_not_created = lambda: None

    async def go():
        await batch._submit_job_group_bunches(1, bunches, None)
        await batch._submit_job_bunches(1, bunches, None)

    asyncio.run(go())
    return [k for t, ks in sent if t == "g" for k in ks], [k for t, ks in sent if t == "j" for k in ks]


def run(ctx):
    loader.install()
    from hailtop.batch_client import aioclient
    from hailtop.batch_client.aioclient import Batch, SpecType

    wd = tlc.prepare_dir(ctx.build / "tlc", ["fn"])

    # ---- (1) the packing loop as a TLA+ step machine, exhaustively --------------------------------------
    ml, ms, mb, mc = (4, 3, 6, 3) if ctx.quick else (5, 4, 8, 3)
    consts = {"MaxLen": ml, "Sizes": lit(range(1, ms + 1)), "ByteLims": lit(range(2, mb + 1)), "CountLims": lit(range(1, mc + 1))}
    (wd / "Alg.cfg").write_text(tlc.mk_cfg(constants=consts, invariants=INVS))
    res = tlc.run(wd, "BunchingAlg", "Alg.cfg", workers=ctx.workers, coverage=True)
    ctx.add_tlc(res, f"BunchingAlg exhaustive: lists <= {ml}, sizes 1..{ms}, byte limits 2..{mb}, count limits 1..{mc}")
    ctx.require_covered(res, ["Refuse", "Extend", "Close", "Flush"], "BunchingAlg")
    for v in res.violations:
        ctx.violation(f"spec:{v.name}", {"config": consts, "trace": [(h, s) for h, s in v.trace]})
    if res.violations:
        return
    _fn.require_reachable(ctx, wd, "BunchingAlg", {"MaxLen": 3, "Sizes": "{1, 2}", "ByteLims": "{2, 3, 4}", "CountLims": "{1, 2}"}, REACH)

    # ---- (2) B3 on the real function ------------------------------------------------------------------------
    if ctx.quick:
        universes = [(5, 3, 6, 3)]
    else:
        universes = [(6, 3, 9, 4), (5, 4, 8, 3)]
    (wd / "params.ndjson").write_text("".join(json.dumps({"maxlen": a, "maxsize": b, "maxbytes": c, "maxcount": d}) + "\n" for a, b, c, d in universes))
    tlc.evaluate(wd, "BunchingGen", env={"BU_PARAMS": wd / "params.ndjson", "BU_INPUTS": wd / "inputs.ndjson"}, timeout=1800)
    inputs = [json.loads(l) for l in dict.fromkeys((wd / "inputs.ndjson").read_text().splitlines()) if l.strip()]  # order kept, repeats dropped

    batch = object.__new__(Batch)
    dumps = aioclient.orjson.dumps

    def make(t, k, nbytes):
        base = len(dumps({"i": k, "t": t, "p": ""}))
        spec = {"i": k, "t": t, "p": "x" * (nbytes - base)}
        assert len(dumps(spec)) == nbytes, (spec, nbytes)
        return spec

    cases, lines = [], []
    for n, inp in enumerate(inputs):
        unit = UNITS[(n + ctx.seed) % len(UNITS)]
        gs = [make("g", k + 1, unit * s) for k, s in enumerate(inp["groups"])]
        js = [make("j", k + 1, unit * s) for k, s in enumerate(inp["jobs"])]
        try:
            bunches = batch._create_bunches(gs, js, unit * inp["maxbytes"], inp["maxcount"])
            out = {"o": "bunches", "bunches": []}
            for bunch in bunches:
                items = []
                for sb in bunch:
                    content = json.loads(sb.spec_bytes)
                    items.append({"t": "g" if sb.typ == SpecType.JOB_GROUP else "j", "k": content["i"], "nb": len(sb.spec_bytes)})
                out["bunches"].append(items)
            out["pg"], out["pj"] = posted(batch, bunches)
            err = None
        except Exception as e:  # the client refuses (assert) - judged by the specification
            out = {"o": "raise", "bunches": []}
            err = type(e).__name__
        cases.append({"in": inp, "unit": unit, "out": out, "error": err})
        lines.append(json.dumps({"in": inp, "unit": unit, "out": out}))
    verdicts = _fn.sharded_verdict(ctx, ["fn"], "BunchingVerdict", lines, {}, "BU_CASES", "BU_VERDICT", 4 if ctx.quick else 12)
    raised = sum(v["raised"] for _o, v in verdicts)
    multi = sum(v["multi"] for _o, v in verdicts)
    if raised == 0 or multi == 0:
        raise RuntimeError(f"vacuous universe: refused={raised} multi-bunch={multi}")
    for off, v in verdicts:
        for b in v["bad"]:
            c = cases[off + b["i"] - 1]
            ctx.violation(f"bunching:{b['why']}", {"input": c["in"], "bytes_per_unit": c["unit"], "result": c["out"], "error": c["error"],
                                                    "why": b["why"]})
    ncase = len(cases)
    ctx.cov["states"] += 2 * ncase
    ctx.cov["transitions"] += ncase
    ctx.cov.update(traces_validated_against_impl=ncase, evaluations=ncase, distinct_nontrivial=multi, exhaustive=True,
                   rule="TLC enumerates every (groups, jobs, maxbytes, maxcount) of the universes "
                        + "; ".join(f"[lists <= {a}, sizes 1..{b}, byte limit 2..{c}, count limit 1..{d}, every group/job split]" for a, b, c, d in universes)
                        + f"; each is concretised with {UNITS} bytes per size unit (rotating) and run through the real Batch._create_bunches; "
                          "TLC judges each call/return record; non-trivial = calls that produced two or more bunches")
    ctx.cov["refused_oversize"] = raised
    for c in [cases[len(cases) // 3], cases[len(cases) // 2], cases[-1]]:
        ctx.sample({"input": c["in"], "bytes_per_unit": c["unit"], "result": c["out"]})
    ctx.assume("a spec's size is its orjson-serialised length (stand-in: compact JSON); sizes are multiples of the bytes-per-unit scale",
               "byte limit = summed spec bytes of a bunch strictly below max_bunch_bytesize, as the client accounts it",
               "a spec that alone reaches the byte limit can only be refused; a refusal is accepted exactly then",
               "a call/return pair is a two-state behaviour Call(input) -> Return(bunches); states/transitions count those in addition to the BunchingAlg run")
