"""Shared harness of C32 / C33: binds specs/fn/TypedValues.tla to the real hail.expr.types classes.

Second build: the WHOLE `hail` package is imported (vlib.loader + the MiniPEG stand-in for parsimonious), so the type
objects are the ones users get from `hl.tarray(...)` etc., `hl.literal` is callable, and locus types exist: the
reference genome of the universe is a real hail.genetics.ReferenceGenome built with _builtin=True (no backend call)
and registered through the real Backend.add_reference on a registry that only holds the dict (checks/_typestr.py).
The bare-package loader (checks/_barehail.py) is no longer used by C32 / C33.

TLC (TypedValuesGen) enumerates <<type, value>> pairs as JSON trees whose leaves are SYMBOLIC names; this module
owns the table  name <-> concrete Python object  and the two directions

    build(t, v)       abstract tree  -> the Python type object / the Python value handed to the real code
    abstract(obj)     decoded Python object -> abstract tree (the report format TypedValues.Match expects)

`abstract` classifies by the RUN-TIME class of what the real code returned (it does not look at the type), names
every leaf by exact identity (double bits / integer value / code points / alleles+phase) and, for floats, also by
the identity after rounding to float32.  The verdict (Match) is computed by TLC only.
"""
from __future__ import annotations

import json
import math
import random
import struct
import sys
import warnings
from collections.abc import Mapping, Sequence, Set
from pathlib import Path

from vlib import tlc

PRIMS = ["int32", "int64", "float32", "float64", "bool", "str", "call"]
LEAFS = PRIMS + ["locus"]
NUMERIC = ["int32", "int64", "float32", "float64", "bool"]
# the reference genome of the universe (symbols as in TypedValues.tla: Genomes / Contigs / ContigLen) and a decoy with the
# same contig names that is NOT the genome of any type (a decoded locus must carry the genome of its type)
RGS = {"vrg": "verif_rg"}
RGS_REV = {v: k for k, v in RGS.items()}
DECOY_RG = "verif_decoy"
CONTIGS = {"c1": "1", "cx": "c\"\\ \u00e9\U0001f600", "cm": "MT"}
CONTIGS_REV = {v: k for k, v in CONTIGS.items()}
CONTIG_LEN = {"c1": 249250621, "cx": 300, "cm": 1}
FIELD = {"a": "a", "b": "b", "sp": "a b", "uni": "ключ", "num": "1kg", "empty": "", "key": "key", "value": "value",
         "start": "start"}
FIELD_REV = {v: k for k, v in FIELD.items()}

INTS = {"i32min": -2**31, "negtwo": -2, "neg1": -1, "zero": 0, "one": 1, "two": 2, "i127": 127, "i128": 128, "i255": 255,
        "i256": 256, "i65536": 65536, "i32max": 2**31 - 1, "i32maxp1": 2**31, "i32minm1": -2**31 - 1, "p53p1": 2**53 + 1,
        "i64min": -2**63, "i64max": 2**63 - 1}
INTS_REV = {v: k for k, v in INTS.items()}
S01 = struct.unpack("<f", struct.pack("<f", 0.1))[0]          # the float32 nearest to 0.1, as a double
S3RD = struct.unpack("<f", struct.pack("<f", 1 / 3))[0]       # the float32 nearest to 1/3, as a double
FLOATS = {"nan": math.nan, "pinf": math.inf, "ninf": -math.inf, "zero": 0.0, "negzero": -0.0, "one": 1.0, "int1": 1,
          "f1.5": 1.5, "neg2.5": -2.5, "d0.1": 0.1, "s0.1": S01, "f32max": 3.4028234663852886e38,
          "f32tiny": 1.401298464324817e-45, "f64max": 1.7976931348623157e308, "f64tiny": 5e-324,
          "p53p1f": 9007199254740994.0, "d3rd": 1 / 3, "s3rd": S3RD, "f16m1": 16777217.0, "f16m": 16777216.0}
STRS = {"empty": "", "ascii": "abc", "nonascii": "é中\U0001f600", "escapes": "\"\\/\n\t\x00\x7f\u2028",
        "digits": "0123", "calllike": "0|1", "astralnul": "\U00010000\x00\U0010ffff"}
STRS_REV = {v: k for k, v in STRS.items()}
CALLS = {"c_": ([], False), "c_p": ([], True), "c0": ([0], False), "c2p": ([2], True), "c00": ([0, 0], False),
         "c01": ([0, 1], False), "c12": ([1, 2], False), "c01p": ([0, 1], True), "c10p": ([1, 0], True),
         "c11p": ([1, 1], True), "cbig": ([100, 300], False), "cbigp": ([300, 100], True)}
CALLS_REV = {(tuple(a), p): k for k, (a, p) in CALLS.items()}


def _bits64(x: float) -> bytes:
    return struct.pack(">d", x)


def _bits32(x: float) -> bytes:
    # round to nearest float32 (overflow -> inf, like numpy / the JVM's (float) cast)
    try:
        return struct.pack(">f", x)
    except OverflowError:
        return struct.pack(">f", math.copysign(math.inf, x))


F64_REV = {_bits64(float(v)): k for k, v in FLOATS.items() if k not in ("nan", "int1")}
# canonical name of a float32 value: the names that ARE float32 values (0.1 is not, int1 is the Python int)
F32_REV = {}
for _k in ("pinf", "ninf", "zero", "negzero", "one", "f1.5", "neg2.5", "s0.1", "f32max", "f32tiny", "s3rd", "f16m"):
    F32_REV[_bits32(FLOATS[_k])] = _k


def float_names(x: float):
    if math.isnan(x):
        return "nan", "nan"
    n64 = F64_REV.get(_bits64(x), "other:" + x.hex())
    n32 = F32_REV.get(_bits32(x), "other32:" + _bits32(x).hex())
    return n64, n32


_H = None


def load():
    """the real `hail` package (whole import), its type classes, and the reference genomes of the universe"""
    global _H
    if _H is not None:
        return _H
    from types import SimpleNamespace

    from . import _typestr

    h = _typestr.load()          # import hail; Env._hc = a context whose backend is a registry with the real Backend methods
    hl = h.hl
    import numpy

    if not hasattr(numpy, "ndarray") or type(numpy).__name__ == "_StubModule":
        raise RuntimeError("numpy resolved to a stub; real numpy must be in /verif/build/pydeps")
    import hail.expr.types as types
    import hail.utils as utils
    from hail.genetics.call import Call
    from hail.utils.byte_reader import ByteReader, ByteWriter

    names = [CONTIGS[c] for c in ("c1", "cx", "cm")]
    rgs = {}
    # the decoy is registered first and has other lengths: same contig names, another genome
    decoy = h.RG(DECOY_RG, names, {n: 7 for n in names}, _builtin=True)
    h.registry.add_reference(decoy)
    for sym, name in RGS.items():
        g = h.RG(name, names, {CONTIGS[c]: CONTIG_LEN[c] for c in CONTIGS}, _builtin=True)
        h.registry.add_reference(g)
        if hl.get_reference(name) is not g:
            raise RuntimeError("reference genome registry does not return the registered genome")
        rgs[sym] = g
    if hl.default_reference() is not None:
        raise RuntimeError("a default reference genome exists; the universe assumes there is none")
    _H = SimpleNamespace(hl=hl, ir=h.ir, types=types, utils=utils, Call=Call, Locus=hl.Locus, ByteReader=ByteReader,
                         ByteWriter=ByteWriter, rgs=rgs, decoy=decoy)
    return _H


# ---------------------------------------------------------------------------------------------------------------
def mk_type(H, t):
    T = H.types
    k = t["k"]
    if k in PRIMS:
        return getattr(T, "t" + k)
    if k == "locus":
        return T.tlocus(H.rgs[t["rg"]])
    if k == "array":
        return T.tarray(mk_type(H, t["e"]))
    if k == "set":
        return T.tset(mk_type(H, t["e"]))
    if k == "dict":
        return T.tdict(mk_type(H, t["key"]), mk_type(H, t["val"]))
    if k == "tuple":
        return T.ttuple(*[mk_type(H, x) for x in t["ts"]])
    if k == "struct":
        return T.tstruct(**{FIELD[n]: mk_type(H, x) for n, x in zip(t["ns"], t["ts"])})
    if k == "interval":
        return T.tinterval(mk_type(H, t["p"]))
    if k == "ndarray":
        return T.tndarray(mk_type(H, t["e"]), t["n"])
    raise ValueError(f"unknown type kind {k!r}")


def _np_dtype(k):
    import numpy as np

    return {"int32": np.int32, "int64": np.int64, "float32": np.float32, "float64": np.float64, "bool": np.bool_}[k]


def mk_leaf(H, k, name):
    if k in ("int32", "int64"):
        return INTS[name]
    if k in ("float32", "float64"):
        return FLOATS[name]
    if k == "bool":
        return {"true": True, "false": False}[name]
    if k == "str":
        return STRS[name]
    if k == "call":
        a, p = CALLS[name]
        return H.Call(list(a), phased=p)
    raise ValueError(k)


def mk_value(H, t, v, frozen=False):
    """the Python value of abstract tree v of type t; `frozen`: below a set element / dict key (hashable forms)"""
    if v["c"] == "na":
        return None
    k = t["k"]
    if k in PRIMS:
        return mk_leaf(H, k, v["x"])
    if k == "locus":
        if not 1 <= v["pos"] <= CONTIG_LEN[v["contig"]]:
            raise RuntimeError(f"harness: locus outside the contig of the harness's genome table: {v}")
        return H.Locus(CONTIGS[v["contig"]], v["pos"], reference_genome=H.rgs[t["rg"]])
    if k == "array":
        xs = [mk_value(H, t["e"], x, frozen) for x in v["xs"]]
        return H.types.frozenlist(xs) if frozen else xs
    if k == "set":
        xs = [mk_value(H, t["e"], x, True) for x in v["xs"]]
        s = frozenset(xs) if frozen else set(xs)
        if len(s) != len(xs):
            raise RuntimeError(f"harness: set elements collapsed in Python: {v}")
        return s
    if k == "dict":
        d = {}
        for e in v["kv"]:
            d[mk_value(H, t["key"], e["k"], True)] = mk_value(H, t["val"], e["v"], frozen)
        if len(d) != len(v["kv"]):
            raise RuntimeError(f"harness: dict keys collapsed in Python: {v}")
        return H.types.frozendict(d) if frozen else d
    if k == "tuple":
        return tuple(mk_value(H, tt, x, frozen) for tt, x in zip(t["ts"], v["xs"]))
    if k == "struct":
        return H.utils.Struct(**{FIELD[n]: mk_value(H, tt, x, frozen) for n, tt, x in zip(t["ns"], t["ts"], v["xs"])})
    if k == "interval":
        return H.utils.Interval(mk_value(H, t["p"], v["s"], frozen), mk_value(H, t["p"], v["e"], frozen),
                                v["is"], v["ie"], point_type=mk_type(H, t["p"]))
    if k == "ndarray":
        import numpy as np

        ek = t["e"]["k"]
        flat = np.array([mk_leaf(H, ek, x["x"]) for x in v["xs"]], dtype=_np_dtype(ek))
        shape = tuple(v["shape"])
        a = flat.reshape(shape)                       # row-major logical content
        if v["ord"] == "C":
            a = np.array(a, order="C")
        elif v["ord"] == "F":
            a = np.array(a, order="F")
        else:                                         # "V": a strided, non-contiguous view with the same content
            if a.ndim >= 1 and a.size > 0:
                big = np.zeros(shape[:-1] + (2 * shape[-1],), dtype=a.dtype)
                big[..., ::2] = a
                a = big[..., ::2]
                assert a.size <= 1 or not (a.flags["C_CONTIGUOUS"] and a.flags["F_CONTIGUOUS"]) or a.shape[-1] == 1
        assert a.shape == shape
        return a
    raise ValueError(k)


NA = {"c": "na"}


def abstract_leaf(H, x):
    if isinstance(x, bool):
        n = "true" if x else "false"
        return {"c": "p", "py": "bool", "x": n, "x32": n}
    if isinstance(x, int):
        n = INTS_REV.get(x, f"other:{x}")
        return {"c": "p", "py": "int", "x": n, "x32": n}
    if isinstance(x, float):
        n64, n32 = float_names(x)
        return {"c": "p", "py": "float", "x": n64, "x32": n32}
    if isinstance(x, str):
        n = STRS_REV.get(x, "other:" + ascii(x))
        return {"c": "p", "py": "str", "x": n, "x32": n}
    if isinstance(x, H.Call):
        n = CALLS_REV.get((tuple(x.alleles), bool(x.phased)), f"other:{x!r}")
        return {"c": "p", "py": "call", "x": n, "x32": n}
    return None


def abstract(H, x):
    """abstract tree of a decoded Python object, by its run-time class"""
    import numpy as np

    if x is None:
        return dict(NA)
    leaf = abstract_leaf(H, x)
    if leaf is not None:
        return leaf
    if isinstance(x, np.ndarray):
        dt = {np.dtype(np.int32): "int32", np.dtype(np.int64): "int64", np.dtype(np.float32): "float32",
              np.dtype(np.float64): "float64", np.dtype(np.bool_): "bool"}.get(x.dtype, str(x.dtype))
        leaves = []
        for e in x.flatten("C").tolist():
            lf = abstract_leaf(H, e)
            leaves.append(lf if lf is not None else {"c": "p", "py": type(e).__name__, "x": "other", "x32": "other"})
        return {"c": "nd", "dt": dt, "shape": [int(d) for d in x.shape], "xs": leaves}
    if isinstance(x, np.generic):
        return {"c": "p", "py": "numpy." + type(x).__name__, "x": "other:" + repr(x), "x32": "other"}
    if isinstance(x, H.Locus):
        g = x.reference_genome
        pos = x.position
        ok = isinstance(pos, int) and not isinstance(pos, bool) and -2**31 <= pos < 2**31
        return {"c": "loc", "rg": RGS_REV.get(getattr(g, "name", None), "other:" + ascii(getattr(g, "name", g))),
                "contig": CONTIGS_REV.get(x.contig, "other:" + ascii(x.contig)) if ok else "other:position " + repr(pos)[:40],
                "pos": pos if ok else 0}
    if isinstance(x, H.utils.Struct):
        names = list(x)
        return {"c": "struct", "ns": [FIELD_REV.get(n, "other:" + ascii(n)) for n in names],
                "xs": [abstract(H, x[n]) for n in names]}
    if isinstance(x, H.utils.Interval):
        return {"c": "iv", "s": abstract(H, x.start), "e": abstract(H, x.end),
                "is": x.includes_start is True, "ie": x.includes_end is True}
    if isinstance(x, tuple):
        return {"c": "tup", "xs": [abstract(H, e) for e in x]}
    if isinstance(x, Mapping):
        return {"c": "dict", "kv": [{"k": abstract(H, k), "v": abstract(H, v)} for k, v in x.items()]}
    if isinstance(x, Set):
        return {"c": "set", "xs": [abstract(H, e) for e in x]}
    if isinstance(x, Sequence):
        return {"c": "arr", "xs": [abstract(H, e) for e in x]}
    return {"c": "p", "py": type(x).__name__, "x": "other:" + repr(x)[:80], "x32": "other"}


# ---------------------------------------------------------------------------------------------------------------
# seeded sample of further types from the whole depth-2 grammar (TypedValues.IsType)
def _has_nd(t):
    return t["k"] == "ndarray" or any(_has_nd(x) for x in kids(t))


def kids(t):
    k = t["k"]
    if k in LEAFS:
        return []
    if k in ("array", "set"):
        return [t["e"]]
    if k == "dict":
        return [t["key"], t["val"]]
    if k in ("tuple", "struct"):
        return list(t["ts"])
    if k == "interval":
        return [t["p"]]
    return [t["e"]]


def depth(t):
    return 0 if t["k"] in LEAFS else 1 + max([0] + [depth(x) for x in kids(t)])


def _leaf_type(rng):
    k = rng.choice(LEAFS)
    return {"k": k, "rg": "vrg"} if k == "locus" else {"k": k}


def random_type(rng: random.Random, d: int, with_nd: bool, hashable=False):
    if d == 0:
        return _leaf_type(rng)
    kinds = ["array", "set", "dict", "tuple", "struct", "interval"] + (["ndarray"] if with_nd and not hashable else [])
    k = rng.choice(kinds + ["prim"] if d < 2 else kinds)
    sub = lambda h=hashable: random_type(rng, rng.choice([0, d - 1, d - 1]), with_nd, h)  # noqa: E731
    if k == "prim":
        return _leaf_type(rng)
    if k == "array":
        return {"k": "array", "e": sub()}
    if k == "set":
        return {"k": "set", "e": sub(True)}
    if k == "dict":
        return {"k": "dict", "key": sub(True), "val": sub()}
    if k == "tuple":
        return {"k": "tuple", "ts": [sub() for _ in range(rng.choice([0, 1, 2, 2, 3]))]}
    if k == "struct":
        n = rng.choice([0, 1, 2, 2, 3])
        return {"k": "struct", "ns": rng.sample(sorted(FIELD), n), "ts": [sub() for _ in range(n)]}
    if k == "interval":
        return {"k": "interval", "p": random_type(rng, rng.choice([0, d - 1]), False, hashable)}
    return {"k": "ndarray", "e": {"k": rng.choice(NUMERIC)}, "n": rng.randrange(4)}


def type_str(t):
    k = t["k"]
    if k in PRIMS:
        return k
    if k == "locus":
        return f"locus<{t['rg']}>"
    if k in ("array", "set"):
        return f"{k}<{type_str(t['e'])}>"
    if k == "dict":
        return f"dict<{type_str(t['key'])},{type_str(t['val'])}>"
    if k == "tuple":
        return "tuple(" + ",".join(type_str(x) for x in t["ts"]) + ")"
    if k == "struct":
        return "struct{" + ",".join(f"{n}:{type_str(x)}" for n, x in zip(t["ns"], t["ts"])) + "}"
    if k == "interval":
        return f"interval<{type_str(t['p'])}>"
    return f"ndarray<{type_str(t['e'])},{t['n']}>"


def subterms(t, v):
    """all (type, value) positions of a typed value (the value itself first), non-missing ones only"""
    if v["c"] == "na":
        return
    yield t, v
    k = t["k"]
    if k in ("array", "set"):
        for x in v["xs"]:
            yield from subterms(t["e"], x)
    elif k == "dict":
        for e in v["kv"]:
            yield from subterms(t["key"], e["k"])
            yield from subterms(t["val"], e["v"])
    elif k in ("tuple", "struct"):
        for tt, x in zip(t["ts"], v["xs"]):
            yield from subterms(tt, x)
    elif k == "interval":
        yield from subterms(t["p"], v["s"])
        yield from subterms(t["p"], v["e"])


def size(v):
    return 1 + sum(size(x) for x in v.get("xs", []) if isinstance(x, dict)) + \
        sum(size(e["k"]) + size(e["v"]) for e in v.get("kv", [])) + \
        sum(size(v[f]) for f in ("s", "e") if isinstance(v.get(f), dict))


def feature(t, v):
    """which direct positions of v are missing (part of the root-cause signature)"""
    k = t["k"]
    na = lambda x: x["c"] == "na"  # noqa: E731
    if k == "dict":
        return "missing-key-or-value" if any(na(e["k"]) or na(e["v"]) for e in v["kv"]) else "plain"
    if k in ("array", "set"):
        return "missing-element" if any(na(x) for x in v["xs"]) else "plain"
    if k in ("tuple", "struct"):
        return "missing-field" if any(na(x) for x in v["xs"]) else "plain"
    if k == "interval":
        return "missing-endpoint" if na(v["s"]) or na(v["e"]) else "plain"
    if k == "ndarray":
        return f"order-{v['ord']}" + (":empty" if 0 in v["shape"] else "")
    return "leaf"


def universe_features(pairs):
    """MEASURED features of the enumerated universe (vacuity guards of the second build; counts of <<type, value>> pairs
    in which the feature occurs at some position)"""
    f = {"locus_first_last": set(), "interval_flags": set(), "interval_missing_endpoint": 0, "nd": set(),
         "dict_key_struct_or_tuple": 0, "set_of_arrays": 0, "astral_nul_string": 0, "float32_not_representable": 0,
         "int64_extremes": 0, "call_ploidy_phase": set(), "locus_contigs": set()}
    for p in pairs:
        hit = set()
        for t, v in subterms(p["t"], p["v"]):
            k = t["k"]
            if k == "locus":
                f["locus_contigs"].add(v["contig"])
                if v["pos"] == 1:
                    f["locus_first_last"].add(v["contig"] + ":first")
                if v["pos"] == CONTIG_LEN[v["contig"]]:
                    f["locus_first_last"].add(v["contig"] + ":last")
            elif k == "interval":
                if t["p"]["k"] in ("int32", "locus"):
                    f["interval_flags"].add(f"{t['p']['k']}:{'[' if v['is'] else '('}{']' if v['ie'] else ')'}")
                if v["s"]["c"] == "na" or v["e"]["c"] == "na":
                    hit.add("interval_missing_endpoint")
            elif k == "ndarray":
                f["nd"].add(f"{t['n']}d:{v['ord']}:{'empty' if 0 in v['shape'] else 'nonempty'}")
            elif k == "dict" and t["key"]["k"] in ("struct", "tuple") and v["kv"]:
                hit.add("dict_key_struct_or_tuple")
            elif k == "set" and t["e"]["k"] == "array" and v["xs"]:
                hit.add("set_of_arrays")
            elif k == "str" and v["x"] == "astralnul":
                hit.add("astral_nul_string")
            elif k == "float32" and v["x"] in ("d0.1", "d3rd", "f16m1"):
                hit.add("float32_not_representable")
            elif k == "int64" and v["x"] in ("i64min", "i64max"):
                hit.add("int64_extremes")
            elif k == "call":
                a, ph = CALLS[v["x"]]
                f["call_ploidy_phase"].add(f"{len(a)}{'p' if ph else 'u'}")
        for h in hit:
            f[h] += 1
    out = {k: (sorted(v) if isinstance(v, set) else v) for k, v in f.items()}
    need = {"locus_first_last": 2 * len(CONTIGS), "interval_flags": 8, "nd": 1, "call_ploidy_phase": 6, "locus_contigs": len(CONTIGS)}
    for k, v in out.items():
        if (len(v) if isinstance(v, list) else v) < need.get(k, 1):
            raise RuntimeError(f"vacuous universe: feature {k} = {v}")
    for want in [f"{n}d:{o}:nonempty" for n in (0, 1, 2) for o in ("C", "F")] + [f"{n}d:{o}:empty" for n in (1, 2) for o in ("C", "F")]:
        if want not in out["nd"]:
            raise RuntimeError(f"vacuous universe: no n-d array case {want}")
    return out


# ---------------------------------------------------------------------------------------------------------------
def tlc_env(wd, *, level: int, with_nd: bool, tag=""):
    return {"TV_ND": "1" if with_nd else "0", "TV_LEVEL": level, "TV_EXTRA": wd / "extra.ndjson",
            "TV_INPUTS": wd / "inputs.ndjson", "TV_CASES": wd / f"cases{tag}.ndjson", "TV_VERDICT": wd / f"verdict{tag}.json"}


def run_cases(H, pairs, convert, template=None):
    """run the real code on every <<type, value>> pair.  convert(T, x, rec) performs the calls and fills the case
    record (at least rec["w"], the decoded object as a tree); it may raise (the exception object may carry .stage).
    Returns the case records for the Verdict module."""
    cases = []
    tcache = {}
    for p in pairs:
        t, v = p["t"], p["v"]
        key = json.dumps(t, sort_keys=True)
        T = tcache.get(key)
        if T is None:
            T = tcache[key] = mk_type(H, t)
        x = mk_value(H, t, v)
        rec = {"t": t, "v": v, "err": "", "w": dict(NA)}
        rec.update(template or {})
        try:
            with warnings.catch_warnings():
                warnings.simplefilter("ignore")
                convert(T, x, rec)
        except Exception as e:  # noqa: BLE001  an exception on a well-typed value is a result, judged by TLC
            rec["err"] = f"{getattr(e, 'stage', '?')}: {type(e).__name__}: {e}"[:240] or "error"
        cases.append(rec)
    return cases


def judge(wd, env, cases, module="TypedValuesVerdict"):
    with open(env["TV_CASES"], "w") as f:
        for c in cases:
            f.write(json.dumps(c) + "\n")
    tlc.evaluate(wd, module, env=env, timeout=3000)
    verdict = json.loads(open(env["TV_VERDICT"]).read())
    if verdict["n"] != len(cases):
        raise RuntimeError(f"verdict covers {verdict['n']} cases, harness wrote {len(cases)}")
    return verdict


def roundtrip_check(ctx, wd, *, wire: str, convert, level: int, with_nd: bool, nextra: int,
                    verdict_module="TypedValuesVerdict", template=None, top_level_missing=True, extra_env=None, stride=1):
    """Gen -> real code -> Verdict (+ a second, small Verdict over the sub-terms of the bad cases, to name the root
    cause).  Reports violations on ctx; returns (cases, verdict, stats)."""
    H = load()
    env = dict(tlc_env(wd, level=level, with_nd=with_nd), **(extra_env or {}))
    rng = random.Random(ctx.seed)
    extra, seen = [], set()
    maxd = 2 if level == 0 else 3
    while len(extra) < nextra:
        t = random_type(rng, maxd if len(extra) % 2 else 2, with_nd)      # thorough: every second draw from the depth-3 grammar
        s = type_str(t)
        if s not in seen and depth(t) <= maxd:
            seen.add(s)
            extra.append(t)
    with open(env["TV_EXTRA"], "w") as f:
        for t in extra:
            f.write(json.dumps({"t": t}) + "\n")
    # TypedValuesGenChunks writes one file per type (TLC never builds the set of all pairs: 60x faster than Gen for the
    # thorough universe); <TV_INPUTS>.n holds the number of files
    for old in wd.glob(Path(env["TV_INPUTS"]).name + ".*"):
        old.unlink()
    tlc.evaluate(wd, "TypedValuesGenChunks", env=env, timeout=3000)
    nfiles = json.loads(open(f"{env['TV_INPUTS']}.n").readline())["n"]
    pairs = []
    for i in range(1, nfiles + 1):
        with open(f"{env['TV_INPUTS']}.{i}") as f:
            chunk = [json.loads(l) for l in f if l.strip()]
        if not chunk or any(p["t"] != chunk[0]["t"] for p in chunk):
            raise RuntimeError(f"chunk {i} of the enumeration is empty or mixes types")
        pairs.extend(chunk)
    if not top_level_missing:
        pairs = [p for p in pairs if p["v"]["c"] != "na"]
    if stride > 1:      # a seeded sub-sample of TLC's enumeration (quick tier of the more expensive verdicts)
        off = rng.randrange(stride)
        rare = lambda t: t["k"] == "ndarray" or (t["k"] in ("tuple", "struct") and len(t["ts"]) > 8)  # noqa: E731  always kept
        pairs = [p for i, p in enumerate(pairs) if i % stride == off or rare(p["t"])]
    if not pairs:
        raise RuntimeError("vacuous: TLC enumerated no <<type, value>> pair")
    cases = run_cases(H, pairs, convert, template)
    verdict = judge(wd, env, cases, verdict_module)
    bad = verdict["bad"]
    for b in bad:
        if b["why"] == "not-in-universe":
            raise RuntimeError(f"harness produced a case outside the specification's universe: {cases[b['i'] - 1]}")
    # ---- root causes: the smallest sub-term of every bad case that is itself bad (judged by TLC again) ----------
    groups = {}
    if bad:
        subs, owner = [], []
        seen_sub = {}
        for b in bad:
            c = cases[b["i"] - 1]
            for (t, v) in subterms(c["t"], c["v"]):
                k = json.dumps([t, v], sort_keys=True)
                if k not in seen_sub:
                    seen_sub[k] = len(subs)
                    subs.append({"t": t, "v": v})
                owner.append((b["i"], seen_sub[k]))
        env2 = dict(tlc_env(wd, level=level, with_nd=with_nd, tag="_sub"), **(extra_env or {}))
        subcases = run_cases(H, subs, convert, template)
        v2 = judge(wd, env2, subcases, verdict_module)
        badsub = {x["i"] - 1: x["why"] for x in v2["bad"]}
        for b in bad:
            mine = [j for (i, j) in owner if i == b["i"] and j in badsub]
            if not mine:           # only bad as a whole (cannot happen for a compositional converter; keep the case itself)
                c = cases[b["i"] - 1]
                root, why, want = c, b["why"], b.get("want", [])
            else:
                j = min(mine, key=lambda j: (size(subcases[j]["v"]), j))
                root, why = subcases[j], badsub[j]
                want = next((x.get("want", []) for x in v2["bad"] if x["i"] - 1 == j), [])
            sig = f"{wire}:{root['t']['k']}:{feature(root['t'], root['v'])}"
            g = groups.setdefault(sig, {"n": 0, "root": root, "example": cases[b["i"] - 1], "why": {}, "want": []})
            g["n"] += 1
            g["want"] = g["want"] or want
            g["why"][why] = g["why"].get(why, 0) + 1
        for sig, g in sorted(groups.items()):
            r, ex = g["root"], g["example"]
            ctx.violation(sig, {"cases": g["n"], "why": g["why"], "minimal_type": type_str(r["t"]), "minimal_type_tree": r["t"], "minimal_value": r["v"],
                                "error": r["err"], "decoded": r["w"],
                                **({"python_bytes": bytes(r["bytes"]).hex(), "engine_expects": bytes(g["want"]).hex()}
                                   if "bytes" in r else {}),
                                "python_value": repr(mk_value(H, r["t"], r["v"]))[:200],
                                "example_type": type_str(ex["t"]), "example_value": ex["v"]})
    stats = {"pairs": len(pairs), "types": len({json.dumps(p["t"], sort_keys=True) for p in pairs}),
             "nontrivial_types": len({json.dumps(p["t"], sort_keys=True) for p in pairs if p["t"]["k"] not in PRIMS}),
             "depth2_cases": verdict["nested"], "depth3_cases": verdict.get("deep", 0),
             "depth3_types": len({json.dumps(p["t"], sort_keys=True) for p in pairs if depth(p["t"]) == 3}),
             "cases_with_locus": sum(1 for p in pairs if '"loc"' in json.dumps(p["v"])),
             "types_with_locus": len({json.dumps(p["t"], sort_keys=True) for p in pairs if '"locus"' in json.dumps(p["t"])}),
             "features": universe_features(pairs), "extra_types": len(extra), "bad_cases": len(bad),
             "with_missing": sum(1 for p in pairs if '"na"' in json.dumps(p["v"]))}
    return cases, verdict, stats


def replay_pair(ctx, wd, rp, *, wire: str, convert, verdict_module="TypedValuesVerdict", template=None):
    """--replay: run only the minimal <<type, value>> pair of a recorded violation through the real code and TLC"""
    H = load()
    d = rp.get("replay") or rp.get("detail") or {}
    t, v = d["minimal_type_tree"], d["minimal_value"]
    env = tlc_env(wd, level=1, with_nd=True, tag="_replay")      # level 1: types to depth 3 are in the universe
    (wd / "extra.ndjson").write_text(json.dumps({"t": {"k": "int32"}}) + "\n")
    cases = run_cases(H, [{"t": t, "v": v}], convert, template)
    verdict = judge(wd, env, cases, verdict_module)
    for b in verdict["bad"]:
        if b["why"] in ("not-in-universe", "harness"):
            raise RuntimeError(f"replay pair rejected by the specification: {b}")
        ctx.violation(f"{wire}:{t['k']}:{feature(t, v)}", {"why": b["why"], "minimal_type": type_str(t), "minimal_type_tree": t, "minimal_value": v, "error": cases[0]["err"],
                                                         "decoded": cases[0]["w"], "python_value": repr(mk_value(H, t, v))[:200]})
    ctx.cov.update(evaluations=1, distinct_nontrivial=2, exhaustive=False, rule="replay of one recorded <<type, value>> pair, judged by TLC")
    ctx.sample({"type": type_str(t), "value": v, "decoded": cases[0]["w"], "error": cases[0]["err"]})
