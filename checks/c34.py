"""C34 - genotype call packing agrees with the engine; genotype index <-> allele pair is the VCF bijection.

Spec: specs/fn/CallPack.tla - the engine's 32-bit call word transcribed from Call.scala / Genotype.scala as bit
fields (bytes and int32 value computed in limbs inside TLC's 32-bit integers), a Pack/Unpack/Reject state
machine checked exhaustively over the call universe, and the Pair/Index bijection in VCF order.
Binding B3: TLC writes the universe (with the engine's bytes); the harness runs the real
hail.expr.types.tcall._convert_to_encoding / _convert_from_encoding, allele_pair_sqrt, small_allele_pair and
Call.unphased_diploid_gt_index (loaded under a bare `hail` package, checks/_barehail.py); TLC judges every
recorded call against the transcription.
"""
from __future__ import annotations

import hashlib
import json
import random
import struct

from vlib import loader, tlc

from . import _barehail

LEVEL = "model_checking"
MANIFEST = {
    "technique": "TLA+ specification of the engine's call word (CallPack.tla, transcribed from Call.scala/Genotype.scala) "
                 "model-checked with TLC (Pack/Unpack/Reject state machine, pair/index bijection in VCF order); TLC enumerates "
                 "the call universe and judges every recorded encode/decode of the real Python front end (call/return conformance, B3)",
    "text": "Exhaustive over all calls of ploidy 0-2, phased and unphased, alleles up to a stated bound, plus dense windows at "
            "the byte-limb borders, the sign bit (2^28) and the 29-bit maximum of the allele representation, plus a seeded random "
            "sample over the whole representable range; all genotype indices up to a bound and around the triangular numbers. "
            "The engine side is a manual transcription (it cannot be built offline); its Scala source is fingerprinted.",
    "note": "Trusts: TLC + CommunityModules Json/IOUtils; the hand transcription of Call.scala/Genotype.scala in CallPack.tla "
            "(fingerprinted; exactness of IEEE sqrt in allelePairSqrt assumed); little-endian host (struct '=i' in "
            "hail.utils.byte_reader equals the engine's little-endian int32). Calls the engine rejects (allele representation "
            ">= 2^29) are outside the property; what the front end does with them is reported as a note only.",
    "design_ref": "DESIGN.md section 5, C34",
}

# sha256 of the Scala sources at the time of transcription (whole files; the transcribed members are listed in CallPack.tla)
TRANSCRIBED = {
    "hail/hail/src/is/hail/variant/Call.scala": "d43edbf267ce63c89c56e2ac744b01c7fb4b930ae1e7628257c8dc617d0ef667",
    "hail/hail/src/is/hail/variant/Genotype.scala": "ea59d4720b1c8e5a07d10818d61b95737f13cac86cc89749c3c3777010c9820e",
}

MAXREPR = 2**29 - 1
MAXK = 32767
I32 = range(-2**31, 2**31)


def _tri(k):
    return k * (k + 1) // 2


def _i32(v):
    """integers travel to TLC as JSON numbers and must fit its 32-bit integers; anything else is flagged"""
    if isinstance(v, bool) or not isinstance(v, int):
        raise TypeError(f"not an int: {v!r}")
    if v not in I32:
        raise OverflowError(f"out of int32: {v!r}")
    return v


def _random_calls(rng, n):
    out = []
    for _ in range(n):
        kind = rng.randrange(3)
        if kind == 0:
            out.append({"ph": rng.random() < 0.5, "a": [rng.randrange(MAXREPR + 1)]})
            continue
        k = rng.choice([rng.randrange(MAXK + 1), rng.randrange(MAXK + 1), rng.randrange(23000, MAXK + 1), rng.randrange(300)])
        j = rng.randrange(k + 1)
        if _tri(k) + j > MAXREPR:
            j = rng.randrange(16384)
        if kind == 1:
            out.append({"ph": False, "a": [j, k] if rng.random() < 0.5 else [k, j]})
        else:
            out.append({"ph": True, "a": [j, k - j]})
    return out


def _evaluate(wd, module, env):
    """constant evaluation of an ASSUME-only module; CallPack declares variables, so a one-state behaviour spec is given"""
    r = tlc.run(wd, module, "Idle.cfg", workers=1, env=env, timeout=1500)
    if r.violations:
        raise tlc.TLCFailure(f"evaluation of {module} failed: {[(v.kind, v.name) for v in r.violations]}\n{r.out[-2000:]}")
    return r


def run(ctx):
    H = _barehail.load_types()
    tcall = H.types.tcall
    Call = H.Call

    # ---- fingerprint of the transcribed Scala text (information, not a verdict) ---------------------------------
    for rel, want in TRANSCRIBED.items():
        p = loader.REPO / rel
        got = hashlib.sha256(p.read_bytes()).hexdigest() if p.exists() else "missing"
        if got != want:
            ctx.note(f"engine source {rel} differs from the transcribed version (sha256 {got[:16]}.. != {want[:16]}..): "
                     "CallPack.tla must be re-read against it; the verdict below is relative to the OLD transcription")
    ctx.cov["scala_fingerprints"] = dict(TRANSCRIBED)

    n, dense, kstep, nrandom = (40, 3, 499, 2000) if ctx.quick else (110, 12, 3, 60000)
    wd = tlc.prepare_dir(ctx.build / "tlc", ["fn"])
    env = {"CP_N": n, "CP_DENSE": dense, "CP_KSTEP": kstep, "CP_CALLS": wd / "calls.ndjson", "CP_IDX": wd / "idx.ndjson",
           "CP_EXTRA": wd / "extra.ndjson", "CP_CALLCASES": wd / "callcases.ndjson", "CP_IDXCASES": wd / "idxcases.ndjson",
           "CP_VERDICT": wd / "verdict.json"}

    # ---- (1) TLC: the transcription is self-consistent over the universe (exhaustive) ----------------------------
    mc_env = dict(env, CP_N=16 if ctx.quick else 64)
    (wd / "MC.cfg").write_text(tlc.mk_cfg(invariants=["TypeOK", "WordFits", "RoundTrip", "Canonical", "FatalIff"]))
    res = tlc.run(wd, "CallPack", "MC.cfg", workers=ctx.workers, coverage=True, env=mc_env)
    ctx.add_tlc(res, f"CallPack Pack/Unpack/Reject over the call universe, alleles <= {mc_env['CP_N']} + boundaries")
    for v in res.violations:
        # the specification contradicts itself: machinery problem, not a verdict on the code
        raise RuntimeError(f"CallPack.tla is not self-consistent: {v.kind} {v.name} {v.trace[-1:]}")
    ctx.require_covered(res, ["Pack", "Reject", "Unpack"], "CallPack")
    # antecedents are reachable: Pack/Reject/Unpack taken (done and fatal states exist); a done state with bit 31 set exists
    (wd / "Vac.cfg").write_text(tlc.mk_cfg(invariants=["NeverSign"]))
    r = tlc.run(wd, "CallPack", "Vac.cfg", workers=1, env=dict(env, CP_N=2, CP_DENSE=1))
    if not any(v.name == "NeverSign" for v in r.violations):
        raise RuntimeError("vacuity: NeverSign was expected to be violated")

    # ---- (2) TLC writes the inputs (and checks the bijection in VCF order while doing so) ------------------------
    rng = random.Random(ctx.seed)
    with open(env["CP_EXTRA"], "w") as f:
        for c in _random_calls(rng, nrandom):
            f.write(json.dumps(c) + "\n")
    (wd / "Idle.cfg").write_text(tlc.mk_cfg(init="IdleInit", next="IdleNext"))
    _evaluate(wd, "CallPackGen", env)
    calls = [json.loads(l) for l in open(env["CP_CALLS"]) if l.strip()]
    idxs = [json.loads(l) for l in open(env["CP_IDX"]) if l.strip()]

    # ---- (3) the real front end ------------------------------------------------------------------------------------
    float_index = 0
    callcases = []
    for x in calls:
        rec = {"p": x["p"], "ph": x["ph"], "a": x["a"], "err": "", "enc": [], "i32": 0,
               "dec_a": [], "dec_ph": False, "dec2_a": [], "dec2_ph": False}
        try:
            c = Call(list(x["a"]), phased=x["ph"])
            b = H.encode(tcall, c)
            rec["enc"] = list(b)
            rec["i32"] = struct.unpack("<i", b)[0] if len(b) == 4 else 0
            d = H.decode(tcall, b)
            rec["dec_a"], rec["dec_ph"] = [_i32(a) for a in d.alleles], bool(d.phased)
            d2 = H.decode(tcall, bytes(x["bytes"]))
            rec["dec2_a"], rec["dec2_ph"] = [_i32(a) for a in d2.alleles], bool(d2.phased)
        except Exception as e:  # noqa: BLE001  an exception on a representable call is a result, judged by TLC
            rec["err"] = f"{type(e).__name__}: {e}"[:200] or "error"
        callcases.append(rec)
    idxcases = []
    for x in idxs:
        i = x["i"]
        rec = {"i": i, "sj": -1, "sk": -1, "tj": -1, "tk": -1, "dj": -1, "dk": -1, "gi": -1, "ei": -1}
        try:
            p = H.types.allele_pair_sqrt(i)
            rec["sj"], rec["sk"] = _i32(p & 0xFFFF), _i32((p >> 16) & 0xFFFF)
        except Exception:  # noqa: BLE001
            pass
        tab = H.types.small_allele_pair
        if i < len(tab):
            rec["tj"], rec["tk"] = _i32(tab[i] & 0xFFFF), _i32((tab[i] >> 16) & 0xFFFF)
        try:
            d = H.decode(tcall, bytes(x["bytes"]))
            if d.ploidy == 2 and not d.phased:
                rec["dj"], rec["dk"] = _i32(d.alleles[0]), _i32(d.alleles[1])
                g = d.unphased_diploid_gt_index()
                if isinstance(g, float) and g.is_integer():
                    float_index += 1
                    g = int(g)
                rec["gi"] = _i32(g) if isinstance(g, int) and g in I32 else -2
                e = H.encode(tcall, Call([d.alleles[0], d.alleles[1]]))
                rec["ei"] = int.from_bytes(e, "little") >> 3 if len(e) == 4 and (e[0] & 7) == 4 else -2
        except Exception:  # noqa: BLE001
            pass
        idxcases.append(rec)
    with open(env["CP_CALLCASES"], "w") as f:
        for r in callcases:
            f.write(json.dumps(r) + "\n")
    with open(env["CP_IDXCASES"], "w") as f:
        for r in idxcases:
            f.write(json.dumps(r) + "\n")

    # ---- (4) TLC judges -----------------------------------------------------------------------------------------------
    _evaluate(wd, "CallPackVerdict", env)
    verdict = json.loads((wd / "verdict.json").read_text())
    assert verdict["ncalls"] == len(callcases) and verdict["nidx"] == len(idxcases), verdict
    if verdict["negative"] == 0:
        raise RuntimeError("vacuous: no call with the sign bit set was judged")
    for b in verdict["badcalls"]:
        c = callcases[b["i"] - 1]
        if b["why"] == "not-in-universe":
            raise RuntimeError(f"harness produced a case outside the specification's universe: {c}")
        shape = ("phased" if c["ph"] else "unphased") + str(c["p"])
        big = "big" if any(a > 0xFFF for a in c["a"]) else "small"
        ctx.violation(f"callpack:{b['why']}:{shape}:{big}",
                      {"call": {"alleles": c["a"], "phased": c["ph"]}, "why": b["why"], "python_bytes": c["enc"],
                       "python_int32": c["i32"], "decoded_from_python_bytes": [c["dec_a"], c["dec_ph"]],
                       "decoded_from_engine_bytes": [c["dec2_a"], c["dec2_ph"]], "error": c["err"]})
    for b in verdict["badidx"]:
        c = idxcases[b["i"] - 1]
        if b["why"] == "not-in-universe":
            raise RuntimeError(f"harness produced a case outside the specification's universe: {c}")
        ctx.violation(f"gtindex:{b['why']}:{'table' if c['i'] < 36 else 'sqrt'}", dict(c, why=b["why"]))

    # ---- out of scope, reported only: calls the engine rejects ---------------------------------------------------------
    probes = []
    for a, ph in (([2**29], False), ([16384, 32767], False), ([32768, 32768], False), ([1, 32767], True)):
        try:
            b = H.encode(tcall, Call(a, phased=ph))
            probes.append(f"{a}{'|' if ph else '/'} -> bytes {b.hex()} decoded as {H.decode(tcall, b)}")
        except Exception as e:  # noqa: BLE001
            probes.append(f"{a} -> {type(e).__name__}")
    ctx.note("outside the property (allele representation >= 2^29, the engine's constructor is fatal): the front end does: "
             + "; ".join(probes))
    if float_index:
        ctx.note(f"Call.unphased_diploid_gt_index() returned a float (true division) equal to the integer index in "
                 f"{float_index} of {len(idxcases)} calls; compared numerically")

    ncase = len(callcases) + len(idxcases)
    ctx.cov.update(traces_validated_against_impl=ncase, evaluations=ncase,
                   distinct_nontrivial=sum(1 for c in callcases if c["p"] == 2) + sum(1 for c in idxcases if c["i"] >= 36),
                   exhaustive=True,
                   rule=f"TLC explores Pack/Unpack/Reject for every call of the universe (alleles <= {mc_env['CP_N']} + boundary windows) and "
                        f"checks the pair/index bijection against the VCF enumeration; B3: all calls with alleles <= {n}, windows of +-{dense} "
                        f"at the limb borders / sign bit / 2^29-1, {nrandom} seeded random calls over the representable range, "
                        f"all genotype indices <= T({n}+1)+{dense} and T(k)-2..T(k)+2 for every {kstep}th k <= 32767; each case is one encode, "
                        "two decodes (own bytes, engine bytes) judged by TLC; non-trivial = diploid call or index beyond the table")
    ctx.cov["states"] += 2 * ncase
    ctx.cov["transitions"] += ncase
    ctx.cov["cases"] = {"calls": len(callcases), "indices": len(idxcases), "sign_bit_set": verdict["negative"],
                        "random_calls": nrandom}
    big = [c for c in callcases if c["p"] == 2 and max(c["a"]) > 30000]
    for c in callcases[:2] + big[:2] + [c for c in callcases if c["p"] == 1 and c["a"][0] >= 2**28][:1]:
        ctx.sample({"call": c["a"], "phased": c["ph"], "bytes": bytes(c["enc"]).hex(), "int32": c["i32"], "decoded": c["dec_a"]})
    ctx.sample({"index": idxcases[-1]["i"], "pair": [idxcases[-1]["dj"], idxcases[-1]["dk"]]})
    ctx.assume("the engine side is the hand transcription of Call.scala / Genotype.scala in specs/fn/CallPack.tla (the engine cannot be built offline)",
               "IEEE-754 double sqrt gives the exact floor in Genotype.allelePairSqrt for 8i+1 < 2^32 (the engine asserts it)",
               "host is little-endian: struct '=i' in hail.utils.byte_reader is the engine's little-endian int32",
               "an unphased diploid call is compared up to the order of its two alleles (neither side represents the order)",
               "a call/return pair is a two-state behaviour; states/transitions count those in addition to the TLC runs")
