"""Shared machinery of the batch-service checks (C01 C02 C04 C05 C06 C07 C10 C41 ...):
programs (constants of BatchDB), generation of MC modules / configs, TLC runs (cached by content hash: they
do not depend on /repo), application of BatchDB actions to the real code (BatchWorld), projection of the SQL
engine's tables to the specification's variables, graph replay and counter-example replay.
"""
from __future__ import annotations

import dataclasses

import hashlib
import json
import random
import shutil
import time
from dataclasses import dataclass, field
from pathlib import Path

from vlib import tlaval, tlc, walk
from vlib.runner import BUILD

NULLT = -1
ALL_AVOID = ("ooc", "toctou", "pendrel")

INVARIANTS = ["TypeOK", "C01_User", "C01_Group", "C02_Billing", "C04_Tally", "C05_Gate", "C05_FailCancels", "C06_Batch",
              "C06_Groups", "C06_Counts", "C10_Free", "C41_Uncommitted", "C41_NotDispatched"]
ACTION_PROPS = ["C03_Attempts", "C04_Lifecycle", "C05_NeverRuns", "C07_NoNewWork", "C07_NoInsertBelow", "C07_SubtreeOnly"]


@dataclass
class Program:
    """Constants of one BatchDB configuration."""
    name: str
    jobs: dict            # j -> dict(upd, grp, par(set), always(bool), cores(mcpu))
    groups: dict          # g -> dict(parent, upd)   (g != 0)
    n_updates: int
    att_ids: tuple = ("a1",)
    insts: tuple = ("i1",)
    inst_cores: int = 2000
    times: tuple = (0,)
    res_q: int = 2
    days: tuple = (0,)
    features: tuple = ()
    mc_only: bool = False   # too large to dump/replay: model-checked only
    gfail: dict = dataclasses.field(default_factory=dict)   # g -> cancel_after_n_failures (absent = NULL); g may be 0 (the batch)

    def updates(self):
        return list(range(1, self.n_updates + 1))

    def ujobs(self, u):
        return sorted(j for j, d in self.jobs.items() if d["upd"] == u)

    def ugroups(self, u):
        return sorted(g for g, d in self.groups.items() if d["upd"] == u)

    def start_job(self, u):
        return 1 + sum(len(self.ujobs(v)) for v in range(1, u))

    def start_group(self, u):
        return 1 + sum(len(self.ugroups(v)) for v in range(1, u))

    def anc(self, g):
        out = [g]
        while g != 0:
            g = self.groups[g]["parent"]
            out.append(g)
        return out

    def check(self):
        # job and group ids must be the ids the server will assign (contiguous per update, in update order)
        for u in self.updates():
            js = self.ujobs(u)
            assert js == list(range(self.start_job(u), self.start_job(u) + len(js))), (self.name, u, js)
            gs = self.ugroups(u)
            assert gs == list(range(self.start_group(u), self.start_group(u) + len(gs))), (self.name, u, gs)
            assert js or gs, f"{self.name}: update {u} is empty"
        for g, d in self.groups.items():
            assert d["parent"] < g
        for j, d in self.jobs.items():
            assert d["grp"] == 0 or self.groups[d["grp"]]["upd"] <= d["upd"]
        return self


def fn(d, render=tlaval.to_tla):
    return "(" + " @@ ".join(f"{k} :> {render(v)}" for k, v in sorted(d.items())) + ")" if d else "<<>>"


def mc_module(p: Program, name: str) -> str:
    J = p.jobs
    lines = [f"---- MODULE {name} ----", "EXTENDS BatchDBLive",
             "mcJUpd == " + fn({j: d["upd"] for j, d in J.items()}),
             "mcJGrp == " + fn({j: d["grp"] for j, d in J.items()}),
             "mcJPar == " + fn({j: frozenset(d["par"]) for j, d in J.items()}),
             "mcJAlways == " + fn({j: bool(d["always"]) for j, d in J.items()}),
             "mcJCores == " + fn({j: d["cores"] for j, d in J.items()}),
             "mcGParent == " + fn({g: d["parent"] for g, d in p.groups.items()}),
             "mcGUpd == " + fn({g: d["upd"] for g, d in p.groups.items()}),
             "mcGFail == " + fn({g: p.gfail.get(g, 0) for g in [0] + sorted(p.groups)}),
             "===="]
    return "\n".join(lines) + "\n"


def setlit(xs):
    return "{" + ", ".join(tlaval.to_tla(x) for x in xs) + "}"


def mc_cfg(p: Program, avoid=(), invariants=(), properties=(), extra="", spec=None) -> str:
    consts = {
        "Jobs": setlit(sorted(p.jobs)), "Groups": setlit([0] + sorted(p.groups)), "Updates": setlit(p.updates()),
        "JUpd": "<- mcJUpd", "JGrp": "<- mcJGrp", "JPar": "<- mcJPar", "JAlways": "<- mcJAlways", "JCores": "<- mcJCores",
        "GParent": "<- mcGParent", "GUpd": "<- mcGUpd", "GFail": "<- mcGFail", "AttIds": setlit(p.att_ids), "Insts": setlit(p.insts),
        "InstCores": p.inst_cores, "Times": setlit(p.times), "ResQ": p.res_q, "Days": setlit(p.days),
        "Features": setlit(p.features), "Avoid": setlit(avoid),
    }
    return tlc.mk_cfg(constants=consts, invariants=invariants, properties=properties, spec=spec) + extra


def job(upd=1, grp=0, par=(), always=False, cores=1000):
    return dict(upd=upd, grp=grp, par=set(par), always=always, cores=cores)


# ---- the basket of programs -------------------------------------------------------------------------------------------
def programs():
    P = {}
    # one update, two groups, a dependency edge across groups
    P["chain2"] = Program("chain2", {1: job(), 2: job(grp=1, par=[1], cores=250)}, {1: dict(parent=0, upd=1)}, 1)
    # two updates; the child of job 1 arrives in update 2 (the two places readiness is computed)
    P["upd2"] = Program("upd2", {1: job(), 2: job(grp=1, par=[1], cores=250), 3: job(upd=2, grp=1, par=[1])},
                        {1: dict(parent=0, upd=1)}, 2)
    # always-run child, nested groups two deep, sibling group
    P["nest"] = Program("nest", {1: job(grp=2), 2: job(grp=2, par=[1], always=True, cores=250), 3: job(grp=3)},
                        {1: dict(parent=0, upd=1), 2: dict(parent=1, upd=1), 3: dict(parent=0, upd=1)}, 1)
    # diamond with an always-run sink
    P["diamond"] = Program("diamond", {1: job(), 2: job(par=[1], cores=250), 3: job(par=[1]), 4: job(par=[2, 3], always=True)},
                           {}, 1)
    # a group created by update 2 beneath a group of update 1; jobs in both
    P["grp2"] = Program("grp2", {1: job(grp=1), 2: job(upd=2, grp=2, par=[1], cores=250)},
                        {1: dict(parent=0, upd=1), 2: dict(parent=1, upd=2)}, 2)
    # two attempts, two instances: preemption / rescheduling / stale attempts, deactivation
    P["retry"] = Program("retry", {1: job(), 2: job(par=[1], cores=250)}, {}, 1, att_ids=("a1", "a2"), insts=("i1", "i2"),
                         features=("deactivate",), mc_only=True)
    # job-private instances (Creating state)
    P["jpim"] = Program("jpim", {1: job(grp=1), 2: job(grp=1, always=True, cores=250)}, {1: dict(parent=0, upd=1)}, 1,
                        insts=("i1", "i2"), features=("jpim", "deactivate"))
    # billing: one job in a nested group, two attempts, times 0..2, two days
    P["billing"] = Program("billing", {1: job(grp=1)}, {1: dict(parent=0, upd=1)}, 1, att_ids=("a1", "a2"), times=(0, 1, 2),
                           days=(0, 1), features=("billing", "deactivate"), mc_only=True)
    # cleaners and deletion
    P["clean"] = Program("clean", {1: job(grp=1), 2: job(upd=2, grp=1, par=[1], cores=250)}, {1: dict(parent=0, upd=1)}, 2,
                         features=("cleaners", "delete"))
    # ---- small variants for the quick tier ----
    P["nest_s"] = Program("nest_s", {1: job(grp=2), 2: job(grp=1, par=[1], always=True, cores=250)},
                          {1: dict(parent=0, upd=1), 2: dict(parent=1, upd=1)}, 1)
    P["nestc"] = Program("nestc", {1: job(grp=2), 2: job(grp=1, par=[1], always=True, cores=250)},
                         {1: dict(parent=0, upd=1), 2: dict(parent=1, upd=1)}, 1, features=("cleaners",))
    P["alw"] = Program("alw", {1: job(grp=1), 2: job(grp=1, always=True, cores=250)}, {1: dict(parent=0, upd=1)}, 1)
    # two updates with independent jobs (the out-of-order commit scenario needs update 2 to bring ready work of its own)
    P["ooc2"] = Program("ooc2", {1: job(), 2: job(upd=2, cores=250)}, {}, 2)
    P["sib"] = Program("sib", {1: job(grp=1), 2: job(grp=2, cores=250)}, {1: dict(parent=0, upd=1), 2: dict(parent=0, upd=1)}, 1)
    # two independent jobs on two instances: the last two jobs of a batch can complete at the same time without sharing an instance row
    P["sib2i"] = Program("sib2i", {1: job(grp=1), 2: job(cores=250)}, {1: dict(parent=0, upd=1)}, 1, insts=("i1", "i2"))
    P["jpim_s"] = Program("jpim_s", {1: job(grp=1)}, {1: dict(parent=0, upd=1)}, 1, features=("jpim", "deactivate"))
    P["retry_s"] = Program("retry_s", {1: job()}, {}, 1, att_ids=("a1", "a2"), insts=("i1", "i2"), features=("deactivate",))
    P["billing_s"] = Program("billing_s", {1: job(grp=1)}, {1: dict(parent=0, upd=1)}, 1, times=(0, 1), days=(0, 1),
                             features=("billing",))
    P["billing_m"] = Program("billing_m", {1: job(grp=1)}, {1: dict(parent=0, upd=1)}, 1, att_ids=("a1", "a2"), times=(0, 1),
                             days=(0, 1), features=("billing", "deactivate"), mc_only=True)
    # three updates: update 3 is open (its job inserted) while update 2 commits; the recount of commit_batch_update (update >= 2 only)
    P["upd3"] = Program("upd3", {1: job(), 2: job(upd=2, par=[1], cores=250), 3: job(upd=3, par=[1])}, {}, 3)
    # the parent of an update-2 job is Creating (job-private instance) / Running / finished when update 2 commits
    P["jpim_u2"] = Program("jpim_u2", {1: job(), 2: job(upd=2, par=[1], cores=250)}, {}, 2, features=("jpim",))
    # a later-update child of two earlier parents: one already failed, one still running when the update commits
    P["vee2"] = Program("vee2", {1: job(), 2: job(cores=250), 3: job(upd=2, par=[1, 2])}, {}, 2)
    # fail-fast cancellation (cancel_after_n_failures): a group that cancels itself after one failure next to a sibling job;
    # the batch-level limit over a nested group
    P["ff"] = Program("ff", {1: job(grp=1), 2: job(grp=1, cores=250), 3: job()}, {1: dict(parent=0, upd=1)}, 1,
                      features=("failfast",), gfail={1: 1}, mc_only=True)
    P["ff_s"] = Program("ff_s", {1: job(grp=1), 2: job(cores=250)}, {1: dict(parent=0, upd=1)}, 1, features=("failfast",), gfail={1: 1})
    P["ffroot"] = Program("ffroot", {1: job(), 2: job(grp=1, par=[1], always=True, cores=250)}, {1: dict(parent=0, upd=1)}, 1,
                          features=("failfast",), gfail={0: 1, 1: 2})
    for p in P.values():
        p.check()
    return P


# ---- TLC runs (cached: they depend on the specification text and the configuration only) ------------------------------------
def spec_hash():
    h = hashlib.sha256()
    for f in sorted((tlc.SPECS / "batchdb").glob("*.tla")):
        h.update(f.read_bytes())
    return h


def run_tlc(ctx, p: Program, *, avoid=ALL_AVOID, invariants=(), properties=(), dump=False, tag="mc", workers=None, simulate=None,
            depth=None, timeout=3000, spec=None):
    """Returns (TLCResult, workdir). Results of exhaustive runs are cached under build/tlc_cache."""
    name = f"MC_{p.name}"
    mod = mc_module(p, name)
    cfg = mc_cfg(p, avoid, invariants, properties, spec=spec)
    h = spec_hash()
    h.update(mod.encode())
    h.update(cfg.encode())
    h.update(repr((dump, simulate, depth)).encode())
    key = h.hexdigest()[:20]
    cache = BUILD / "tlc_cache" / f"{p.name}-{tag}-{key}"
    if simulate is None and (cache / "done.json").exists():
        meta = json.loads((cache / "done.json").read_text())
        res = tlc.parse_output((cache / f"{name}.out").read_text())
        res.wall_s = meta["wall_s"]
        res.cached = True
        return res, cache
    # computed in a directory of this process and renamed into the cache when complete: checks may run side by side
    import os

    tmp = BUILD / "tlc_cache" / f".tmp-{os.getpid()}-{p.name}-{tag}-{key}"
    wd = tlc.prepare_dir(tmp, ["batchdb"], {f"{name}.tla": mod, f"{name}.cfg": cfg})
    res = tlc.run(wd, name, f"{name}.cfg", workers=workers or min(ctx.workers, 6 if ctx.quick else 12), coverage=False, dump="graph" if dump else None,
                  simulate=simulate, depth=depth, timeout=timeout if ctx.quick else max(timeout, 20000))
    res.cached = False
    if simulate is None:
        (wd / "done.json").write_text(json.dumps({"wall_s": res.wall_s}))
        try:
            if cache.exists():
                shutil.rmtree(cache, ignore_errors=True)
            os.rename(wd, cache)
            wd = cache
        except OSError:
            pass            # another process published the same result meanwhile: keep using our own copy
    return res, wd


# ---- the implementation side -----------------------------------------------------------------------------------------------
class Impl:
    """The real code (BatchWorld) positioned at BatchDB's initial state for a program."""

    @classmethod
    def attach(cls, other, seed=0):
        """a second service process working on the database of `other` (used for overlapping transactions)"""
        from vlib.batchenv import BatchWorld

        self = cls.__new__(cls)
        self.p, self.b, self.day0 = other.p, other.b, other.day0
        self.w = BatchWorld(seed=seed, eng=other.w.eng)
        self.results, self.sqlerrors = [], []
        return self

    def __init__(self, p: Program, seed=0, repo=None):
        from vlib.batchenv import BatchWorld

        self.p = p
        self.w = BatchWorld(seed=seed, repo=repo)
        r = self.w.create_batch("tok-batch", **({"cancel_after_n_failures": p.gfail[0]} if p.gfail.get(0) else {}))
        assert r.kind == "ok", r
        self.b = r.value
        for i in p.insts:
            self.w.add_instance(i, cores_mcpu=p.inst_cores, state="pending")
        self.day0 = self.w.eng.utc_date
        self.results = []      # (action, Result) for calls that must be answered normally
        self.sqlerrors = []

    def close(self):
        self.w.close()

    # -- specs for the front end -----------------------------------------------------------------------------------------
    def job_spec(self, j):
        d = self.p.jobs[j]
        u = d["upd"]
        cpu = {250: "0.25", 500: "0.5", 1000: "1", 2000: "2"}[d["cores"]]
        return {"job_id": j - self.p.start_job(u) + 1, "absolute_parent_ids": sorted(d["par"]), "always_run": bool(d["always"]),
                "absolute_job_group_id": d["grp"],
                "process": {"type": "docker", "image": "img", "command": ["true"]},
                "resources": {"cpu": cpu, "memory": "standard", "storage": "1Gi"}}

    def group_spec(self, g):
        d = self.p.groups[g]
        spec = {"job_group_id": g - self.p.start_group(d["upd"]) + 1, "absolute_parent_id": d["parent"]}
        if self.p.gfail.get(g):
            spec["cancel_after_n_failures"] = self.p.gfail[g]
        return spec

    def inst_of(self, j, a):
        rows = self.w.rows("attempts", batch_id=self.b, job_id=j, attempt_id=a)
        return rows[0]["instance_name"] if rows else None

    # -- one BatchDB action -------------------------------------------------------------------------------------------------
    def apply(self, name, args):
        w, b, p = self.w, self.b, self.p
        r = None
        must_answer = False
        if name == "CreateUpdate":
            (u,) = args
            r = w.create_update(b, f"tok-u{u}", len(p.ujobs(u)), len(p.ugroups(u)))
        elif name == "InsertGroup":
            (g,) = args
            r = w.create_job_groups(b, p.groups[g]["upd"], [self.group_spec(g)])
        elif name == "InsertJob":
            (j,) = args
            r = w.create_jobs(b, p.jobs[j]["upd"], [self.job_spec(j)])
        elif name == "Commit":
            r = w.commit(b, args[0])
        elif name == "CancelGroup":
            r = w.cancel_job_group(b, args[0])
        elif name == "MarkDeleted":
            r = w.delete_batch(b)
        elif name in ("SchedSelect", "JpimSelect"):
            r = None  # the driver's in-memory decision; the dispatch itself writes nothing
        elif name == "ScheduleProc":
            j, a, i = args
            r = w.schedule_job(b, j, a, i)
            must_answer = True
        elif name == "Started":
            j, a, i, t = args
            r = w.mark_job_started(b, j, a, i, t)
            must_answer = True
        elif name == "CreatingProc":
            j, a, i, t = args
            r = w.mark_job_creating(b, j, a, i, t)
            must_answer = True
        elif name == "Complete":
            j, a, i, st, t0, t1 = args
            r = w.mark_job_complete(b, j, a, i, st, t0, t1, "completed")
        elif name in ("CancelReadySelect", "CancelCreatingSelect", "CancelRunningSelect", "OrphanSelect", "FailFastSelect"):
            r = None  # the loop body's query: the call it queues is a separate step
        elif name == "FailFastCall":
            r = w.driver_cancel_job_group(b, args[0])     # driver/main.py _cancel_job_group
        elif name == "CancelReadyCall":
            (j,) = args
            r = w.mark_job_complete(b, j, None, None, "Cancelled", None, None, "cancelled")
        elif name == "CancelCreatingCall":
            j, a, t = args
            r = w.mark_job_complete(b, j, a, self.inst_of(j, a), "Cancelled", None, t, "cancelled")
        elif name == "UnscheduleCall":
            j, a, t = args
            r = w.unschedule_job(b, j, a, self.inst_of(j, a), t)
        elif name == "Activate":
            r = w.activate_instance(args[0])
        elif name == "Deactivate":
            i, t = args
            r = w.call("CALL deactivate_instance(%s, %s, %s);", (i, "deactivated", t))
        elif name == "Heartbeat":
            j, a, t = args
            r = w.run(w.db.execute_update(
                "\nUPDATE attempts\nSET rollup_time = %s\nWHERE (batch_id = %s AND job_id = %s AND attempt_id = %s);\n", (t, b, j, a)))
        elif name == "AddResources":
            j, a = args
            r = w.add_attempt_resources(b, j, a, p.res_q)
        elif name == "NextDay":
            w.eng.utc_date = f"2026-01-{int(w.eng.utc_date[-2:]) + 1:02d}"
        elif name == "CleanStaging":
            r = w.clean_staging()
        elif name == "CleanCancellable":
            r = w.clean_cancellable()
        else:
            raise RuntimeError(f"unknown action {name}")
        if r is not None and r.kind == "sqlerror":
            self.sqlerrors.append((name, tuple(args), r.status, r.reason))
        return r

    # -- projection of the tables to BatchDB's variables ------------------------------------------------------------------
    def project(self):
        w, b, p = self.w, self.b, self.p
        G = [0] + sorted(p.groups)
        U = p.updates()
        st = {}
        upd = {r["update_id"]: r for r in w.rows("batch_updates", batch_id=b)}
        st["us"] = {u: ("none" if u not in upd else ("committed" if upd[u]["committed"] else "open")) for u in U}
        jg = {r["job_group_id"]: r for r in w.rows("job_groups", batch_id=b)}
        st["gex"] = {g: g in jg for g in G}
        st["gst"] = {g: (jg[g]["state"] if g in jg else "complete") for g in G}
        st["gnj"] = {g: (jg[g]["n_jobs"] if g in jg else 0) for g in G}
        st["canc"] = frozenset(r["job_group_id"] for r in w.rows("job_groups_cancelled", id=b))
        br = w.rows("batches", id=b)[0]
        st["bst"], st["bnj"], st["bdel"] = br["state"], br["n_jobs"], bool(br["deleted"])
        jobs = {r["job_id"]: r for r in w.rows("jobs", batch_id=b)}
        st["js"] = {j: (jobs[j]["state"] if j in jobs else "none") for j in p.jobs}
        st["jc"] = {j: bool(jobs[j]["cancelled"]) if j in jobs else False for j in p.jobs}
        st["npp"] = {j: (jobs[j]["n_pending_parents"] if j in jobs else 0) for j in p.jobs}
        st["jatt"] = {j: ((jobs[j]["attempt_id"] or "NULL") if j in jobs else "NULL") for j in p.jobs}
        extra_jobs = set(jobs) - set(p.jobs)
        tl = {r["job_group_id"]: r for r in w.rows("job_groups_n_jobs_in_complete_states", id=b)}
        st["tally"] = {g: (dict(c=tl[g]["n_completed"], s=tl[g]["n_succeeded"], f=tl[g]["n_failed"], x=tl[g]["n_cancelled"])
                           if g in tl else dict(c=0, s=0, f=0, x=0)) for g in G}
        stg = {u: {g: dict(nj=0, nr=0, rcores=0) for g in G} for u in U}
        for r in w.rows("job_groups_inst_coll_staging", batch_id=b):
            d = stg[r["update_id"]][r["job_group_id"]]
            d["nj"] += r["n_jobs"]
            d["nr"] += r["n_ready_jobs"]
            d["rcores"] += r["ready_cores_mcpu"]
        st["stg"] = stg
        cr = {u: {g: dict(r=0, rcores=0, c=0, x=0, xcores=0) for g in G} for u in U}
        for r in w.rows("job_group_inst_coll_cancellable_resources", batch_id=b):
            d = cr[r["update_id"]][r["job_group_id"]]
            d["r"] += r["n_ready_cancellable_jobs"]
            d["rcores"] += r["ready_cancellable_cores_mcpu"]
            d["c"] += r["n_creating_cancellable_jobs"]
            d["x"] += r["n_running_cancellable_jobs"]
            d["xcores"] += r["running_cancellable_cores_mcpu"]
        st["cr"] = cr
        ur = dict(r=0, rcores=0, x=0, xcores=0, c=0, cr=0, cx=0, cc=0)
        for r in w.rows("user_inst_coll_resources", user="u1"):
            ur["r"] += r["n_ready_jobs"]
            ur["rcores"] += r["ready_cores_mcpu"]
            ur["x"] += r["n_running_jobs"]
            ur["xcores"] += r["running_cores_mcpu"]
            ur["c"] += r["n_creating_jobs"]
            ur["cr"] += r["n_cancelled_ready_jobs"]
            ur["cx"] += r["n_cancelled_running_jobs"]
            ur["cc"] += r["n_cancelled_creating_jobs"]
        st["ur"] = ur
        att = {j: {a: dict(ex=False, inst="NULL", st=NULLT, ru=NULLT, en=NULLT, rs="NULL") for a in p.att_ids} for j in p.jobs}
        extra_att = []
        for r in w.rows("attempts", batch_id=b):
            if r["job_id"] in att and r["attempt_id"] in att[r["job_id"]]:
                n = lambda v: NULLT if v is None else v  # noqa: E731
                att[r["job_id"]][r["attempt_id"]] = dict(ex=True, inst=r["instance_name"] or "NULL", st=n(r["start_time"]),
                                                         ru=n(r["rollup_time"]), en=n(r["end_time"]), rs=r["reason"] or "NULL")
            else:
                extra_att.append((r["job_id"], r["attempt_id"]))
        st["att"] = att
        ares = {j: {a: False for a in p.att_ids} for j in p.jobs}
        for r in w.rows("attempt_resources", batch_id=b):
            if r["job_id"] in ares and r["attempt_id"] in ares[r["job_id"]]:
                ares[r["job_id"]][r["attempt_id"]] = True
        st["ares"] = ares
        inst = {}
        free = {r["name"]: r["free_cores_mcpu"] for r in w.rows("instances_free_cores_mcpu")}
        for r in w.rows("instances"):
            if r["name"] in p.insts:
                inst[r["name"]] = dict(st=r["state"], free=free.get(r["name"]))
        st["inst"] = inst
        ujob = {j: 0 for j in p.jobs}
        for r in w.rows("aggregated_job_resources_v3", batch_id=b):
            if r["job_id"] in ujob:
                ujob[r["job_id"]] += r["usage"]
        st["ujob"] = ujob
        ugrp = {g: 0 for g in G}
        for r in w.rows("aggregated_job_group_resources_v3", batch_id=b):
            ugrp[r["job_group_id"]] += r["usage"]
        st["ugrp"] = ugrp
        st["ubp"] = sum(r["usage"] for r in w.rows("aggregated_billing_project_user_resources_v3"))
        ud = {d: 0 for d in p.days}
        for r in w.rows("aggregated_billing_project_user_resources_by_date_v3"):
            d = int(str(r["billing_date"])[-2:]) - int(self.day0[-2:])
            ud[d] = ud.get(d, 0) + r["usage"]
        st["udate"] = ud
        st["today"] = int(w.eng.utc_date[-2:]) - int(self.day0[-2:])
        if extra_jobs or extra_att:
            st["_extra"] = dict(jobs=sorted(extra_jobs), attempts=extra_att)
        return st


COMPARE = ["us", "gex", "gst", "gnj", "canc", "bst", "bnj", "bdel", "js", "jc", "npp", "jatt", "tally", "stg", "cr", "ur", "att",
           "ares", "inst", "ujob", "ugrp", "ubp", "udate", "today"]


def norm(v):
    """TLA+ value (tlaval) -> plain python comparable with Impl.project()."""
    if isinstance(v, dict):
        return {(int(k) if isinstance(k, int) else str(k)): norm(x) for k, x in v.items()}
    if isinstance(v, tuple):
        # functions with domain 1..n are printed as sequences
        return {i + 1: norm(x) for i, x in enumerate(v)}
    if isinstance(v, frozenset):
        return frozenset(norm(x) for x in v)
    if isinstance(v, tlaval.Sym):
        return str(v)
    return v


def spec_view(st):
    return {k: norm(st[k]) for k in COMPARE if k in st}


def diff(exp, got, prefix=""):
    out = {}
    if isinstance(exp, dict) and isinstance(got, dict):
        for k in set(exp) | set(got):
            if k not in exp or k not in got:
                out[f"{prefix}{k}"] = {"spec": exp.get(k), "impl": got.get(k)}
            else:
                out.update(diff(exp[k], got[k], f"{prefix}{k}."))
    elif exp != got:
        out[prefix.rstrip(".")] = {"spec": exp, "impl": got}
    return out


def replay_trace(p: Program, labels, states=None, seed=0, repo=None):
    """Apply a sequence of action labels to a fresh implementation. Returns (impl_states, mismatch or None, impl)."""
    impl = Impl(p, seed=seed, repo=repo)
    out = [impl.project()]
    mism = None
    for k, lab in enumerate(labels):
        name, args = tlc.parse_action_label(lab)
        impl.apply(name, [norm(a) if not isinstance(a, (int, str)) else (str(a) if isinstance(a, tlaval.Sym) else a) for a in args])
        got = impl.project()
        out.append(got)
        if states is not None and mism is None:
            d = diff(spec_view(states[k + 1]), {x: got[x] for x in COMPARE})
            if d:
                mism = dict(step=k + 1, label=lab, diff=d)
    return out, mism, impl


def selection_expected(p: Program, st):
    """The enabling predicates of BatchDB's loop actions, evaluated on a projected state (cross-checked against the graph)."""
    def grpcanc(g):
        return any(a in st["canc"] for a in p.anc(g))
    ur = st["ur"]
    exp = {"cancel_ready": set(), "cancel_creating": set(), "cancel_running": set(), "orphan": set(), "schedule": set(), "failfast": set()}
    for g in [0] + sorted(p.groups):
        if st["gex"][g] and st["gst"][g] == "running" and not grpcanc(g) and p.gfail.get(g) and st["tally"][g]["f"] >= p.gfail[g]:
            exp["failfast"].add((g,))
    for j, d in p.jobs.items():
        s, g, al, jc = st["js"][j], d["grp"], d["always"], st["jc"][j]
        if s == "none":
            continue
        running_grp = st["gst"][g] == "running"
        if s == "Ready" and running_grp and (al or (not grpcanc(g) and not jc)) and ur["r"] + ur["x"] > 0 and ur["rcores"] > 0:
            exp["schedule"].add((j,))
        if ur["cr"] > 0 and s == "Ready" and running_grp and not al and (grpcanc(g) or jc):
            exp["cancel_ready"].add((j,))
        for a, at in st["att"][j].items():
            if not at["ex"]:
                continue
            if ur["cc"] > 0 and s == "Creating" and running_grp and grpcanc(g) and not al and not jc:
                exp["cancel_creating"].add((j, a))
            if ur["cx"] > 0 and s == "Running" and running_grp and grpcanc(g) and not al and not jc:
                exp["cancel_running"].add((j, a))
            ja = st["jatt"][j]
            if at["st"] != NULLT and at["en"] == NULLT and (s not in ("Running", "Creating") or (ja != "NULL" and ja != a)) \
                    and st["inst"].get(at["inst"], {}).get("st") == "active":
                exp["orphan"].add((j, a))
    return exp


EDGE_LOOP = {"CancelReadySelect": "cancel_ready", "CancelCreatingSelect": "cancel_creating", "CancelRunningSelect": "cancel_running",
             "OrphanSelect": "orphan", "SchedSelect": "schedule", "FailFastSelect": "failfast"}


def check_selection_at(p, impl, got, out_edges, path):
    """Returns a list of problems: real loop bodies vs predicates; predicates vs the graph's enabled loop actions."""
    problems = []
    exp = selection_expected(p, got)
    real = impl.w.driver_selection()
    for loop in exp:
        r = real[loop]
        if not isinstance(r, set):
            problems.append(dict(kind="loop-error", loop=loop, result=repr(r), path=list(path)))
        elif r != exp[loop]:
            problems.append(dict(kind="selection", loop=loop, code_selects=sorted(r), spec_enables=sorted(exp[loop]), path=list(path)))
    # the python predicates must agree with TLC's own evaluation of the actions' guards on this node
    by_loop = {v: set() for v in EDGE_LOOP.values()}
    for lab, _dst in out_edges:
        name, args = tlc.parse_action_label(lab)
        if name in EDGE_LOOP:
            args = [str(a) if isinstance(a, tlaval.Sym) else a for a in args]
            by_loop[EDGE_LOOP[name]].add((args[0],) if name in ("CancelReadySelect", "SchedSelect", "FailFastSelect") else (args[0], args[1]))
    for loop, s in by_loop.items():
        if not s <= exp[loop]:       # (a select is not enabled for a row whose call is still pending, or without a free attempt id)
            raise RuntimeError(f"harness predicate for {loop} disagrees with the specification: graph {sorted(s)} vs predicate {sorted(exp[loop])}")
    return problems


def prioritised(graph, walks, covered):
    """Order in which the edge-cover walks are executed when the time budget may not reach all of them: lazily greedy on the number
    of not yet exercised edge CLASSES per step, a class being (action, first argument, job states, update states of the source
    state) -- e.g. `Commit(2) while job 1 is Creating` is exercised early although thousands of Heartbeat/Complete edges exist.
    When every class reachable by the remaining walks is exercised, the rest follow in the given (random) order."""
    import heapq

    lab_cache = {}
    node_cache = {}

    def cls(e):
        s, l, _d = e
        k = lab_cache.get(l)
        if k is None:
            name, args = tlc.parse_action_label(l)
            k = lab_cache[l] = (name, repr(args[0]) if args else "")
        n = node_cache.get(s)
        if n is None:
            nd = graph.nodes[s]
            n = node_cache[s] = (repr(nd.get("js")), repr(nd.get("us")), repr(nd.get("canc")))
        return k + n

    # class-targeted walks first: for every class one representative edge (a shallowest one) reached by a shortest path; they are
    # short and share prefixes, so all classes of a graph are exercised in a small multiple of (classes x depth) steps
    out = graph.out_edges()
    parent, depth = {}, {}
    for root in graph.init:
        parent[root], depth[root] = None, 0
        level = [root]
        while level:
            nxt = []
            for u in level:
                for (lab, v) in sorted(out.get(u, ())):
                    if v not in parent:
                        parent[v], depth[v] = (u, lab), depth[u] + 1
                        nxt.append(v)
            level = nxt
    rep = {}
    for e in graph.edges:
        if e[0] not in depth:
            continue
        c = cls(e)
        if c not in rep or depth[e[0]] < depth[rep[c][0]]:
            rep[c] = e
    targeted = []
    for e in rep.values():
        pth, u = [], e[0]
        while parent[u] is not None:
            pu, lab = parent[u]
            pth.append((pu, lab, u))
            u = pu
        pth.reverse()
        targeted.append(pth + [e])
    walks = targeted + list(walks)
    wcls = [frozenset(cls(e) for e in wk) for wk in walks]
    seen = set()
    heap = [(-len(c) / max(1, len(walks[i])), i) for i, c in enumerate(wcls)]
    heapq.heapify(heap)
    done = [False] * len(walks)
    while heap:
        _neg, i = heapq.heappop(heap)
        gain = len(wcls[i] - seen) / max(1, len(walks[i]))
        if gain <= 0:
            break
        if heap and gain < -heap[0][0]:
            heapq.heappush(heap, (-gain, i))
            continue
        done[i] = True
        seen |= wcls[i]
        yield walks[i]
    for i, wk in enumerate(walks):
        if not done[i]:
            yield wk


def _edge_class_fn(graph):
    """class of an edge: the whole action label and, of the source state, the job states, cancelled flags, pending-parent counts,
    update states, cancelled groups and instance states"""
    node_cache = {}

    def cls(e):
        s, l, _d = e
        n = node_cache.get(s)
        if n is None:
            nd = graph.nodes[s]
            inst = nd.get("inst")
            n = node_cache[s] = (repr(nd.get("js")), repr(nd.get("us")), repr(nd.get("canc")), repr(nd.get("jc")), repr(nd.get("npp")),
                                 repr(sorted((str(k), str(v.get("st"))) for k, v in inst.items())) if isinstance(inst, dict) else "")
        return (l,) + n

    return cls


def replay_class_tree(p: Program, graph: tlc.Graph, *, seed=0, deadline=None, covered=None, all_edges=False, adapter=None, on_node=None):
    # on_node(impl, node, observed, path) -> list of mismatch dicts: extra checks in every newly reached state (selection queries, compaction)
    # adapter (optional; used by the in-memory stage of C10 / C39): dict with make(p, seed) -> impl, apply(impl, label), expect(node) -> dict,
    # observe(impl) -> dict, save(impl) -> state, load(impl, state); default: Impl / COMPARE / the database only
    """One representative edge (a shallowest one) of every edge CLASS - (action, first argument, job / update / cancellation state of
    the source) - executed on the real code, by a depth-first traversal of the breadth-first tree that rewinds the database in place
    (Engine.save_state / load_state) instead of replaying prefixes: every tree node and every representative edge is executed once.
    Returns (steps, classes done, classes total, mismatches, sqlerrors)."""
    cls = _edge_class_fn(graph)
    out = graph.out_edges()
    parent, depth, children = {}, {}, {}
    for root in graph.init:
        parent[root], depth[root] = None, 0
        level = [root]
        while level:
            nxt = []
            for u in level:
                for (lab, v) in sorted(out.get(u, ())):
                    if v not in parent:
                        parent[v], depth[v] = (u, lab), depth[u] + 1
                        children.setdefault(u, []).append((lab, v))
                        nxt.append(v)
            level = nxt
    rep = {}
    if all_edges:
        # second pass: every edge not exercised yet, in a random order of the tree's branches
        rng = random.Random(seed)
        rep = {e: e for e in set(graph.edges) if e[0] in depth and (covered is None or e not in covered)}
        for u in children:
            rng.shuffle(children[u])
    else:
        for e in graph.edges:
            if e[0] in depth:
                c = cls(e)
                if c not in rep or (depth[e[0]], e) < (depth[rep[c][0]], rep[c]):
                    rep[c] = e
    by_src = {}
    for e in rep.values():
        by_src.setdefault(e[0], []).append(e)
    needed = set()
    for src in by_src:
        u = src
        while u is not None and u not in needed:
            needed.add(u)
            u = parent[u][0] if parent[u] is not None else None
    covered = covered if covered is not None else set()
    mism, steps, done = [], 0, 0
    replay_class_tree.paths = 0
    if adapter is None:
        def _apply(impl, lab):
            name, args = tlc.parse_action_label(lab)
            impl.apply(name, [str(a) if isinstance(a, tlaval.Sym) else a for a in args])

        def _observe(impl):
            got = impl.project()
            o = {x: got[x] for x in COMPARE}
            if "_extra" in got:
                o["_extra"] = got["_extra"]
            return o

        adapter = {"make": lambda p_, seed_: Impl(p_, seed=seed_), "apply": _apply, "expect": spec_view, "observe": _observe,
                   "save": lambda impl: impl.w.eng.save_state(), "load": lambda impl, st: impl.w.eng.load_state(st)}
    impl = adapter["make"](p, seed)
    try:
        root = graph.init[0]
        got = adapter["observe"](impl)
        d0 = diff(adapter["expect"](graph.nodes[root]), {k: v for k, v in got.items() if k != "_extra"})
        if d0:
            return 0, 0, len(rep), [dict(path=[], label="<init>", diff=d0)], []
        # explicit stack: (node, path labels, saved state, iterator over work items)
        def work(u):
            items = [("rep", e[1], e[2]) for e in sorted(by_src.get(u, ()))]
            items += [("tree", lab, v) for lab, v in children.get(u, ()) if v in needed]
            return iter(items)

        stack = [(root, [], adapter["save"](impl), work(root))]
        while stack and len(mism) < 3:
            if deadline is not None and time.time() > deadline:
                break
            u, path, saved, it = stack[-1]
            item = next(it, None)
            if item is None:
                stack.pop()
                continue
            kind, lab, v = item
            adapter["load"](impl, saved)
            del impl.w.crashes[:]
            adapter["apply"](impl, lab)
            steps += 1
            covered.add((u, lab, v))
            got = adapter["observe"](impl)
            d = diff(adapter["expect"](graph.nodes[v]), {k: x for k, x in got.items() if k != "_extra"})
            if "_extra" in got:
                d["_extra"] = got["_extra"]
            if impl.w.crashes:
                d["_crash"] = {"exception": impl.w.crashes[-1].reason}
            if d:
                mism.append(dict(path=path + [lab], label=lab, diff=d))
                continue
            if kind == "rep":
                done += 1
                replay_class_tree.paths += 1        # a path from the initial state ending with this edge was executed and compared
            else:
                if on_node is not None:
                    # extra checks in the newly reached state; what they do to the tables (compaction of the billing shards: same
                    # totals, other rows) is kept, so that the following steps also run on compacted tables
                    extra = on_node(impl, v, got, path + [lab])
                    if extra:
                        mism.extend(extra)
                        continue
                stack.append((v, path + [lab], adapter["save"](impl), work(v)))
        sqlerrs = [dict(path=[], error=e) for e in impl.sqlerrors]
    finally:
        impl.close()
    return steps, done, len(rep), mism, sqlerrs


def replay_graph(ctx, p: Program, graph: tlc.Graph, *, seed=0, max_steps=None, footprint=None, deadline=None, check_selection=False):
    """Edge-cover walks of the TLC graph on the real code; full-state comparison after every step.
    Returns stats and a list of mismatches (dicts)."""
    rng = random.Random(seed)
    walks = walk.cover_walks(graph, rng=rng)
    rng.shuffle(walks)
    steps = 0
    covered = set()
    mism = []
    sqlerrs = []
    nwalks = 0
    t0 = time.time()
    # first every edge class once (rewinding traversal), then edge-cover walks for the remaining time
    span = None if deadline is None else max(0.0, deadline - t0)
    # (the class pass may overrun the program's share of the budget on a slow machine: what a check detects must not depend on load)
    cdl = None if deadline is None else t0 + 2.5 * span
    out_edges = graph.out_edges() if check_selection else {}
    sel_checked = set()
    sel_problems = []

    def on_node(impl, node, got, path):
        bad = []
        if "billing" in p.features:
            # C02: compacting the sharded billing tables (real driver.main functions) never changes any total
            r1, r2 = impl.w.compact_billing()
            after = impl.project()
            dc = diff({x: got[x] for x in COMPARE if x in got}, {x: after[x] for x in COMPARE})
            if dc or r1.kind != "ok" or r2.kind != "ok":
                bad.append(dict(path=list(path) + ["<compact>"], label="Compact", diff=dc or {"ubp": {"error": repr((r1, r2))}}))
        if check_selection and node not in sel_checked:
            sel_checked.add(node)
            full = impl.project()
            sel_problems.extend(check_selection_at(p, impl, full, out_edges.get(node, ()), path))
        return bad

    csteps, cdone, ctotal, cmism, cerrs = replay_class_tree(p, graph, seed=seed, deadline=cdl, covered=covered,
                                                            on_node=on_node if (check_selection or "billing" in p.features) else None)
    npaths = replay_class_tree.paths
    steps += csteps
    mism += cmism
    sqlerrs += cerrs
    class_stats = {"edge_classes": ctotal, "edge_classes_exercised": cdone, "class_steps": csteps}
    if not mism:
        # then every remaining edge, by the same rewinding traversal, until three quarters of the budget are used
        edl = None if deadline is None else t0 + 0.75 * span
        esteps, _edone, _etotal, emism, eerrs = replay_class_tree(p, graph, seed=seed + 1, deadline=edl, covered=covered, all_edges=True)
        npaths += replay_class_tree.paths
        steps += esteps
        mism += emism
        sqlerrs += eerrs
        class_stats["rewinding_steps"] = csteps + esteps
    class_stats["rewinding_paths"] = npaths
    for wk in prioritised(graph, walks, covered):
        if mism:
            break
        if max_steps is not None and steps >= max_steps:
            break
        if deadline is not None and time.time() > deadline:
            break
        if all((s, l, d) in covered for s, l, d in wk):
            continue
        nwalks += 1
        impl = Impl(p, seed=seed + nwalks)
        try:
            got = impl.project()
            d0 = diff(spec_view(graph.nodes[wk[0][0]]), {x: got[x] for x in COMPARE}) if wk else {}
            if d0:
                mism.append(dict(path=[], label="<init>", diff=d0))
                break
            path = []
            for (src, lab, dst) in wk:
                name, args = tlc.parse_action_label(lab)
                path.append(lab)
                impl.apply(name, [str(a) if isinstance(a, tlaval.Sym) else a for a in args])
                steps += 1
                covered.add((src, lab, dst))
                got = impl.project()
                d = diff(spec_view(graph.nodes[dst]), {x: got[x] for x in COMPARE})
                if "_extra" in got:
                    d["_extra"] = got["_extra"]
                if impl.w.crashes:
                    d["_crash"] = {"exception": impl.w.crashes[-1].reason}
                if d:
                    mism.append(dict(path=list(path), label=lab, diff=d))
                    break
                if "billing" in p.features and steps % 3 == 0:
                    # C02: compacting the sharded billing tables (real driver.main functions) never changes any total
                    r1, r2 = impl.w.compact_billing()
                    after = impl.project()
                    dc = diff({x: got[x] for x in COMPARE}, {x: after[x] for x in COMPARE})
                    if dc or r1.kind != "ok" or r2.kind != "ok":
                        mism.append(dict(path=list(path) + ["<compact>"], label="Compact", diff=dc or {"ubp": {"error": repr((r1, r2))}}))
                        break
                if check_selection and dst not in sel_checked:
                    sel_checked.add(dst)
                    sel_problems.extend(check_selection_at(p, impl, got, out_edges.get(dst, ()), path))
            for e in impl.sqlerrors:
                sqlerrs.append(dict(path=list(path), error=e))
        finally:
            impl.close()
        if len(mism) >= 3:
            break
    stats = dict(walks=nwalks, steps=steps, edges_covered=len(covered), edges=len(set(graph.edges)), nodes=len(graph.nodes),
                 wall_s=round(time.time() - t0, 1), **class_stats)
    if check_selection:
        stats["states_with_selection_checked"] = len(sel_checked)
        stats["selection_problems"] = sel_problems[:5]
        stats["n_selection_problems"] = len(sel_problems)
    return stats, mism, sqlerrs


# ---- the verdict for one listed property -----------------------------------------------------------------------------------
FOOTPRINT = {
    "C01": {"ur", "cr", "stg", "js", "jc", "us", "canc", "gex"},
    "C02": {"ujob", "ugrp", "ubp", "udate", "att", "ares", "today"},
    "C04": {"js", "tally", "jatt"},
    "C05": {"js", "jc", "npp"},
    "C06": {"bst", "bnj", "gst", "gnj", "tally", "js", "us", "gex"},
    "C07": {"js", "jc", "canc", "gex", "ur", "cr"},
    "C08": {"js", "npp", "jc", "us", "bst", "gst"},
    "C09": {"us", "bnj", "gnj", "bst", "gst", "js", "ur", "stg"},
    "C10": {"inst", "att"},
    "C41": {"us", "js", "jatt", "ur", "tally", "bst", "gst", "bnj", "gnj", "stg", "jc", "npp"},
    "C39": {"js", "jatt", "att", "bst", "gst", "canc", "ur", "jc", "npp", "inst", "tally"},
}

FINDING_TEXT = {
    "ooc": "an update can be committed while an earlier update of the same batch is still open (commits are not ordered): "
           "its commit re-opens the batch, jobs of the open update become schedulable and are counted",
    "toctou": "commit_batch_update can run after the root job group was cancelled (the handler's cancelled pre-check and the "
              "procedure call are separate transactions; the fast paths have no check): cancelled staged jobs are counted as ready",
    "uncchild": "mark_job_complete decrements n_pending_parents of children that belong to an update which is not committed: "
                "they become Ready, are counted, scheduled and completed before their update is committed",
    "pendrel": "an attempt that ends while its instance is still pending does not give its cores back until the instance is deactivated",
}


def run_property(ctx, pid, invariants, properties, quick_programs, thorough_programs, findings=(), budget_quick=45, budget_thorough=600,
                 check_selection=False, b2=True, merge=False, overlap=None):
    """merge=True: this is an additional stage of a check that has its own coverage summary (numbers are added, the rule is kept)."""
    P = programs()
    names = quick_programs if ctx.quick else thorough_programs
    budget = budget_quick if ctx.quick else budget_thorough
    foot = FOOTPRINT[pid]
    t_start = time.time()
    per_prog = budget / max(1, len(names))
    total_steps = 0
    total_edges = 0
    for n in names:
        p = P[n]
        # (1) the property on the specification, every recorded scenario avoided
        res, wd = run_tlc(ctx, p, avoid=ALL_AVOID, invariants=["TypeOK"] + list(invariants), properties=list(properties),
                          dump=not p.mc_only)
        ctx.add_tlc(res, f"BatchDB program {n}: exhaustive, invariants {list(invariants)}, action properties {list(properties)}"
                         + (" (TLC result cached from an earlier run of the same spec+config)" if getattr(res, "cached", False) else ""))
        for v in res.violations:
            labels = [h for h, _s in v.trace[1:]]
            states = [s for _h, s in v.trace]
            _impl_states, mism, impl = replay_trace(p, labels, states, seed=ctx.seed)
            impl.close()
            detail = {"program": n, "invariant": v.name, "trace": labels, "impl_conforms": mism is None, "mismatch": mism}
            if mism is None:
                ctx.violation(f"batchdb:{v.name}:{n}", detail)
            else:
                raise RuntimeError(f"specification violates {v.name} on program {n} but the code does not follow the trace: {detail}")
        if res.violations or p.mc_only:
            continue
        # (2) B1: the code has the specification's transition relation on this graph
        g = tlc.parse_dot(wd / "graph.dot")
        stats, mism, sqlerrs = replay_graph(ctx, p, g, seed=ctx.seed, deadline=time.time() + per_prog,
                                            check_selection=(n in check_selection) if isinstance(check_selection, (set, frozenset, list, tuple)) else check_selection)
        for sp in stats.pop("selection_problems", []):
            ctx.violation(f"selection:{sp.get('loop')}:{sp['kind']}", {"program": n, **sp})
        total_steps += stats["steps"]
        total_edges += stats["edges_covered"]
        ctx.cov.setdefault("graph_replay", []).append({"program": n, **stats})
        for m in mism:
            keys = sorted(m["diff"])
            touched = sorted({k.split(".")[0] for k in keys})
            act = tlc.parse_action_label(m["label"])[0] if m["label"] not in ("<init>", "Compact") else m["label"].strip("<>")
            if "_crash" in touched:
                ctx.violation(f"crash:{act}:{m['diff']['_crash']['exception'].split(':')[0]}", {"program": n, "path": m["path"], "diff": m["diff"]})
            elif foot & set(touched) or "_extra" in touched:
                ctx.violation(f"replay:{act}:{','.join(t for t in touched if t in foot or t == '_extra')}",
                              {"program": n, "path": m["path"], "diff": m["diff"]})
            else:
                ctx.note(f"program {n}: the code departs from BatchDB at {m['label']} on variables {touched} that {pid} does not read "
                         f"(path {m['path']})")
        if pid == "C07":
            for e in sqlerrs:
                if e["error"][0] in ("ScheduleProc", "Started", "CreatingProc"):
                    ctx.violation(f"sqlerror:{e['error'][0]}:{e['error'][2]}", {"program": n, **e})
        if g.edges:
            k = (ctx.seed * 7 + len(n)) % len(g.edges)
            ctx.sample({"program": n, "edge": g.edges[k][1], "target_state": {x: tlaval.to_py(g.nodes[g.edges[k][2]][x]) for x in sorted(foot) if x in g.nodes[g.edges[k][2]]}})
    # (3) recorded findings: reproduce each through the specification and the code
    for f, prog, finv in findings:
        p = P[prog]
        avoid = tuple(a for a in ALL_AVOID if a != f)
        res, wd = run_tlc(ctx, p, avoid=avoid, invariants=list(finv), properties=[], dump=False, tag=f"find-{f}")
        ctx.add_tlc(res, f"finding {f}: program {prog} with scenario {f} allowed")
        if not res.violations:
            ctx.note(f"finding {f}: the specification no longer violates {list(finv)} when the scenario is allowed")
            continue
        v = res.violations[0]
        labels = [h for h, _s in v.trace[1:]]
        states = [s for _h, s in v.trace]
        _st, mism, impl = replay_trace(p, labels, states, seed=ctx.seed)
        impl.close()
        if mism is None:
            ctx.violation(f"finding:{f}:{pid}", {"finding": f, "text": FINDING_TEXT[f], "program": prog, "violated": v.name, "history": labels})
        else:
            ctx.note(f"finding {f} was not reproduced on the code (it departs from the recorded history at step {mism['step']} {mism['label']}: "
                     f"{sorted(mism['diff'])}); if it was repaired, move the entry of known_findings.json to kind=fixed")
    # (4) B2: random histories of the real code on larger programs, validated by TLC (all of this property's formulas at every step)
    BP = big_programs()
    b2 = ([("big5", 25, 60)] if ctx.quick else [("big5", 400, 80), ("wide6", 400, 80)]) if b2 else []
    n_b2 = 0
    for bn, ntr, ln in b2:
        bp = BP[bn]
        res, lines, nev, errs = validate_histories(ctx, bp, ntr, ln, ["TypeOK"] + list(invariants), list(properties))
        ctx.add_tlc(res, f"trace validation: {ntr} random histories of the real code on program {bn} ({nev} events)")
        n_b2 += ntr
        total_steps += nev
        if not res.violations and res.distinct < nev:
            raise RuntimeError(f"trace validation explored {res.distinct} states for {nev} events")
        for v in res.violations:
            last = v.trace[-1][1] if v.trace else {}
            tid, l = last.get("tid"), last.get("l")
            evs = json.loads(lines[tid - 1])["ev"] if tid else []
            nxt = evs[l - 1] if tid and l and l <= len(evs) else None
            if v.kind == "deadlock":
                sig = f"trace:unexplained:{nxt['a'] if nxt else 'end'}"
            else:
                sig = f"trace:{v.name}"
            ctx.violation(sig, {"program": bn, "violated": v.name, "history": [(e["a"], e["args"], e["noop"]) for e in evs[:l]],
                                "spec_state_before": {k: tlaval.to_py(last[k]) for k in sorted(foot) if k in last},
                                "code_state_after": {k: (nxt["post"].get(k) if nxt else None) for k in sorted(foot)}})
        if pid == "C07":
            for e in errs:
                if e[0] in ("ScheduleProc", "Started", "CreatingProc"):
                    ctx.violation(f"sqlerror:{e[0]}:{e[2]}", {"program": bn, "error": e})
        if lines:
            ctx.sample({"program": bn, "history": [(e["a"], e["args"]) for e in json.loads(lines[0])["ev"][:15]]})
    # (5) overlapping transactions: B inside A at every statement boundary of A must give the tables of A;B or B;A
    if overlap:
        st = interleave_stage(ctx, pid, overlap, budget_s=(30 if ctx.quick else 400), all_pairs=not ctx.quick)
        total_steps += st["scenarios"]
        if st["ran_inside"] == 0 and not ctx.viol:
            raise RuntimeError(f"overlapping-transactions stage: no intruder ever ran inside a transaction ({st})")
    if merge:
        ctx.cov["traces_validated_against_impl"] += sum(s["walks"] + s.get("rewinding_paths", 0) for s in ctx.cov.get("graph_replay", [])) + n_b2
        ctx.cov["evaluations"] += total_steps
        ctx.cov["distinct_nontrivial"] += total_edges
        return
    ctx.cov["traces_validated_against_impl"] = sum(s["walks"] + s.get("rewinding_paths", 0) for s in ctx.cov.get("graph_replay", [])) + n_b2
    ctx.cov["evaluations"] = total_steps
    ctx.cov["distinct_nontrivial"] = total_edges
    ctx.cov["exhaustive"] = False if ctx.quick else all(s["edges_covered"] == s["edges"] for s in ctx.cov.get("graph_replay", []))
    ctx.cov["rule"] = ("TLC explores BatchDB exhaustively for each program (all interleavings of front-end, driver, worker and canceller steps); "
                       "the labelled state graph is executed on the real SQL (MiniMySQL) + real Python front end - a rewinding traversal of its breadth-first tree "
                       "(one representative edge of every edge class, then every remaining edge), then prefix walks - and the full projected state compared after "
                       "each step; traces = paths from the initial state ending in an executed edge + walks + validated random histories; "
                       "distinct_nontrivial = distinct graph edges executed on the code")
    ctx.assume("MiniMySQL (vlib/minimysql) renders the MySQL semantics of the statements in batch/sql and batch/batch/**.py faithfully",
               "each stored-procedure call and each @transaction block is atomic and serialisable (checked for pairs of overlapping "
               "transactions by the overlapping-transactions stage under the isolation model of vlib/minimysql/isolation.py)",
               "user variables in INSERT..SELECT..ON DUPLICATE KEY UPDATE are evaluated row by row in step with the insert",
               "one batch, one user, one instance collection; shard tokens summed out; placement (select_inst_coll) is faked",
               "behaviours entering the scenarios of recorded findings (" + ", ".join(ALL_AVOID) + ") are excluded from the main run and handled per finding")



# ---- overlapping transactions: the code's transactions are atomic with respect to each other ------------------------------------
# BatchDB treats every stored-procedure call / @transaction block as one atomic action.  This stage checks that assumption on the
# code: at a state s of the TLC graph with two enabled actions A and B, A is executed on the real SQL and, at its k-th interior
# statement boundary, B runs to completion on another connection (vlib/minimysql/isolation.py: consistent reads, predicate row
# locks, lock waits).  If B was not made to wait, the resulting tables must be those of A;B or of B;A in the graph.
DUP_OK = {"Complete", "Started", "ScheduleProc", "CreatingProc", "Commit", "CancelGroup", "CancelReadyCall", "CancelCreatingCall",
          "UnscheduleCall", "Deactivate", "Activate", "AddResources", "Heartbeat", "FailFastCall"}
CROSS = {("Complete", "Commit"), ("Commit", "Complete"), ("Complete", "Complete"), ("Complete", "CancelGroup"), ("CancelGroup", "Complete"),
         ("Commit", "CancelGroup"), ("CancelGroup", "Commit"), ("InsertJob", "Commit"), ("InsertJob", "CancelGroup"), ("ScheduleProc", "CancelGroup"),
         ("CancelGroup", "ScheduleProc"), ("ScheduleProc", "Deactivate"), ("Deactivate", "ScheduleProc"), ("Complete", "Deactivate"),
         ("Deactivate", "Complete"), ("Started", "Complete"), ("Complete", "Started"), ("CancelReadyCall", "ScheduleProc"),
         ("ScheduleProc", "CancelReadyCall"), ("UnscheduleCall", "Complete"), ("Complete", "UnscheduleCall"), ("Started", "CancelGroup"),
         ("CancelGroup", "CancelGroup"), ("Commit", "Commit"), ("Heartbeat", "Complete"), ("Complete", "Heartbeat"),
         ("AddResources", "Complete"), ("Complete", "AddResources"), ("InsertJob", "InsertJob"), ("Complete", "CancelReadyCall"),
         ("CancelReadyCall", "Complete"), ("Complete", "FailFastCall"), ("FailFastCall", "Complete"),
         ("InsertGroup", "CancelGroup"), ("CancelGroup", "InsertGroup"), ("InsertGroup", "Commit"), ("InsertGroup", "InsertGroup"),
         ("InsertGroup", "InsertJob"), ("InsertJob", "InsertGroup"), ("CreateUpdate", "CreateUpdate"), ("CreateUpdate", "Commit"),
         ("CreateUpdate", "CancelGroup"), ("CancelGroup", "InsertJob"), ("Commit", "InsertJob"), ("Started", "Started"),
         ("ScheduleProc", "ScheduleProc"), ("UnscheduleCall", "UnscheduleCall"), ("CancelReadyCall", "CancelReadyCall")}
REQUESTS = {"CreateUpdate", "InsertGroup", "InsertJob", "Commit", "CancelGroup", "MarkDeleted"}
COMPACTORS = ("Heartbeat", "AddResources", "Complete", "UnscheduleCall", "Deactivate")


def _args_of(lab):
    name, args = tlc.parse_action_label(lab)
    return name, [str(a) if isinstance(a, tlaval.Sym) else a for a in args]


def interleave_stage(ctx, pid, names, *, budget_s, all_pairs=False, max_k=40, pairs_per_state=2, dup_only=None):
    """dup_only: restrict to A = B (the same request delivered twice) for the named actions."""
    from vlib.minimysql.isolation import Interleaving

    P = programs()
    foot = FOOTPRINT[pid]
    rng = random.Random(ctx.seed * 31 + 5)
    stats = {"scenarios": 0, "ran_inside": 0, "made_to_wait": 0, "pairs": 0, "states": 0, "programs": {}, "by_pair": {}}
    per = budget_s / max(1, len([n for n in names if not P[n].mc_only]))
    reported = set()
    kind_count = {}
    for n in names:
        p = P[n]
        if p.mc_only:
            continue
        res, wd = run_tlc(ctx, p, avoid=ALL_AVOID, invariants=["TypeOK"], properties=[], dump=True, tag="il")
        # counted whether TLC ran now or its result for the same spec+config was taken from build/tlc_cache (another check of the same
        # build directory produced it): what this check covered must not depend on which check happened to run first
        ctx.add_tlc(res, f"BatchDB program {n}: state graph for the overlapping-transactions stage"
                         + (" (TLC result cached from an earlier run of the same spec+config)" if getattr(res, "cached", False) else ""))
        g = tlc.parse_dot(wd / "graph.dot")
        out = g.out_edges()
        succ = {}
        for s_, l_, d_ in g.edges:
            succ[(s_, l_)] = d_
        # BFS tree: a shortest path from the initial state to every node
        parent = {}
        for root in g.init:
            parent[root] = None
            dq = [root]
            while dq:
                nxt = []
                for u in dq:
                    for (lab, v) in sorted(out.get(u, ())):
                        if v not in parent:
                            parent[v] = (u, lab)
                            nxt.append(v)
                dq = nxt

        def path_to(u):
            pth = []
            while parent[u] is not None:
                pu, lab = parent[u]
                pth.append((pu, lab, u))
                u = pu
            pth.reverse()
            return pth

        # for every kind of pair (action names), the states where such a pair is enabled
        by_kind = {}
        name_of = {}
        for node, es in out.items():
            if node not in parent:
                continue
            names_here = {}
            for lab, _d in es:
                nm = name_of.get(lab)
                if nm is None:
                    nm = name_of[lab] = _args_of(lab)[0]
                names_here.setdefault(nm, []).append(lab)
            for na in names_here:
                for nb in names_here:
                    if dup_only is not None:
                        ok = na == nb and na in dup_only
                    elif na == nb and na in DUP_OK:
                        ok = True
                    else:
                        ok = all_pairs or (na, nb) in CROSS
                    if ok:
                        by_kind.setdefault((na, nb), []).append(node)
                if "billing" in p.features and na in COMPACTORS and dup_only is None:
                    by_kind.setdefault((na, "Compact"), []).append(node)
                    by_kind.setdefault(("Compact", na), []).append(node)
        kinds = sorted(by_kind)
        rng.shuffle(kinds)
        kind_strata = {}
        deadline = time.time() + per
        done_pairs = set()
        nsc = 0
        rounds = 0
        hard = deadline + 2 * per
        # every kind of pair gets at least two turns, even when the machine is slow (then up to three times the time share)
        while kinds and (time.time() < deadline or (rounds < 2 * len(kinds) and time.time() < hard)):
            kd = kinds[rounds % len(kinds)]
            rounds += 1
            if rounds > 200000:
                break
            # stratified by the class of the state (job states, cancelled flags, update states, cancelled groups): the turns of a kind
            # go to different situations first
            strata = kind_strata.get(kd)
            if strata is None:
                groups = {}
                for nd_ in by_kind[kd]:
                    st_ = g.nodes[nd_]
                    groups.setdefault((repr(st_.get("js")), repr(st_.get("jc")), repr(st_.get("us")), repr(st_.get("canc"))), []).append(nd_)
                order_ = sorted(groups)
                rng.shuffle(order_)
                strata = kind_strata[kd] = {"groups": groups, "order": order_, "i": 0}
            cls_ = strata["order"][strata["i"] % len(strata["order"])]
            strata["i"] += 1
            node = rng.choice(strata["groups"][cls_])
            wk = path_to(node)
            pos = len(wk)
            edges = sorted(out.get(node, ()))
            cands = []
            for la, da in edges:
                if kd[0] == "Compact":
                    break
                if name_of[la] != kd[0]:
                    continue
                if kd[1] == "Compact":
                    cands.append((la, da, "Compact", node))
                    continue
                for lb, db in edges:
                    if name_of[lb] != kd[1] or (kd[0] == kd[1] and dup_only is not None and la != lb):
                        continue
                    if kd[0] == kd[1] and la != lb and (kd not in CROSS and not all_pairs):
                        continue
                    cands.append((la, da, lb, db))
            if kd[0] == "Compact":
                cands = [("Compact", node, lb, db) for lb, db in edges if name_of[lb] == kd[1]]
            cands = [c for c in cands if (node, c[0], c[2]) not in done_pairs]
            if not cands:
                continue
            rng.shuffle(cands)
            if kd[0] == kd[1]:
                # two requests of one kind: the same request twice, then two requests about different objects (first argument),
                # then anything else - in turn, so that e.g. "the last two jobs complete at the same time" gets its share
                def flavour(c):
                    if c[0] == c[2]:
                        return 0
                    return 1 if _args_of(c[0])[1][:1] != _args_of(c[2])[1][:1] else 2
                want = [0, 1, 2][rounds % 3]
                cands.sort(key=lambda c: (flavour(c) != want))
            chosen = cands[:pairs_per_state]
            impl = Impl(p, seed=ctx.seed + nsc)
            others = []
            try:
                for (_s, lab, _d) in wk[:pos]:
                    nm, ar = _args_of(lab)
                    impl.apply(nm, ar)
                base = impl.w.eng.save_state()
                stats["states"] += 1
                for la, da, lb, db in chosen:
                    if time.time() > hard:
                        break
                    done_pairs.add((node, la, lb))
                    na, aa = ("Compact", []) if la == "Compact" else _args_of(la)
                    nb, ab = ("Compact", []) if lb == "Compact" else _args_of(lb)
                    # the serial outcomes according to the specification
                    s12 = db if la == "Compact" else (da if lb == "Compact" else succ.get((da, lb)))
                    s21 = da if lb == "Compact" else (db if la == "Compact" else succ.get((db, la)))
                    if la == lb:
                        # the same request delivered twice: where the specification does not enable the second delivery it is
                        # refused / recognised as a duplicate, i.e. it changes nothing
                        s12 = s21 = s12 if s12 is not None else da
                    else:
                        # a client request that the specification does not enable in the other order is refused there (changes nothing);
                        # for driver / worker messages a missing edge is an environment assumption: that order's outcome is not known
                        if s12 is None and nb in REQUESTS:
                            s12 = da
                        if s21 is None and na in REQUESTS:
                            s21 = db
                        if s12 is None or s21 is None:
                            continue
                    allowed = [g.nodes[x] for x in (s12, s21)]
                    stats["pairs"] += 1
                    for k in range(1, max_k + 1):
                        if time.time() > hard:
                            break
                        impl.w.eng.load_state(base)
                        nsc += 1
                        cc = Interleaving(impl.w.eng)
                        impl.w.eng.cc = cc

                        def intruder(nb=nb, ab=ab):
                            other = Impl.attach(impl, seed=ctx.seed + 1)
                            others.append(other)
                            if nb == "Compact":
                                return other.w.compact_billing()
                            return other.apply(nb, ab)

                        cc.arm(k, intruder)
                        try:
                            if na == "Compact":
                                impl.w.compact_billing()
                            else:
                                impl.apply(na, aa)
                        finally:
                            impl.w.eng.cc = None
                            impl.w._patch_time()
                        stats["scenarios"] += 1
                        if cc.outcome is None:
                            break                       # A has fewer than k interior statement boundaries
                        if isinstance(cc.outcome, tuple):
                            raise RuntimeError(f"overlapping-transactions stage: the intruder {lb} failed inside {la} at boundary {k}: {cc.outcome[1]}")
                        bp = stats["by_pair"].setdefault(f"{na}|{nb}", {"ran_inside": 0, "made_to_wait": 0})
                        if cc.outcome == "blocked":
                            stats["made_to_wait"] += 1
                            bp["made_to_wait"] += 1
                            continue
                        stats["ran_inside"] += 1
                        bp["ran_inside"] += 1
                        got = impl.project()
                        gv = {x: got[x] for x in COMPARE}
                        diffs = [diff(spec_view(a), gv) for a in allowed]
                        if all(diffs):
                            d = min(diffs, key=len)
                            touched = sorted({x.split(".")[0] for x in d})
                            sig = f"interleave:{na}|{nb}:{','.join(t for t in touched if t in foot) or 'other:' + ','.join(touched)}"
                            if not (foot & set(touched)):
                                ctx.note(f"program {n}: {lb} inside {la} (boundary {k}, before {cc.log[-1]['statement']}) leaves tables no serial order "
                                         f"produces, on variables {touched} that {pid} does not read")
                            elif sig not in reported:
                                reported.add(sig)
                                ctx.violation(sig, {"program": n, "path": [lab for _s, lab, _d in wk[:pos]], "A": la, "B": lb, "boundary": k,
                                                    "B_ran_before_statement": cc.log[-1]["statement"], "diff_to_nearest_serial_outcome": d})
            finally:
                for o in others:
                    try:
                        o.close()
                    except Exception:  # noqa: BLE001
                        pass
                impl.close()
        stats["programs"][n] = nsc
    ctx.cov["overlapping_transactions"] = stats
    return stats


# ---- B2: random histories of the real code validated by TLC against BatchDBTrace --------------------------------------------
def big_programs():
    P = {}
    P["big5"] = Program("big5", {1: job(), 2: job(grp=1, par=[1], cores=250), 3: job(grp=2, par=[1, 2], always=True), 4: job(upd=2, grp=2, par=[2]),
                                 5: job(upd=2, grp=3, cores=250)},
                        {1: dict(parent=0, upd=1), 2: dict(parent=1, upd=1), 3: dict(parent=0, upd=2)}, 2,
                        att_ids=("a1", "a2", "a3"), insts=("i1", "i2"), inst_cores=4000, times=(0, 1, 2, 3), days=(0, 1),
                        features=("jpim", "billing", "cleaners", "delete", "deactivate", "failfast"), gfail={2: 1, 0: 3})
    P["wide6"] = Program("wide6", {1: job(grp=1), 2: job(grp=1, cores=250), 3: job(grp=2, par=[1]), 4: job(grp=2, par=[1, 2], always=True),
                                   5: job(grp=3, par=[3, 4]), 6: job(par=[5], always=True, cores=250)},
                         {1: dict(parent=0, upd=1), 2: dict(parent=1, upd=1), 3: dict(parent=1, upd=1), 4: dict(parent=2, upd=1)}, 1,
                         att_ids=("a1", "a2"), insts=("i1", "i2", "i3"), inst_cores=2000, times=(0, 1, 2), days=(0, 1),
                         features=("jpim", "billing", "cleaners", "deactivate", "failfast"), gfail={1: 2, 3: 1})
    for p in P.values():
        p.check()
    return P


def trace_post(p: Program, st):
    G = [0] + sorted(p.groups)
    U = p.updates()
    J = sorted(p.jobs)
    return {
        "us": [st["us"][u] for u in U], "gex": [st["gex"][g] for g in G], "gst": [st["gst"][g] for g in G], "gnj": [st["gnj"][g] for g in G],
        "tally": [st["tally"][g] for g in G], "ugrp": [st["ugrp"][g] for g in G], "canc": sorted(st["canc"]),
        "bst": st["bst"], "bnj": st["bnj"], "bdel": st["bdel"],
        "js": [st["js"][j] for j in J], "jc": [st["jc"][j] for j in J], "npp": [st["npp"][j] for j in J], "jatt": [st["jatt"][j] for j in J],
        "ujob": [st["ujob"][j] for j in J],
        "stg": [[st["stg"][u][g] for g in G] for u in U], "cr": [[st["cr"][u][g] for g in G] for u in U], "ur": st["ur"],
        "att": [st["att"][j] for j in J], "ares": [st["ares"][j] for j in J], "inst": st["inst"], "ubp": st["ubp"],
        "udate": [st["udate"][d] for d in sorted(p.days)], "today": st["today"],
    }


def random_history(p: Program, rng: random.Random, length: int, seed: int):
    """Drive the real code with random operations that respect the environment assumptions of BatchDB (workers report only
    about dispatched attempts on activated instances; the loops act on what their real selection queries return) and that stay
    out of the scenarios of recorded findings.  Returns the list of events."""
    impl = Impl(p, seed=seed)
    ev = []
    disp, jdisp, pcall = set(), set(), set()
    st = impl.project()
    J = sorted(p.jobs)
    G = sorted(p.groups)

    def grpcanc(g):
        return any(a in st["canc"] for a in p.anc(g))

    def committed(j):
        return st["us"][p.jobs[j]["upd"]] == "committed"

    def has_uncommitted_child(j):
        return False        # (since migration 123 children of an update that is not committed are not released: no scenario to stay out of)

    def _had_uncommitted_child(j):
        return any(j in d["par"] and st["js"][c] != "none" and not committed(c) for c, d in p.jobs.items())

    try:
        for _ in range(length):
            cands = []
            U = p.updates()
            for u in U:
                if u == 1 or st["us"][u - 1] != "none":       # a client's update n+1 follows update n (ids are assigned in creation order)
                    cands.append(("CreateUpdate", [u]))
                if all(st["us"][v] == "committed" for v in U if v < u) and 0 not in st["canc"]:
                    cands.append(("Commit", [u]))       # stays out of "ooc" / "toctou"
            for g in G:
                cands.append(("InsertGroup", [g]))
            for g in [0] + G:
                cands.append(("CancelGroup", [g]))
            for j in J:
                cands.append(("InsertJob", [j]))
                cands.append(("InsertJob", [j]))
            if "delete" in p.features and 0 in st["canc"] and rng.random() < 0.1:   # _delete_batch's own cancel step = CancelGroup(0)
                cands.append(("MarkDeleted", []))
            live = {i: st["inst"][i]["st"] for i in p.insts}
            sel = impl.w.driver_selection() if rng.random() < 0.6 else None
            if sel is not None:
                for (j,) in (sel["schedule"] if isinstance(sel["schedule"], set) else ()):
                    free_a = [a for a in p.att_ids if not st["att"][j][a]["ex"] and not any((j, a, i) in disp for i in p.insts)]
                    for i in p.insts:
                        if free_a and live[i] == "active":
                            cands.append(("SchedSelect", [j, free_a[0], i]))
                        if free_a and "jpim" in p.features and live[i] == "pending" and st["inst"][i]["free"] == p.inst_cores \
                                and not any(t[2] == i for t in disp):
                            cands.append(("JpimSelect", [j, free_a[0], i]))
                for (j,) in (sel["cancel_ready"] if isinstance(sel["cancel_ready"], set) else ()):
                    if ("ready", j, "NULL") not in pcall:
                        cands += [("CancelReadySelect", [j])] * 3
                for loop, act, kind in (("cancel_creating", "CancelCreatingSelect", "creating"), ("cancel_running", "CancelRunningSelect", "unsched"),
                                        ("orphan", "OrphanSelect", "unsched")):
                    for (j, a) in (sel[loop] if isinstance(sel[loop], set) else ()):
                        if (kind, j, a) not in pcall:
                            cands += [(act, [j, a])] * 3
                for (g,) in (sel["failfast"] if isinstance(sel["failfast"], set) else ()):
                    if "failfast" in p.features and ("ff", g, "NULL") not in pcall:
                        cands += [("FailFastSelect", [g])] * 3
            for (kind, j, a) in sorted(pcall):
                # calls already queued by a loop body; they may have gone stale meanwhile
                if kind == "ff":
                    cands += [("FailFastCall", [j])] * 2
                elif kind == "ready":
                    if not (st["js"][j] in ("Ready", "Creating", "Running") and has_uncommitted_child(j)):
                        cands += [("CancelReadyCall", [j])] * 2
                elif kind == "creating":
                    stale = st["jatt"][j] not in ("NULL", a)
                    if live.get(st["att"][j][a]["inst"]) != "pending" and not (
                            not stale and st["js"][j] in ("Ready", "Creating", "Running") and has_uncommitted_child(j)):
                        cands += [("CancelCreatingCall", [j, a, rng.choice(p.times)])] * 2     # stays out of "uncchild" / "pendrel"
                else:
                    cands += [("UnscheduleCall", [j, a, rng.choice(p.times)])] * 2
            for (j, a, i) in sorted(disp):
                cands.append(("ScheduleProc", [j, a, i]))
                if live[i] in ("active", "inactive"):
                    cands.append(("Started", [j, a, i, rng.choice(p.times)]))
                    if not (st["js"][j] in ("Ready", "Creating", "Running") and has_uncommitted_child(j)):
                        t0, t1 = sorted([rng.choice(p.times), rng.choice(p.times)])
                        cands.append(("Complete", [j, a, i, rng.choice(["Success", "Success", "Failed", "Error"]), t0, t1]))
                    if "billing" in p.features and st["att"][j][a]["ex"]:
                        cands.append(("Heartbeat", [j, a, rng.choice(p.times)]))
                if "billing" in p.features and st["att"][j][a]["ex"]:
                    cands.append(("AddResources", [j, a]))
            for (j, a, i) in sorted(jdisp):
                cands.append(("CreatingProc", [j, a, i, rng.choice(p.times)]))
            for i in p.insts:
                cands.append(("Activate", [i]))
                if "deactivate" in p.features and rng.random() < 0.15:
                    cands.append(("Deactivate", [i, rng.choice(p.times)]))
            if "billing" in p.features and rng.random() < 0.05:
                cands.append(("NextDay", []))
            if "billing" in p.features and rng.random() < 0.15:
                cands += [("Compact", [])] * 2
            if "cleaners" in p.features and rng.random() < 0.2:
                cands += [("CleanStaging", []), ("CleanCancellable", [])]
            name, args = rng.choice(cands)
            if name == "NextDay" and st["today"] + 1 not in p.days:
                continue
            if name == "Compact":
                impl.w.compact_billing()
            else:
                impl.apply(name, args)
            if name in ("SchedSelect", "JpimSelect"):
                disp.add(tuple(args))
                if name == "JpimSelect":
                    jdisp.add(tuple(args))
            elif name == "CancelReadySelect":
                pcall.add(("ready", args[0], "NULL"))
            elif name == "CancelCreatingSelect":
                pcall.add(("creating", args[0], args[1]))
            elif name in ("CancelRunningSelect", "OrphanSelect"):
                pcall.add(("unsched", args[0], args[1]))
            elif name == "FailFastSelect":
                pcall.add(("ff", args[0], "NULL"))
            elif name == "FailFastCall":
                pcall.discard(("ff", args[0], "NULL"))
            elif name == "CancelReadyCall":
                pcall.discard(("ready", args[0], "NULL"))
            elif name == "CancelCreatingCall":
                pcall.discard(("creating", args[0], args[1]))
            elif name == "UnscheduleCall":
                pcall.discard(("unsched", args[0], args[1]))
            new = impl.project()
            noop = all(new[k] == st[k] for k in COMPARE)
            ev.append({"a": name, "args": args, "noop": noop, "post": trace_post(p, new)})
            st = new
        errs = list(impl.sqlerrors)
    finally:
        impl.close()
    return ev, errs


def validate_histories(ctx, p: Program, n_traces: int, length: int, invariants, properties, tag="b2"):
    rng = random.Random(ctx.seed * 1000003 + len(p.name))
    lines = []
    all_errs = []
    nev = 0
    for k in range(n_traces):
        ev, errs = random_history(p, rng, length, seed=ctx.seed * 7919 + k)
        nev += len(ev)
        all_errs += errs
        lines.append(json.dumps({"ev": ev}))
    name = f"TR_{p.name}"
    mod = mc_module(p, name).replace("EXTENDS BatchDBLive", "EXTENDS BatchDBTrace")
    consts_cfg = mc_cfg(p, ALL_AVOID, invariants, properties, spec="TraceSpec").replace("CHECK_DEADLOCK FALSE", "CHECK_DEADLOCK TRUE")
    wd = tlc.prepare_dir(ctx.build / f"trace_{p.name}", ["batchdb"], {f"{name}.tla": mod, f"{name}.cfg": consts_cfg})
    tf = wd / "traces.ndjson"
    tf.write_text("\n".join(lines) + "\n")
    res = tlc.run(wd, name, f"{name}.cfg", workers=min(ctx.workers, 8), env={"TRACE_FILE": tf}, timeout=3000)
    return res, lines, nev, all_errs
