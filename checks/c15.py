"""C15 - stored job specs and region bitsets round-trip.

Spec: specs/fn/DbSpecCodec.tla (abstract job spec, its Meaning, the positional layout Enc/Dec as a model, the
relations SpecWhy / RegionWhy) and specs/fn/DbSpecCodecAlg.tla (store/load as a state machine: TLC checks
Dec(Enc(s)) = Meaning(s) over the whole field-presence lattice x versions, and the bit arithmetic of the region
sets for small universes).  Binding B3: TLC enumerates the abstract specs and region selections, the harness
builds the real dicts, runs BatchFormatVersion.db_spec -> JSON -> get_spec_* and regions_to_bits_rep ->
regions_bits_rep_to_regions, TLC judges every recorded round trip.
"""
from __future__ import annotations

import copy
import json

from vlib import loader, tlc

from . import _fn

LEVEL = "model_checking"
MANIFEST = {
    "technique": "TLA+ specification of the stored job-spec layout and of region bitsets (DbSpecCodec.tla), store/load state machine model-checked by TLC (DbSpecCodecAlg.tla); TLC enumerates abstract specs x format versions and region selections and judges every recorded round trip through the real BatchFormatVersion / batch.utils functions (call/return conformance, B3)",
    "text": "Exhaustive over the field-presence lattice (0-2 secrets (3 in the thorough tier) with mount_in_copy absent/true/false, secrets key absent/empty, service account, input/output files absent/empty/one/two, machine spec none/preemptible/non-preemptible) x every format version 1..current; region subsets of a 63-region universe (all singletons, end pairs, all prefixes and suffixes, strided sets, complements, dense and reversed mappings; all ordered pairs in the thorough tier) and all subsets of several small dense/sparse mappings. Bounded-universe model checking of an input-quantified property.",
    "note": "Trusts: TLC + CommunityModules Json/IOUtils; the abstract->dict construction in checks/c15.py. 63-bit masks are kept out of TLC's 32-bit integers: the harness converts the stored Python int to the set of its bit positions, TLC compares sets of region indices. A machine type is only generated for format versions >= 5 (the field that stores it exists from version 5).",
    "design_ref": "DESIGN.md section 5, C15; Appendix F",
}

INVS = ["C15_SpecRoundTrip", "C15_RegionRoundTrip", "StoredShape", "BitsBound"]
REACH = ["NeverMachine", "NeverMic", "NeverRegion"]
FILES = {0: None, 1: [], 2: [{"from": "gs://b/a", "to": "/io/a"}], 3: [{"from": "gs://b/a", "to": "/io/a"}, {"from": "gs://b/c", "to": "/io/c"}]}


def build_spec(s, final=True):
    """The real job spec dict for an abstract spec.  final=True: as the front end hands it to db_spec;
    final=False: as a client submits it (for the validator)."""
    spec = {"job_id": 1, "process": {"type": "docker", "command": ["true"], "image": "ubuntu"}}
    if s["mic"] or s["seckey"]:
        secrets = []
        for i, m in enumerate(s["mic"], start=1):
            sec = {"namespace": f"ns{i}", "name": f"sec{i}", "mount_path": f"/mnt/{i}"}
            if final and m != "absent":
                sec["mount_in_copy"] = (m == "true")
            secrets.append(sec)
        spec["secrets"] = secrets
    if s["sa"]:
        spec["service_account"] = {"namespace": "sans", "name": "saname"}
    for key, v in (("input_files", s["inf"]), ("output_files", s["outf"])):
        if FILES[v] is not None:
            spec[key] = copy.deepcopy(FILES[v])
    pre = s["machine"] != 2
    gib = 375 if s["machine"] == 1 else 10
    if final:
        res = {"preemptible": pre, "storage_gib": gib, "cores_mcpu": 1000, "memory_bytes": 1 << 30, "req_storage": f"{gib}Gi"}
        if s["machine"] == 0:
            res.update(req_cpu="1", req_memory="standard")
    else:
        res = {"preemptible": pre, "storage": f"{gib}Gi"}
        if s["machine"] == 0:
            res.update(cpu="1", memory="standard")
    if s["machine"] != 0:
        res["machine_type"] = "n1-standard-4"
    spec["resources"] = res
    return spec


def opt(x, fields):
    if x is None:
        return {"isnull": True, **{f: d for f, d in fields.items()}}
    return {"isnull": False, **{f: x[f] for f in fields}}


def run(ctx):
    loader.install()
    from batch import utils as butils
    from batch.batch_format_version import BatchFormatVersion
    from batch.front_end.validate import validate_and_clean_jobs
    from batch.globals import BATCH_FORMAT_VERSION

    maxver = int(BATCH_FORMAT_VERSION)
    maxsec = 2 if ctx.quick else 3
    wd = tlc.prepare_dir(ctx.build / "tlc", ["fn"])

    # ---- (1) the layout model: Dec(Enc(s)) = Meaning(s), bit arithmetic for small region universes ------------
    consts = {"MaxVer": maxver, "MaxSecrets": maxsec, "Indices": "{1, 2, 4, 7, 9}" if ctx.quick else "{1, 2, 3, 4, 7, 9, 12}"}
    (wd / "Alg.cfg").write_text(tlc.mk_cfg(constants=consts, invariants=INVS))
    res = tlc.run(wd, "DbSpecCodecAlg", "Alg.cfg", workers=ctx.workers, coverage=True)
    ctx.add_tlc(res, f"DbSpecCodecAlg exhaustive {consts}")
    ctx.require_covered(res, ["StoreSpec", "LoadSpec", "StoreRegions", "LoadRegions"], "DbSpecCodecAlg")
    for v in res.violations:
        ctx.violation(f"spec:{v.name}", {"config": consts, "trace": [(h, s) for h, s in v.trace]})
    if res.violations:
        return
    _fn.require_reachable(ctx, wd, "DbSpecCodecAlg", {"MaxVer": min(maxver, 5), "MaxSecrets": 1, "Indices": "{1, 3}"}, REACH, together=False)

    # ---- (2) B3 -------------------------------------------------------------------------------------------------------
    env = {"DC_MAXVER": maxver, "DC_MAXSEC": maxsec, "DC_PAIRS": "0" if ctx.quick else "1",
           "DC_SPECS": wd / "specs.ndjson", "DC_REGIONS": wd / "regions.ndjson"}
    tlc.evaluate(wd, "DbSpecCodecGen", env=env, timeout=1800)
    specs = [json.loads(l) for l in (wd / "specs.ndjson").read_text().splitlines() if l.strip()]
    regions = [json.loads(l) for l in (wd / "regions.ndjson").read_text().splitlines() if l.strip()]

    # the universe lies inside what the job validator accepts (client-level form of each spec)
    checked = set()
    for s in specs:
        key = (len(s["mic"]), s["seckey"], s["sa"], s["inf"], s["outf"], s["machine"])
        if key not in checked:
            checked.add(key)
            validate_and_clean_jobs([build_spec(s, final=False)])  # raises ValidationError -> machinery failure

    cases, lines = [], []
    for s in specs:
        spec = build_spec(s)
        err = None
        try:
            stored = BatchFormatVersion(s["ver"]).db_spec(copy.deepcopy(spec))
            loaded = json.loads(json.dumps(stored))  # the database column holds JSON
            fv = BatchFormatVersion(s["ver"])
            secrets = fv.get_spec_secrets(loaded)
            sa = fv.get_spec_service_account(loaded)
            machine = fv.get_spec_machine_spec(loaded)
            out = {"o": "decoded",
                   "secrets": {"isnull": secrets is None,
                               "items": [{"namespace": x["namespace"], "name": x["name"], "mount_path": x["mount_path"],
                                          "mic": "absent" if "mount_in_copy" not in x else ("true" if x["mount_in_copy"] else "false")}
                                         for x in (secrets or [])]},
                   "sa": opt(sa, {"namespace": "", "name": ""}),
                   "has_in": bool(fv.get_spec_has_input_files(loaded)),
                   "has_out": bool(fv.get_spec_has_output_files(loaded)),
                   "machine": opt(machine, {"machine_type": "", "preemptible": False, "storage_gib": 0})}
            if not out["machine"]["isnull"]:
                out["machine"]["preemptible"] = bool(out["machine"]["preemptible"])
                if isinstance(out["machine"]["storage_gib"], bool) or not isinstance(out["machine"]["storage_gib"], int):
                    raise TypeError(f"storage_gib decoded as {out['machine']['storage_gib']!r}")
        except Exception as e:
            stored = None
            out = {"o": "raise", "secrets": {"isnull": True, "items": []}, "sa": opt(None, {"namespace": "", "name": ""}),
                   "has_in": False, "has_out": False, "machine": opt(None, {"machine_type": "", "preemptible": False, "storage_gib": 0})}
            err = f"{type(e).__name__}: {e}"
        cases.append({"k": "spec", "in": s, "out": out, "spec": spec, "stored": stored, "error": err})
        lines.append(json.dumps({"k": "spec", "in": s, "out": out}))

    for r in regions:
        mapping = {f"r{i}": i for i in r["idx"]}
        err = None
        try:
            bits = None if r["nosel"] else butils.regions_to_bits_rep([f"r{i}" for i in r["sel"]], mapping)
            rec = butils.regions_bits_rep_to_regions(bits, mapping)
            if bits is not None and (isinstance(bits, bool) or not isinstance(bits, int)):
                raise TypeError(f"bitset is {bits!r}")
            out = {"o": "ok", "isnull": rec is None,
                   "stored": [] if bits is None or bits < 0 else [i + 1 for i in range(bits.bit_length()) if (bits >> i) & 1],
                   "fits63": bits is None or 0 <= bits < 2 ** 63,
                   "rec": [mapping.get(x, 0) for x in (rec or [])]}
        except Exception as e:
            bits = None
            out = {"o": "raise", "isnull": True, "stored": [], "fits63": True, "rec": []}
            err = f"{type(e).__name__}: {e}"
        cases.append({"k": "regions", "in": r, "out": out, "stored": str(bits), "error": err})
        lines.append(json.dumps({"k": "regions", "in": r, "out": out}))

    verdicts = _fn.sharded_verdict(ctx, ["fn"], "DbSpecCodecVerdict", lines, {}, "DC_CASES", "DC_VERDICT", 2 if ctx.quick else 8)
    tot = {k: sum(v[k] for _o, v in verdicts) for k in ("with_machine", "with_secrets", "regions63")}
    if min(tot.values()) == 0:
        raise RuntimeError(f"vacuous universe: {tot}")
    for off, v in verdicts:
        for b in v["bad"]:
            c = cases[off + b["i"] - 1]
            if c["k"] == "spec":
                ctx.violation(f"dbspec:{b['why']}:v{'1' if c['in']['ver'] == 1 else ('2-4' if c['in']['ver'] < 5 else '5+')}",
                              {"abstract": c["in"], "spec": c["spec"], "stored": c["stored"], "decoded": c["out"], "error": c["error"], "why": b["why"]})
            else:
                ctx.violation(f"regions:{b['why']}", {"input": c["in"], "stored_int": c["stored"], "result": c["out"], "error": c["error"], "why": b["why"]})
    ncase = len(cases)
    ctx.cov["states"] += 3 * ncase
    ctx.cov["transitions"] += 2 * ncase
    ctx.cov.update(traces_validated_against_impl=ncase, evaluations=ncase, distinct_nontrivial=tot["with_secrets"] + len(regions), exhaustive=True,
                   rule=f"TLC enumerates the field-presence lattice (<= {maxsec} secrets x mount_in_copy absent/true/false, secrets key, service account, "
                        f"input/output files 4 ways, machine spec 3 ways) x versions 1..{maxver} = {len(specs)} specs, and {len(regions)} region selections "
                        "(63-region dense and reversed mappings: singletons, end pairs, prefixes, suffixes, strided sets, complements"
                        + ("" if ctx.quick else ", all ordered pairs") + "; all subsets of 5 small mappings); every one goes through the real store -> JSON -> load path; "
                        "TLC judges each round trip (store, load = 2 transitions); non-trivial = specs with secrets + region cases")
    ctx.cov["universe"] = tot
    for c in [cases[len(specs) // 2], cases[len(specs) - 1], cases[len(specs) + len(regions) // 2]]:
        ctx.sample({k: c[k] for k in ("k", "in", "stored", "out")})
    ctx.assume("a machine type occurs only with format versions >= 5 (the stored form has no machine field before)",
               "absent secrets = empty list of secrets; a secret without mount_in_copy = mount_in_copy false",
               "region sets are compared as sets of indices; the stored Python int is converted to its bit positions by the harness (TLC integers are 32 bit); the stored integer must fit MySQL's signed BIGINT",
               "region indices are distinct and in 1..63; a job without a region selection stores NULL and recovers None",
               "a round trip is a three-state behaviour spec -> stored -> decoded; states/transitions count those in addition to the DbSpecCodecAlg run")
