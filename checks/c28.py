"""C28 - usernames and credential secret names are validated exactly.

Spec: specs/fn/NameLang.tla (two DFAs over character classes).  Binding B3: TLC enumerates the class
words, the harness concretises each class by several characters and calls the real
auth.auth_utils functions and, for the account-creation call site (auth.auth.insert_new_user over an empty users table), whether
a row was inserted with the string as username of a plain user / developer / service account or as secret name; TLC judges every
recorded call against the DFAs.
"""
from __future__ import annotations

import itertools
import json

from vlib import loader, tlc

LEVEL = "model_checking"
MANIFEST = {
    "technique": "TLA+ DFA specification (NameLang.tla); TLC enumerates class words and judges every recorded call of the real validators (call/return conformance, B3)",
    "text": "Exhaustive over all character-class words up to a stated length (12 classes incl. newline/control/non-ASCII digits and letters), each concretised several ways; the verdict for each recorded call is computed by TLC from the TLA+ DFAs. Bounded-universe model checking of an input-quantified property.",
    "note": "Trusts: TLC + CommunityModules Json/IOUtils; the class->character table in checks/c28.py; strings longer than the bound are covered only by the trailing/leading/inserted-class probes.",
    "design_ref": "DESIGN.md section 5, C28",
}

REPS = {
    "lower": ["a", "z", "q"],
    "digit": ["0", "9", "5"],
    "hyphen": ["-"],
    "dot": ["."],
    "upper": ["A", "Z"],
    "underscore": ["_"],
    "newline": ["\n"],
    "ctrl": ["\r", "\x00", "\t", "\x0b", "\x1f", "\x7f", "\x85", " "],
    "ascii_other": [" ", "!", "/", ":", "@", "`", "{", "~", "+", "*", "$", "\\"],
    "na_lower": ["ß", "é", "α", "а", "ａ"],  # non-ASCII lowercase letters (islower())
    "na_digit": ["٣", "²", "１", "१"],  # non-ASCII digits (isdigit())
    "other": ["É", "中", "\U0001f600", "‐", "。", "­"],
}


def concretise(w, variant):
    return "".join(REPS[c][(variant + i) % len(REPS[c])] for i, c in enumerate(w))


def account_creation():
    """The real auth.auth.insert_new_user (check_valid_new_user + validate_credentials_secret_name_input + the INSERT) over a users
    table that is empty: returns f(s) -> {plain, dev, sa, secret}: was a users row inserted with s as the username of a plain
    user / developer / service account, and with s as the credentials secret name of a valid user."""
    import asyncio

    import aiomysql
    import auth.auth as A
    import gear.database as gdb
    from auth.exceptions import AuthUserError

    log = []

    class Sess:
        def execute(self, sql, args=None):
            if sql.lstrip().upper().startswith(("START TRANSACTION", "COMMIT", "ROLLBACK", "BEGIN")):
                return 0, None, None
            if sql.lstrip().upper().startswith("SELECT"):
                return 0, [], None
            if sql.lstrip().upper().startswith("INSERT INTO USERS"):
                log.append(tuple(args))
                return 1, None, len(log)
            raise RuntimeError(f"unexpected statement from insert_new_user: {sql[:80]}")

        def commit(self):
            pass

        def rollback(self):
            pass

        def close(self):
            pass

    from vlib.vloop import VLoop

    loop = VLoop()
    db = gdb.Database()
    db.pool = aiomysql.Pool(Sess)

    def mk_tm():
        from hailtop.aiotools import BackgroundTaskManager

        db.connection_release_task_manager = BackgroundTaskManager()

    loop.call_in_loop(mk_tm)

    def inserted(username, login_id, dev, sa, secret):
        n = len(log)
        try:
            loop.run_coro(A.insert_new_user(db, username, login_id, dev, sa, hail_identity="id", hail_credentials_secret_name=secret))
            loop.run_until_idle()
        except AuthUserError:
            loop.run_until_idle()
            return False
        return len(log) == n + 1 and log[-1][1] == username and log[-1][6] == secret

    def f(s):
        return {"plain": inserted(s, "login@x", False, False, "ok-secret"), "dev": inserted(s, "login@x", True, False, "ok-secret"),
                "sa": inserted(s, None, False, True, "ok-secret"), "secret": inserted("okuser", "login@x", False, False, s)}

    return f


def run(ctx):
    loader.install()
    from auth.auth_utils import is_valid_username, validate_credentials_secret_name_input
    from auth.exceptions import AuthUserError

    full, core = (4, 7) if ctx.quick else (5, 8)     # TLC refuses sets of more than 10^6 elements: 5^9 core words are too many
    wd = tlc.prepare_dir(ctx.build / "tlc", ["fn"])
    inputs = wd / "inputs.ndjson"
    env = {"NL_FULL": full, "NL_CORE": core, "NL_INPUTS": inputs, "NL_CASES": wd / "cases.ndjson", "NL_VERDICT": wd / "verdict.json"}
    tlc.evaluate(wd, "NameLangGen", env=env)
    words = [json.loads(l)["w"] for l in inputs.read_text().splitlines() if l.strip()]
    nvar = 3 if ctx.quick else 8
    cases = []
    seen = set()

    inserter = account_creation()

    def call(w, s):
        if s in seen:
            return
        seen.add(s)
        u = bool(is_valid_username(s))
        try:
            validate_credentials_secret_name_input(s)
            sec = True
        except AuthUserError:
            sec = False
        c = {"w": w, "s": s, "user": u, "secret": sec}
        if len(seen) % (4 if ctx.quick else 2) == 0 or len(w) <= 3:
            c["ins"] = inserter(s)
        cases.append(c)

    for w in words:
        for v in range(nvar):
            call(w, concretise(w, v + ctx.seed))
    # trailing/leading-class probes on long valid names: every class appended / prepended / inserted
    for base in (["lower"] * 10, ["lower", "digit", "hyphen", "lower", "dot", "digit"] * 2, ["digit"] * 12):
        for c in REPS:
            for k in range(len(REPS[c])):
                for pos in (0, len(base) // 2, len(base)):
                    w = list(base[:pos]) + [c] + list(base[pos:])
                    s = "".join(REPS[x][0] for x in base[:pos]) + REPS[c][k] + "".join(REPS[x][0] for x in base[pos:])
                    call(w, s)
    with open(env["NL_CASES"], "w") as f:
        for c in cases:
            # the concrete string travels as code points (TLC's JSON reader need not see control characters)
            f.write(json.dumps({k: c[k] for k in ("w", "user", "secret", "ins") if k in c}) + "\n")
    tlc.evaluate(wd, "NameLangVerdict", env=env)
    verdict = json.loads((wd / "verdict.json").read_text())
    assert verdict["n"] == len(cases), (verdict["n"], len(cases))
    if verdict["accepted_user"] == 0 or verdict["accepted_secret"] == 0:
        raise RuntimeError("vacuous: the specification accepts nothing")
    for i in verdict["bad"]:
        c = cases[i - 1]
        fn = []
        from_spec_user = None
        # classify by function and by the class of the offending deviation (root cause signature)
        cls_sig = ",".join(sorted(set(c["w"]) - {"lower", "digit", "hyphen", "dot"})) or "core"
        site = ""
        if "ins" in c and (len({c["user"], c["ins"]["plain"], c["ins"]["dev"], c["ins"]["sa"]}) > 1 or c["ins"]["secret"] != c["secret"]):
            site = ":insert_new_user(" + ",".join(k for k in ("plain", "dev", "sa") if c["ins"][k] != c["user"]) + \
                   ("secret" if c["ins"]["secret"] != c["secret"] else "") + ")"
        ctx.violation(f"names:{cls_sig}:user={c['user']}:secret={c['secret']}{site}",
                      {"string": c["s"], "codepoints": [ord(x) for x in c["s"]], "classes": c["w"],
                       "is_valid_username": c["user"], "secret_name_accepted": c["secret"], "account_creation_inserted_a_row": c.get("ins")})
    ctx.cov.update(states=2 * len(cases), transitions=len(cases), traces_validated_against_impl=len(cases),
                   evaluations=len(cases), distinct_nontrivial=len({tuple(c["w"]) for c in cases if len(c["w"]) >= 2}),
                   exhaustive=True,
                   rule=f"TLC enumerates all class words over 12 classes to length {full} and over the 5 core classes to length {core}; "
                        f"each is concretised {nvar} ways; every call/return pair is judged by TLC against both DFAs; "
                        "non-trivial = class word of length >= 2")
    ctx.cov["spec_accepts"] = {"username": verdict["accepted_user"], "secret": verdict["accepted_secret"]}
    for c in cases[:3] + cases[len(cases) // 2:len(cases) // 2 + 2]:
        ctx.sample({"classes": c["w"], "string": c["s"], "username_ok": c["user"], "secret_ok": c["secret"]})
    ctx.assume("character classes are represented by the characters in checks/c28.py REPS; a string is judged through its class word",
               "a call/return pair is a two-state behaviour Call(w) -> Return(accepted); states/transitions count those")
