"""Fake `hl` namespace for C38 (VDS combiner plan) + loading of the two real modules under it.

`import hail` cannot run offline.  The two anchored files
    hail/python/hail/vds/combiner/variant_dataset_combiner.py  and  .../combine.py
are imported for real under a *bare* `hail` package in which

  REAL (from the repo tree): hail.utils (Interval, Struct, FatalError), hail.typecheck, hail.expr.types
        (tlocus/tinterval/tarray incl. the JSON (de)serialisation used by save/load), hail.expr.matrix_type.tmatrix,
        hail.genetics (Locus, ReferenceGenome built from hail/hail/resources/reference/*.json), hail.utils.java.Env
  FAKE (this file): tables / matrix tables / expressions / IR nodes / VariantDataset / read_vds / writes /
        the file system.  Fakes carry LINEAGE: for every (matrix) table the sequence of original inputs it is built
        from and its column (sample) ids; both flow through the real combine.py code
        (combine_variant_datasets, combine_references, combine_gvcfs, combine_r, combine, localize, unlocalize) via
        `Table.multi_way_zip_join`, `Table._generate`, `_zip_join_producers`, `hl.flatten`, globals `g`/`__cols`.
  `dtype()` (type *parsing*, needs parsimonious) is a table lookup of the handful of types used here.
"""
from __future__ import annotations

import io
import json
import os
import re
import sys
import types

from vlib import loader


class LineageError(Exception):
    """The code under test did something the fake engine/file system refuses (read of a dataset that was
    never written, write over an existing path without overwrite, ids/paths mismatch)."""


_CUR = {"world": None}


def set_world(w):
    _CUR["world"] = w


def world() -> "World":
    w = _CUR["world"]
    if w is None:
        raise RuntimeError("no current World")
    return w


# ------------------------------------------------------------------------------------------------------
# permissive opaque expression (optionally an index -> value function for the few expressions that are evaluated)
class Expr:
    def __init__(self, fn=None):
        object.__setattr__(self, "_fn", fn)

    def __getattr__(self, name):
        if name.startswith("__") and name.endswith("__"):
            raise AttributeError(name)
        fn = object.__getattribute__(self, "_fn")
        if fn is not None:
            return Expr(lambda i: getattr(fn(i), name))
        return Expr()

    def __call__(self, *a, **k):
        return Expr()

    def __getitem__(self, k):
        fn = object.__getattribute__(self, "_fn")
        if fn is not None:
            return Expr(lambda i: fn(i)[k])
        return Expr()

    def __iter__(self):
        return iter(())

    def __contains__(self, x):
        return False

    def __bool__(self):
        return True

    def __int__(self):
        return 1

    def _bin(self, *a):
        return Expr()

    __add__ = __radd__ = __sub__ = __rsub__ = __mul__ = __rmul__ = __truediv__ = __rtruediv__ = _bin
    __floordiv__ = __mod__ = __or__ = __ror__ = __and__ = __rand__ = __lt__ = __le__ = __gt__ = __ge__ = _bin
    __invert__ = __neg__ = _bin


class StructExpr:
    """hl.struct(**fields) with concrete field access."""

    def __init__(self, **fields):
        object.__setattr__(self, "fields", dict(fields))

    def __getattr__(self, name):
        f = object.__getattribute__(self, "fields")
        if name in f:
            return f[name]
        if name.startswith("__") and name.endswith("__"):
            raise AttributeError(name)
        return Expr()

    def __getitem__(self, k):
        return self.fields[k]

    def annotate(self, **kw):
        return StructExpr(**{**self.fields, **kw})


def _as_list(x):
    if isinstance(x, Lit):
        return list(x.value)
    return list(x)


class Lit:
    """hl.literal(list)"""

    def __init__(self, value):
        self.value = value

    def map(self, f):
        return Lit([f(v) for v in _as_list(self)])

    def __getitem__(self, k):
        if isinstance(k, Expr):
            fn = object.__getattribute__(k, "_fn")
            if fn is None:
                return Expr()
            return Expr(lambda i: self.value[fn(i)])
        return self.value[k]

    def __len__(self):
        return len(self.value)

    def __getattr__(self, name):
        if name.startswith("__") and name.endswith("__"):
            raise AttributeError(name)
        return Expr()


class Header:
    """hl.get_vcf_header_info(path) evaluated."""

    def __init__(self, path):
        self.path = path

    @property
    def sampleIDs(self):
        w = world()
        if self.path not in w.gvcf_sample:
            raise LineageError(f"header of unknown file {self.path!r}")
        return [w.gvcf_sample[self.path]]


class Collect:
    def __init__(self, e):
        self.e = e


class ZJP:
    """result of hl._zip_join_producers: one producer per (idx, path) context."""

    def __init__(self, paths):
        self.paths = tuple(paths)


class TIR:
    def __init__(self, paths, globals_):
        self.paths = tuple(paths)
        self.globals = dict(globals_)


class TableMapRows(TIR):
    def __init__(self, child, new_row):
        TIR.__init__(self, child.paths, child.globals)


class Table:
    def __init__(self, tir):
        if not isinstance(tir, TIR):
            raise TypeError(f"fake Table needs a TIR, got {type(tir)}")
        self._tir = tir

    def __getattr__(self, name):
        if name.startswith("__") and name.endswith("__"):
            raise AttributeError(name)
        g = self.__dict__["_tir"].globals
        if name in g:
            return g[name]
        return Expr()

    @staticmethod
    def _generate(contexts, partitions, rowfn, globals, **kw):
        row = rowfn(Expr(), Expr())
        if not isinstance(row, ZJP):
            raise LineageError("Table._generate: rowfn did not return _zip_join_producers(...)")
        if len(_as_list(contexts)) != len(list(partitions)):
            raise LineageError("Table._generate: contexts and partitions differ in length")
        ids = _as_list(globals.fields["g"])
        if len(ids) != len(row.paths):
            raise LineageError(f"Table._generate: {len(row.paths)} files but {len(ids)} column groups")
        world().log.append(("generate", row.paths))
        return Table(TIR(row.paths, globals.fields))

    @staticmethod
    def multi_way_zip_join(tables, data_field_name, global_field_name):
        paths = []
        for t in tables:
            if not isinstance(t, Table):
                raise TypeError("multi_way_zip_join of non-table")
            paths.extend(t._tir.paths)
        g = Lit([StructExpr(**t._tir.globals) for t in tables])
        return Table(TIR(paths, {global_field_name: g}))

    def transmute_globals(self, **kw):
        g = {k: v for k, v in self._tir.globals.items() if k != "g"}
        g.update(kw)
        return Table(TIR(self._tir.paths, g))

    def _unlocalize_entries(self, entries_field, cols_field, col_key):
        cols = [c.fields[col_key[0]] for c in _as_list(self._tir.globals[cols_field])]
        return MatrixTable(self._tir.paths, cols)


class GlobalsView:
    def __init__(self, names):
        self.names = set(names)

    def __contains__(self, x):
        return x in self.names


class MatrixTable:
    def __init__(self, paths, cols):
        self.paths = tuple(paths)
        self.cols = tuple(cols)

    def __getattr__(self, name):
        if name.startswith("__") and name.endswith("__"):
            raise AttributeError(name)
        return Expr()

    @property
    def globals(self):
        return GlobalsView(())

    def _localize_entries(self, entries_field, cols_field):
        return Table(TIR(self.paths, {cols_field: Lit([StructExpr(s=c) for c in self.cols])}))

    def key_rows_by(self, *k):
        return MatrixTable(self.paths, self.cols)

    _key_rows_by_assert_sorted = key_rows_by

    def drop(self, *f):
        return MatrixTable(self.paths, self.cols)

    def count_cols(self):
        return len(self.cols)

    def write(self, path, overwrite=False, **kw):
        world().write_mt(path, self, overwrite)


class VariantDataset:
    ref_block_max_length_field = "ref_block_max_length"

    @staticmethod
    def _reference_path(base):
        return os.path.join(base, "reference_data")

    @staticmethod
    def _variants_path(base):
        return os.path.join(base, "variant_data")

    def __init__(self, reference_data, variant_data):
        if not isinstance(reference_data, MatrixTable) or not isinstance(variant_data, MatrixTable):
            raise TypeError("fake VariantDataset needs fake MatrixTables")
        self.reference_data = reference_data
        self.variant_data = variant_data

    def write(self, path, **kwargs):
        self.reference_data.write(VariantDataset._reference_path(path), **kwargs)
        self.variant_data.write(VariantDataset._variants_path(path), **kwargs)

    def n_samples(self):
        return self.reference_data.count_cols()


def read_vds(path, *, intervals=None, n_partitions=None, _assert_reference_type=None, _assert_variant_type=None,
             _warn_no_ref_block_max_length=True, _drop_end=False):
    w = world()
    ref = w.read_mt(VariantDataset._reference_path(path))
    var = w.read_mt(VariantDataset._variants_path(path))
    w.log.append(("read_vds", path, intervals is not None))
    return VariantDataset(ref, var)


def store_ref_block_max_length(path):
    w = world()
    w.read_mt(VariantDataset._reference_path(path))
    w.log.append(("store_ref_block_max_length", path))


def write_variant_datasets(vdss, paths, *, overwrite=False, stage_locally=False, codec_spec=None):
    vdss, paths = list(vdss), list(paths)
    if len(vdss) != len(paths):
        raise LineageError(f"write_variant_datasets: {len(vdss)} datasets, {len(paths)} paths")
    if len(set(paths)) != len(paths):
        raise LineageError("write_variant_datasets: duplicate paths")
    for v, p in zip(vdss, paths):
        v.write(p, overwrite=overwrite)


class RangeTable:
    def __init__(self, n, fields=None):
        self.n = n
        self.fields = dict(fields or {})
        self.idx = Expr(lambda i: i)

    def annotate(self, **kw):
        return RangeTable(self.n, {**self.fields, **kw})

    def __getattr__(self, name):
        f = self.__dict__.get("fields", {})
        if name in f:
            return f[name]
        raise AttributeError(name)

    def aggregate(self, agg):
        if not isinstance(agg, Collect):
            raise TypeError("fake range table aggregates only hl.agg.collect")
        fn = object.__getattribute__(agg.e, "_fn")
        if fn is None:
            raise LineageError("range-table aggregation of an expression that does not depend on idx")
        return [fn(i) for i in range(self.n)]


class FunctionStub:
    _n = 0

    def __init__(self):
        FunctionStub._n += 1
        self._name = f"fakefn{FunctionStub._n}"
        self._ret_type = Expr()


# ------------------------------------------------------------------------------------------------------
class _Writer(io.StringIO):
    def __init__(self, fs, path):
        super().__init__()
        self._fs, self._path = fs, path

    def close(self):
        if not self.closed:
            self._fs.world.files[self._path] = self.getvalue()
        super().close()


class FakeFS:
    def __init__(self, w):
        self.world = w

    def exists(self, path):
        w = self.world
        if path in w.files or path in w.mts:
            return True
        if path.endswith("/_SUCCESS") and path[: -len("/_SUCCESS")] in w.mts:
            return True
        return False

    def open(self, path, mode="r", buffer_size=0):
        if "w" in mode:
            return _Writer(self, path)
        if path not in self.world.files:
            raise FileNotFoundError(path)
        return io.StringIO(self.world.files[path])

    def copy(self, src, dst):
        if src not in self.world.files:
            raise FileNotFoundError(src)
        self.world.files[dst] = self.world.files[src]

    def remove(self, path):
        if path not in self.world.files:
            raise FileNotFoundError(path)
        del self.world.files[path]


class _Logger:
    def __init__(self, w):
        self.w = w

    def info(self, msg):
        self.w.msgs.append(("info", msg))

    def warning(self, msg):
        self.w.msgs.append(("warning", msg))

    def error(self, msg):
        self.w.msgs.append(("error", msg))


class World:
    """One file system + engine.  mts: matrix-table path -> (leaf paths, column ids)."""

    def __init__(self):
        self.files = {}
        self.mts = {}
        self.writes = {}  # path -> number of times written
        self.gvcf_sample = {}
        self.log = []
        self.msgs = []
        self.fs = FakeFS(self)
        self.logger = _Logger(self)
        self.flags = {}
        self.n_uuid = 0

    # engine
    def write_mt(self, path, mt, overwrite):
        if path in self.mts and not overwrite:
            raise LineageError(f"write to existing path without overwrite: {path}")
        self.mts[path] = (tuple(mt.paths), tuple(mt.cols))
        self.writes[path] = self.writes.get(path, 0) + 1
        self.log.append(("write", path))

    def read_mt(self, path):
        if path not in self.mts:
            raise LineageError(f"read of a dataset that does not exist: {path}")
        paths, cols = self.mts[path]
        return MatrixTable(paths, cols)

    # harness side
    def add_input_vds(self, path, cols):
        mt = MatrixTable((path,), cols)
        self.mts[VariantDataset._reference_path(path)] = (mt.paths, mt.cols)
        self.mts[VariantDataset._variants_path(path)] = (mt.paths, mt.cols)

    def datasets(self):
        """dataset path -> (leaves, cols) or ('MISMATCH', ...) when the two halves disagree / one is missing."""
        out = {}
        for p in self.mts:
            base, half = os.path.split(p)
            if half not in ("reference_data", "variant_data"):
                out[p] = ("NOT-A-VDS", ())
                continue
            r = self.mts.get(VariantDataset._reference_path(base))
            v = self.mts.get(VariantDataset._variants_path(base))
            if r is None or v is None or r != v:
                out[base] = ("MISMATCH", (r, v))
            else:
                out[base] = r
        return out

    def _is_registered_ir_function_name(self, name):
        return False


class _BackendProxy:
    def __getattr__(self, name):
        return getattr(world(), name)


class _UuidNS:
    @staticmethod
    def uuid4():
        w = world()
        w.n_uuid += 1
        return f"U{w.n_uuid}"


# ------------------------------------------------------------------------------------------------------
class _NS(types.SimpleNamespace):
    pass


class _FakeModule(types.ModuleType):
    """Module whose unknown attributes are constructors of opaque expressions."""

    def __getattr__(self, name):
        if name.startswith("__") and name.endswith("__"):
            raise AttributeError(name)
        for p in self.__dict__.get("__path__", ()):  # a real submodule: let the import system load it
            if os.path.isdir(os.path.join(p, name)) or os.path.exists(os.path.join(p, name + ".py")):
                raise AttributeError(name)

        def ctor(*a, **k):
            return Expr()

        ctor.__name__ = name
        return ctor


_LOADED = {}


def load(repo=None):
    """Install the fake hl and import the two real modules.  Returns a namespace with the real objects."""
    if _LOADED:
        return _LOADED["ns"]
    loader.install()
    repo = loader.REPO
    hp = str(repo / "hail/python/hail")
    for m in list(sys.modules):
        if m == "hail" or m.startswith("hail."):
            raise RuntimeError(f"{m} already imported; the fake hl must be installed first")
    hail = _FakeModule("hail")
    hail.__path__ = [hp]
    sys.modules["hail"] = hail
    he = types.ModuleType("hail.expr")
    he.__path__ = [hp + "/expr"]
    sys.modules["hail.expr"] = he
    hail.expr = he
    import hail.utils  # noqa  (first: avoids the circular import)
    import hail.typecheck as tc
    import hail.expr.types as T
    import hail.genetics.reference_genome as RG
    import hail.genetics.locus as LOC
    import hail.genetics.allele_type  # noqa
    import hail.expr.expressions  # noqa  (real; pulls in the real hail.ir, replaced by the fake below)
    from hail.utils.java import Env

    for n in T.__all__:
        setattr(hail, n, getattr(T, n))
    he.types = T
    he.HailType = T.HailType
    real_utils = sys.modules["hail.utils"]
    hail.Interval = real_utils.Interval
    hail.Struct = real_utils.Struct
    hail.Locus = LOC.Locus
    hail.ReferenceGenome = RG.ReferenceGenome
    hail.genetics = sys.modules["hail.genetics"]
    hail.__pip_version__ = "0.2.133"

    # reference genomes from the repo resources
    refs = {}
    for name, fn in (("GRCh37", "grch37.json"), ("GRCh38", "grch38.json")):
        cfg = json.loads((repo / "hail/hail/resources/reference" / fn).read_text())
        refs[name] = RG.ReferenceGenome._from_config(cfg, _builtin=True)

    def get_reference(name):
        return refs[name]

    hail.get_reference = get_reference

    # dtype(): table lookup over the types built here (parsing needs parsimonious)
    known_types = {}

    def remember(t):
        known_types[str(t)] = t
        return t

    def fake_dtype(s):
        if isinstance(s, T.HailType):
            return s
        if s not in known_types:
            raise KeyError(f"fake dtype(): unknown type string {s!r}")
        return known_types[s]

    import hail.expr.matrix_type as MTY

    MTY.dtype = fake_dtype
    he.tmatrix = MTY.tmatrix
    hail.tmatrix = MTY.tmatrix

    # expression-level names needed at import time by combine.py (hail.expr.expressions itself is real: Interval()
    # imputes its point type through it); construct_expr / unify_all operate on the fake expressions
    import hail.expr.expressions as X

    he.expressions = X
    he.BooleanExpression = X.BooleanExpression
    he.StructExpression = X.StructExpression
    he.construct_expr = lambda *a, **k: Expr()
    he.unify_all = lambda *a, **k: (Expr(), Expr())
    ff = _FakeModule("hail.expr.functions")
    sys.modules["hail.expr.functions"] = ff
    he.functions = ff
    fe = _FakeModule("hail.experimental")
    fe.__path__ = []
    fe.define_function = lambda f, *types_, **k: FunctionStub()
    sys.modules["hail.experimental"] = fe
    fef = _FakeModule("hail.experimental.function")
    fef.Function = FunctionStub
    sys.modules["hail.experimental.function"] = fef
    hail.experimental = fe
    fir = _FakeModule("hail.ir")
    fir.TableMapRows = TableMapRows
    sys.modules["hail.ir"] = fir
    hail.ir = fir
    fmt = types.ModuleType("hail.matrixtable")
    fmt.MatrixTable = MatrixTable
    sys.modules["hail.matrixtable"] = fmt
    ftb = types.ModuleType("hail.table")
    ftb.Table = Table
    sys.modules["hail.table"] = ftb
    hail.Table = Table
    hail.MatrixTable = MatrixTable

    # hl.vds
    fvds = types.ModuleType("hail.vds")
    fvds.__path__ = [hp + "/vds"]
    sys.modules["hail.vds"] = fvds
    fvd = types.ModuleType("hail.vds.variant_dataset")
    fvd.VariantDataset = VariantDataset
    fvd.read_vds = read_vds
    fvd.store_ref_block_max_length = store_ref_block_max_length
    sys.modules["hail.vds.variant_dataset"] = fvd
    fvds.variant_dataset = fvd
    fvds.VariantDataset = VariantDataset
    fvds.read_vds = read_vds
    fvds.store_ref_block_max_length = store_ref_block_max_length
    fvds.write_variant_datasets = write_variant_datasets
    hail.vds = fvds

    # hl.<function>s that are evaluated
    hail.current_backend = lambda: Env._hc._backend
    Env._hc = types.SimpleNamespace(_backend=_BackendProxy())
    hail._get_flags = lambda *names: {n: world().flags.get(n) for n in names}
    hail._set_flags = lambda **kw: world().flags.update(kw)
    hail.struct = lambda **kw: StructExpr(**kw)
    hail.literal = lambda x, dtype=None: Lit(x)
    hail.flatten = lambda lit: Lit([y for x in _as_list(lit) for y in _as_list(x)])
    hail.enumerate = lambda lit: Lit(list(enumerate(_as_list(lit))))
    hail.rbind = lambda *a: a[-1](*a[:-1])
    hail.eval = lambda x: x

    def get_vcf_header_info(x):
        if isinstance(x, Expr):
            fn = object.__getattribute__(x, "_fn")
            if fn is None:
                return Expr()
            return Expr(lambda i: Header(fn(i)))
        return Header(x)

    hail.get_vcf_header_info = get_vcf_header_info
    hail.agg = _NS(collect=lambda e: Collect(e))

    def _zip_join_producers(contexts, make_producer, key, join_f):
        ctx = _as_list(contexts)
        make_producer(Expr())  # builds the (opaque) import/transform expression of the real code once
        return ZJP([p for (_i, p) in ctx])

    hail._zip_join_producers = _zip_join_producers
    hail.utils = _NS(Interval=real_utils.Interval, Struct=real_utils.Struct, FatalError=real_utils.FatalError,
                     range_table=lambda n, n_partitions=None: RangeTable(n))

    import hail.vds.combiner.combine as combine
    import hail.vds.combiner.variant_dataset_combiner as vdc

    vdc.uuid = _UuidNS
    calls = []

    def fake_calculate_new_intervals(mt, desired_average_partition_size, tmp_path):
        if not isinstance(mt, MatrixTable):
            raise TypeError("calculate_new_intervals of a non-matrix-table")
        calls.append(tmp_path)
        return ["<intervals computed from %s>" % tmp_path], None

    vdc.calculate_new_intervals = fake_calculate_new_intervals

    TS = remember(T.tstruct())
    for t in (T.tstruct(s=T.tstr), T.tstruct(locus=T.tlocus(refs["GRCh38"])), T.tstruct(locus=T.tlocus(refs["GRCh37"])),
              T.tstruct(LEN=T.tint32, GQ=T.tint32), T.tstruct(LA=T.tarray(T.tint32), LGT=T.tcall, GQ=T.tint32),
              T.tstruct(locus=T.tlocus(refs["GRCh38"]), alleles=T.tarray(T.tstr)),
              T.tstruct(locus=T.tlocus(refs["GRCh37"]), alleles=T.tarray(T.tstr))):
        remember(t)

    def dataset_type(rg):
        ref = MTY.tmatrix(global_type=TS, col_type=T.tstruct(s=T.tstr), col_key=["s"],
                          row_type=T.tstruct(locus=T.tlocus(rg)), row_key=["locus"],
                          entry_type=T.tstruct(LEN=T.tint32, GQ=T.tint32))
        var = MTY.tmatrix(global_type=TS, col_type=T.tstruct(s=T.tstr), col_key=["s"],
                          row_type=T.tstruct(locus=T.tlocus(rg), alleles=T.tarray(T.tstr)), row_key=["locus", "alleles"],
                          entry_type=T.tstruct(LA=T.tarray(T.tint32), LGT=T.tcall, GQ=T.tint32))
        return vdc.CombinerOutType(reference_type=ref, variant_type=var)

    ns = _NS(hail=hail, combine=combine, vdc=vdc, refs=refs, T=T, dataset_type=dataset_type, interval_calls=calls,
             FatalError=real_utils.FatalError, Interval=real_utils.Interval, Locus=LOC.Locus, RG=RG)
    _LOADED["ns"] = ns
    return ns


# ------------------------------------------------------------------------------------------------------
# The implementation under test, wrapped for replay / trace logging
TEMP = "tmp://t"
OUT = "out://result.vds"
SAVE = "tmp://t/plan.json"
_TMP_RE = re.compile(r"^tmp://t/combiner-intermediates/U(\d+)_(gvcf|vds)-combine_job(\d+)/dataset(?:_(\d+))?\.vds$")


def gvcf_path(i):
    return f"gs://in/g{i}.g.vcf.bgz"


def vds_path(j):
    return f"gs://in/v{j}.vds"


class Impl:
    """One combiner run on a private World.  par = dict(ng, vn, bf, batch, ext)."""

    def __init__(self, ns, par, intervals=None, rg="GRCh38"):
        self.ns = ns
        self.par = par
        self.w = World()
        set_world(self.w)
        ng, vn = par["ng"], list(par["vn"])
        self.leaf_of = {}
        self.cols_of = {}
        for i in range(1, ng + 1):
            p = gvcf_path(i)
            self.leaf_of[p] = i
            sid = f"name{i}" if par["ext"] else f"hdr{i}"
            self.cols_of[i] = (sid,)
            self.w.gvcf_sample[p] = f"hdr{i}"
        for j, n in enumerate(vn, 1):
            p = vds_path(j)
            self.leaf_of[p] = -j
            self.cols_of[-j] = tuple(f"v{j}s{k}" for k in range(n))
            self.w.add_input_vds(p, self.cols_of[-j])
        if par["ext"]:
            self.w.gvcf_sample["gs://in/header.vcf"] = "external"
        g = ns.refs[rg]
        if intervals is None:
            L, I = ns.Locus, ns.Interval
            c1, c2 = g.contigs[0], g.contigs[1]
            intervals = [I(L(c1, 1, g), L(c1, 1000, g), includes_end=True),
                         I(L(c1, 1001, g), L(c1, g.lengths[c1], g), includes_end=True),
                         I(L(c2, 1, g), L(c2, g.lengths[c2], g), includes_end=True)]
        self.intervals = intervals
        self.comb = ns.vdc.VariantDatasetCombiner(
            save_path=SAVE, output_path=OUT, temp_path=TEMP, reference_genome=g, dataset_type=ns.dataset_type(g),
            branch_factor=par["bf"], gvcf_batch_size=par["batch"], call_fields=["PGT"],
            vdses=[ns.vdc.VDSMetadata(vds_path(j), n) for j, n in enumerate(vn, 1)],
            gvcfs=[gvcf_path(i) for i in range(1, ng + 1)],
            gvcf_sample_names=[f"name{i}" for i in range(1, ng + 1)] if par["ext"] else None,
            gvcf_external_header="gs://in/header.vcf" if par["ext"] else None,
            gvcf_import_intervals=intervals, gvcf_info_to_keep=None,
            gvcf_reference_entry_fields_to_keep={"GQ"}, gvcf_save_filters=False)
        self.refused = 0
        # epoch = rank of the combiner object among those successfully constructed/loaded (a refused load also
        # draws a uuid but never becomes a combiner)
        self.epochs = {str(self.comb._uuid): 1}

    # ---- actions -----------------------------------------------------------------------------
    def step(self):
        set_world(self.w)
        self.comb.step()

    def save(self):
        set_world(self.w)
        self.comb.save()

    def crash(self):
        self.comb = None

    def load(self):
        set_world(self.w)
        self.comb = self.ns.vdc.load_combiner(SAVE)
        self.epochs[str(self.comb._uuid)] = len(self.epochs) + 1

    def load_refused(self):
        set_world(self.w)
        try:
            self.ns.vdc.load_combiner(SAVE)
        except self.ns.FatalError:
            self.refused += 1
            return True
        return False

    # ---- projection ----------------------------------------------------------------------------
    def _p(self, path):
        if path == OUT:
            return (0, "out", 0, 0)
        m = re.match(r"^gs://in/v(\d+)\.vds$", path)
        if m:
            return (0, "in", 0, int(m.group(1)))
        m = _TMP_RE.match(path)
        if m:
            return (self.epochs.get("U" + m.group(1), -1), "g" if m.group(2) == "gvcf" else "v", int(m.group(3)), int(m.group(4) or 0))
        return (-1, path, 0, 0)

    def _leaf(self, p):
        return self.leaf_of.get(p, p)

    def project(self):
        c = self.comb
        if c is None:
            mem = {"alive": False, "gvcfs": (), "names": (), "bins": {}, "job": 0, "epoch": 0}
        else:
            mem = {"alive": True,
                   "gvcfs": tuple(self._leaf(p) for p in c._gvcfs),
                   "names": tuple(int(n[4:]) if n.startswith("name") and n[4:].isdigit() else n for n in (c._gvcf_sample_names or ())),
                   "bins": {int(b): tuple({"path": self._p(md.path), "n": md.n_samples} for md in lst) for b, lst in c._vdses.items()},
                   "job": c._job_id,
                   "epoch": self.epochs.get(str(c._uuid), -1)}
        if SAVE in self.w.files:
            d = json.loads(self.w.files[SAVE])
            disk = {"saved": True, "gvcfs": tuple(self._leaf(p) for p in d["gvcfs"]),
                    "names": tuple(int(n[4:]) if n.startswith("name") and n[4:].isdigit() else n for n in (d["gvcf_sample_names"] or ())),
                    "vdses": tuple({"path": self._p(p), "n": n} for (p, n) in d["vdses"])}
        else:
            disk = {"saved": False, "gvcfs": (), "names": (), "vdses": ()}
        store = {}
        cols_ok = True
        for p, (leaves, cols) in self.w.datasets().items():
            if leaves in ("MISMATCH", "NOT-A-VDS"):
                store[self._p(p)] = (leaves,)
                cols_ok = False
                continue
            lv = tuple(self._leaf(x) for x in leaves)
            store[self._p(p)] = lv
            exp = tuple(c for leaf in lv for c in self.cols_of.get(leaf, ("?",)))
            if exp != tuple(cols):
                cols_ok = False
        return {"mem": mem, "disk": disk, "store": store, "cols_ok": cols_ok, "nextepoch": len(self.epochs) + 1}


def spec_view(st):
    """TLA+ state (parsed) -> same shape as Impl.project()."""
    def seq(x):
        return tuple(x) if not isinstance(x, dict) else tuple(x[k] for k in sorted(x))

    def ds(r):
        return {"path": tuple(r["path"]), "n": r["n"]}

    def bins(b):
        if isinstance(b, tuple):  # TLC prints a function with domain 1..n as a tuple
            return {i + 1: tuple(ds(r) for r in v) for i, v in enumerate(b)}
        return {int(k): tuple(ds(r) for r in v) for k, v in b.items()}

    m, d = st["mem"], st["disk"]
    mem = {"alive": m["alive"], "gvcfs": seq(m["gvcfs"]), "names": seq(m["names"]), "bins": bins(m["bins"]),
           "job": m["job"], "epoch": m["epoch"]}
    disk = {"saved": d["saved"], "gvcfs": seq(d["gvcfs"]), "names": seq(d["names"]), "vdses": tuple(ds(r) for r in d["vdses"])}
    s = st["store"]
    if isinstance(s, tuple):
        if s:
            raise ValueError("store printed as a non-empty tuple")
        s = {}  # the empty function prints as << >>
    store = {tuple(k): tuple(v["leaves"]) for k, v in s.items()}
    return {"mem": mem, "disk": disk, "store": store, "cols_ok": True, "nextepoch": st["nextepoch"]}


def impl_exception_is_finding(ns, exc):
    """An exception is a finding when the fake engine refused an operation or when it was raised inside the two
    anchored files; anything else is a defect of the harness."""
    if isinstance(exc, LineageError):
        return True
    tb = exc.__traceback__
    last = None
    while tb is not None:
        last = tb
        tb = tb.tb_next
    fn = last.tb_frame.f_code.co_filename if last else ""
    return fn.endswith(("variant_dataset_combiner.py", "combine.py"))
