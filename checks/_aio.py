"""Helpers shared by the checks of asyncio code (C26 cache, C20 gather): naming the entries of the
virtual loop's ready queue, TLC value conversion, replay of TLC counter-examples, reporting."""
from __future__ import annotations

import asyncio
import json

from vlib import tlc, tlaval, walk


# ---- ready queue ----------------------------------------------------------------------------------
def closure_vars(fn):
    """{free variable name: value} of a closure (empty cells skipped)."""
    out = {}
    code = getattr(fn, "__code__", None)
    cells = getattr(fn, "__closure__", None) or ()
    if code is None:
        return out
    for name, cell in zip(code.co_freevars, cells):
        try:
            out[name] = cell.cell_contents
        except ValueError:
            pass
    return out


def ready_handles(loop):
    return list(loop.pending_ready())


def handle_task(h):
    """The task whose step / wake-up this handle is, or None."""
    t = getattr(h._callback, "__self__", None)
    return t if t is not None and hasattr(t, "get_name") and hasattr(t, "_fut_waiter") else None


def handle_fn_name(h):
    return getattr(h._callback, "__name__", type(h._callback).__name__)


# ---- TLC values -----------------------------------------------------------------------------------
def fn(v, dom=None):
    """A TLA+ function over 1..n is printed as a sequence: give it back as {1: .., 2: ..}; dicts pass through."""
    if isinstance(v, (tuple, list)):
        return {i + 1: x for i, x in enumerate(v)}
    return dict(v)


def tla_set(xs):
    xs = list(xs)
    return "{" + ", ".join(json.dumps(x) if isinstance(x, str) else str(x) for x in xs) + "}"


def py(v):
    return tlaval.to_py(v)


# ---- replay of one TLC trace (counter-example) on the implementation -------------------------------
def replay_trace(trace, make_impl, apply_edge, project, view):
    """trace = [(action_header, state)] as parsed from TLC's output (first entry = initial predicate).
    Applies every action to a fresh implementation and compares the projected state after every step.
    Returns (reproduced: bool, info)."""
    impl = make_impl()
    steps = []
    try:
        d = walk.diff_states(view(trace[0][1]), project(impl))
        if d:
            return False, {"at": 0, "action": "<init>", "diff": d}
        for i, (hdr, st) in enumerate(trace[1:], 1):
            label = hdr.strip()
            if label.startswith("<"):
                label = label[1:]
            label = label.split(" line ")[0].rstrip(">").strip()
            name, args = tlc.parse_action_label(label)
            try:
                apply_edge(impl, name, args, trace[i - 1][1], st)
            except Exception as ex:  # the implementation cannot even take the step
                return False, {"at": i, "action": label, "error": repr(ex), "steps": steps}
            got = project(impl)
            d = walk.diff_states(view(st), got)
            steps.append(label)
            if d:
                return False, {"at": i, "action": label, "diff": d, "steps": steps}
        return True, {"steps": steps, "final": project(impl)}
    finally:
        close = getattr(impl, "close", None)
        if close:
            try:
                close()
            except Exception:
                pass


def mismatch_sig(prefix, m):
    name = tlc.parse_action_label(m.label)[0] if m.label != "<init>" else "init"
    return f"{prefix}:{name}:{','.join(sorted(m.diff))}"


def shutdown_loop(loop, rounds=6):
    """Finish every task of a virtual loop deterministically (cancel + run until idle) before the loop is dropped, so
    that no coroutine is finalised later by the garbage collector while another loop is running (a `finally:` or a
    bare `except:` of the code under test could then create tasks on the wrong loop).  Returns recorded loop errors."""
    from asyncio import tasks as _t
    for _ in range(rounds):
        pending = [t for t in _t.all_tasks(loop) if not t.done()]
        if not pending:
            break
        for t in pending:
            t.cancel()
        loop.run_until_idle(advance=False, max_steps=100_000)
    errs = [e for e in loop.errors if "exception was never retrieved" not in str(e.get("message", ""))]
    loop.dispose()
    return errs
