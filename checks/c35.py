"""C35 - common-subexpression rendering preserves meaning (hail.ir.renderer.CSERenderer).

Specs: specs/cse/IRSem.tla   (terms, big-step evaluator, engine scoping rules, the property RenderOk)
       specs/cse/IRDags.tla  (the bounded universe of well-typed, well-scoped expression DAGs)
       specs/cse/CSEAlg.tla  (the renderer itself as a transition system: one action per loop iteration of
                              CSEAnalysisPass / CSEPrintPass; invariant DoneOk = the property)
       specs/cse/CSEGen.tla / CSECheck.tla  (call/return binding B3: inputs out, verdicts back)

Binding: TLC enumerates the DAGs; the harness builds each one from real hail.ir objects (a shared node
index is ONE shared Python object), runs the real CSERenderer, reads the text back into a term table and
TLC (CSECheck) decides scoping and value equality against the inlined DAG in all small environments.
Expression-API programs (hl.if_else / map / filter / fold / struct / bind / array.aggregate, Table.annotate with hl.scan.*,
MatrixTable.annotate_rows / annotate_cols with hl.agg.* next to hl.scan.*) go the same way,
their "inlined" side being the text of the plain (non-CSE) renderer.  The abstract renderer (CSEAlg) is
model-checked on the same universes with the two repair flags MEASURED on the code under test; its
counter-examples are replayed on the code and its outputs are compared with the code's outputs.
"""
from __future__ import annotations

import concurrent.futures as cf
import json
import random
import re
import time
from pathlib import Path

from vlib import loader, tlc, tlaval
from . import _cse

LEVEL = "model_checking"
MANIFEST = {
    "technique": "TLA+ term semantics + scoping rules (IRSem.tla), DAG universe (IRDags.tla) and the renderer as a transition system "
                 "(CSEAlg.tla, one action per loop iteration of the analysis and print passes) model-checked by TLC; call/return "
                 "conformance (B3): TLC enumerates expression DAGs, the real CSERenderer renders each (built from real hail.ir "
                 "objects with shared Python objects, and through the expression API), TLC judges the parsed text",
    "text": "Exhaustive over all well-typed, well-scoped expression DAGs with sharing up to a stated node bound per operator "
            "profile (arithmetic/If/Let, stream map/filter/fold, structs, aggregation and scan contexts incl. MatrixMapRows/Cols and "
            "TableMapRows binding sites with one node shared between agg and scan arguments, mixed), plus TLC -simulate samples of "
            "larger DAGs and a fixed set of expression-API programs; every rendered text is parsed and judged by TLC (well-scoped "
            "under the engine's eval/agg/scan binding rules AND equal value to the inlined DAG in all small environments). The abstract "
            "algorithm is checked against the same property on the same universes and its outputs are compared with the code's.",
    "note": "Trusts: TLC + CommunityModules; the IR-text reader and hail.ir builders in checks/_cse.py; the evaluator is the "
            "specification (no engine offline): Int32 modulo 1001, missing values propagate, Sum/Max/Count/Collect aggregators, a "
            "scan = the aggregation over the previous elements; relational nodes only as binding sites over a fixed 3x2 range "
            "(matrix) table; randomness and effects are outside the fragment. Larger DAGs are sampled, not enumerated.",
    "design_ref": "DESIGN.md section 5, C35",
}

# (profile, N, uniq)  -- binding universes (DAGs with at least one shared node)
GEN = {
    "quick": [("arith", 4, 1), ("stream", 4, 1), ("struct", 4, 1), ("agg", 4, 1), ("aggmap", 5, 1), ("xstream", 4, 1),
              ("all", 3, 1), ("arith", 3, 0), ("stream", 4, 0), ("aggscan", 7, 1), ("tscan", 5, 1), ("ascan", 5, 1)],
    "thorough": [("arith", 5, 1), ("stream", 5, 1), ("struct", 5, 1), ("agg", 5, 1), ("aggmap", 5, 1), ("xstream", 5, 1),
                 ("xagg", 6, 1), ("all", 4, 1), ("ifadd", 6, 1), ("arith", 4, 0), ("stream", 4, 0), ("agg", 5, 0), ("aggmap", 5, 0),
                 ("aggmap", 6, 1), ("agg", 6, 1), ("aggscan", 8, 1), ("tscan", 6, 1), ("ascan", 6, 1), ("xscan", 6, 1), ("ascan", 5, 0), ("colscan", 7, 1)],
}
# abstract renderer, exhaustive (profile, N, uniq)
MODEL = {
    "quick": [("arith", 3, 1), ("aggmap", 4, 1), ("ifadd", 4, 1), ("aggscan", 6, 1)],
    "thorough": [("arith", 4, 1), ("stream", 4, 1), ("struct", 4, 1), ("agg", 5, 1), ("aggmap", 5, 1), ("ifadd", 5, 1),
                 ("xagg", 5, 1), ("xstream", 4, 1), ("all", 3, 1), ("stream", 4, 0), ("aggscan", 7, 1), ("tscan", 5, 1), ("xscan", 5, 1)],
}
SIM = {"quick": [("all", 7, 60)], "thorough": [("all", 8, 1500), ("aggmap", 8, 1000), ("ifadd", 8, 1000)]}
MODEL_INVARIANTS = ["DoneOk", "NoCrash", "StackIsPath", "DepthsInRange"]
MODEL_INVARIANTS_REPAIRED = ["LiftXorInsert", "NoStaleBinding"]     # state invariants that only the repaired print pass has
SAMPLE_ABOVE = 8000   # a universe with more DAGs than this is sampled (seeded) down to this many; the evidence says which
CHUNK = 1200
EXPLICIT = ("xstream", "xagg", "xscan")      # profiles whose DAGs carry explicit ToStream / ToArray nodes

# witnesses of the renderer defects this check found (specification DAG vocabulary): StreamAgg free-variable
# bookkeeping (2) and the binding-site confusion of the print pass (crash / stale frame).  They are replayed on the
# code under test to MEASURE the model's repair flags and always run through the normal verdict path
W_STREAMAGG_FV = {"implicit": True, "root": 1, "nodes": [
    {"op": "StreamMap", "k": [2, 3], "n": ["x1"], "v": 0}, {"op": "Ref", "k": [], "n": ["a"], "v": 0},
    {"op": "Add", "k": [4, 4], "n": [], "v": 0}, {"op": "StreamAgg", "k": [5, 6], "n": ["x4"], "v": 0},
    {"op": "Ref", "k": [], "n": ["a"], "v": 0}, {"op": "Ref", "k": [], "n": ["x1"], "v": 0}]}
W_SITE_CRASH = {"implicit": True, "root": 1, "nodes": [
    {"op": "Add", "k": [2, 5], "n": [], "v": 0}, {"op": "Add", "k": [3, 3], "n": [], "v": 0},
    {"op": "Add", "k": [4, 4], "n": [], "v": 0}, {"op": "I32", "k": [], "n": [], "v": 2},
    {"op": "If", "k": [6, 3, 4], "n": [], "v": 0}, {"op": "LT", "k": [4, 4], "n": [], "v": 0}]}
W_SITE_STALE = {"implicit": True, "root": 1, "nodes": [
    {"op": "Add", "k": [2, 6], "n": [], "v": 0}, {"op": "Add", "k": [3, 4], "n": [], "v": 0},
    {"op": "Add", "k": [4, 5], "n": [], "v": 0}, {"op": "Add", "k": [5, 5], "n": [], "v": 0},
    {"op": "I32", "k": [], "n": [], "v": 2}, {"op": "If", "k": [7, 5, 4], "n": [], "v": 0},
    {"op": "LT", "k": [5, 5], "n": [], "v": 0}]}
W_NESTED_AGG = {"implicit": True, "root": 1, "nodes": [
    {"op": "StreamAgg", "k": [2, 4], "n": ["x1"], "v": 0}, {"op": "MakeArray", "k": [3], "n": [], "v": 0},
    {"op": "I32", "k": [], "n": [], "v": 2}, {"op": "StreamAgg", "k": [5, 8], "n": ["x4"], "v": 0},
    {"op": "AggExplode", "k": [6, 7], "n": ["x5"], "v": 0}, {"op": "Ref", "k": [], "n": ["a"], "v": 0},
    {"op": "MakeArray", "k": [3], "n": [], "v": 0}, {"op": "I32", "k": [], "n": [], "v": 2}]}
# one node shared twice inside an aggregator argument and once in a scan argument of the same MatrixMapRows site
W_AGG2_SCAN1 = {"implicit": True, "root": 1, "nodes": [
    {"op": "Site", "k": [2], "n": ["mrows"], "v": 0}, {"op": "Add", "k": [3, 7], "n": [], "v": 0},
    {"op": "AggSum", "k": [4], "n": [], "v": 0}, {"op": "Add", "k": [5, 5], "n": [], "v": 0},
    {"op": "GetField", "k": [6], "n": ["row_idx"], "v": 0}, {"op": "Ref", "k": [], "n": ["va"], "v": 0},
    {"op": "ScanSum", "k": [5], "n": [], "v": 0}]}
W_SCAN2_AGG1 = {"implicit": True, "root": 1, "nodes": [
    {"op": "Site", "k": [2], "n": ["mrows"], "v": 0}, {"op": "Add", "k": [3, 7], "n": [], "v": 0},
    {"op": "ScanSum", "k": [4], "n": [], "v": 0}, {"op": "Add", "k": [5, 5], "n": [], "v": 0},
    {"op": "GetField", "k": [6], "n": ["row_idx"], "v": 0}, {"op": "Ref", "k": [], "n": ["va"], "v": 0},
    {"op": "AggSum", "k": [5], "n": [], "v": 0}]}
WITNESSES = {"w:agg-twice-scan-once": W_AGG2_SCAN1, "w:scan-twice-agg-once": W_SCAN2_AGG1,
             "w:streamagg-result-uses-outer-var": W_STREAMAGG_FV, "w:nested-streamagg-source-uses-agg-var": W_NESTED_AGG, "w:site-crash": W_SITE_CRASH, "w:site-stale": W_SITE_STALE}


# ------------------------------------------------------------------------------------------------
def _free_recs(names):
    return [{"n": x, "ty": "a" if x == "a" else "i"} for x in sorted(names)]


def _free_of(dag):
    # free variables of a generated DAG: g (Int32) / a (Array[Int32]) occurrences that no binder binds
    return {nd["n"][0] for nd in dag["nodes"] if nd["op"] == "Ref" and nd["n"][0] in ("g", "h", "a")}


class Renderer:
    def __init__(self):
        loader.install()
        import hail as hl
        from hail import ir
        from hail.ir.renderer import CSERenderer

        self.hl, self.ir, self.CSE = hl, ir, CSERenderer

    def case_from_dag(self, cid, dag, unwrap=True, share_refs=False):
        """render one specification DAG with the real renderer -> (case | None, fault | None)"""
        root, _ = _cse.build_ir(dag, self.hl, self.ir, unwrap=unwrap, share_refs=share_refs)
        plain = str(root)
        ptab = _cse.text_to_table(plain)
        drop = ("Id", "ToStream", "ToArray")
        if _cse.unfold(ptab, drop) != _cse.unfold(dag, drop):
            raise RuntimeError(f"harness: the IR built for {cid} does not unfold to the DAG\n{plain}\n{dag}")
        if any(dag["nodes"][i - 1]["op"] != "Ref" for i in _cse.shared_nodes(dag)) and not _cse.has_shared_objects(root):
            raise RuntimeError(f"harness: the IR built for {cid} has no shared Python object although the DAG shares a node")
        free = _free_recs(_free_of(dag))
        # a binding-site root gets a new-row wrapper from the harness: its inlined side is the plain renderer's text
        orig = ptab if dag["nodes"][dag["root"] - 1]["op"] == "Site" else {"nodes": dag["nodes"], "root": dag["root"]}
        return self._render(cid, root, orig, free, plain)

    def case_from_expr(self, cid, expr):
        root = expr._ir if hasattr(expr, "_ir") else getattr(expr, "_mir", None) or expr._tir
        plain = str(root)
        return self._render(cid, root, _cse.text_to_table(plain), [], plain)

    def _render(self, cid, root, orig, free, plain):
        try:
            text = self.CSE()(root)
        except Exception as ex:  # the renderer itself failed on a valid expression
            import traceback
            where = traceback.extract_tb(ex.__traceback__)[-1]
            return None, {"id": cid, "sig": f"cse:crash:{type(ex).__name__}", "plain": plain,
                          "where": f"{Path(where.filename).name}:{where.lineno} {where.line}"}
        try:
            rend = _cse.text_to_table(text)
        except _cse.Malformed as ex:
            return None, {"id": cid, "sig": "cse:malformed-text", "plain": plain, "text": text, "why": str(ex)}
        return {"id": cid, "free": free, "lifted": _cse.lifted_names(rend), "orig": orig, "rend": rend,
                "_text": text, "_plain": plain}, None


def _strip(case):
    return {k: v for k, v in case.items() if not k.startswith("_")}


def blame(case, name):
    """diagnostic only: head of the lifted binding (innermost __cse Let value) that contains a Ref to `name`"""
    nodes = case["rend"]["nodes"]
    best = ["-"]

    def go(i, inside):
        nd = nodes[i - 1]
        if nd["op"] == "Ref" and nd["n"][0] == name and inside:
            best[0] = inside
        for pos, c in enumerate(nd["k"]):
            ins = inside
            if nd["op"] in _cse.LET_OPS and pos == 0 and _cse.CSE_NAME.match(nd["n"][0]):
                ins = _value_head(nodes, c)
            go(c, ins)

    go(case["rend"]["root"], None)
    return best[0]


def _value_head(nodes, i):
    nd = nodes[i - 1]
    while nd["op"] in ("Id", "ToArray", "ToStream"):
        nd = nodes[nd["k"][0] - 1]
    return nd["op"]


def signatures(case, v):
    sigs = []
    for p in v["problems"]:
        x = p["x"]
        if p["why"] == "noagg":
            sigs.append("cse:scope:aggregation-outside-agg-context")
        elif p["why"] == "noscan":
            sigs.append("cse:scope:scan-outside-scan-context")
        elif p["why"] == "wrongscope":
            sigs.append("cse:scope:wrong-context:" + ("lifted-name" if _cse.CSE_NAME.match(x) else "user-var"))
        elif _cse.CSE_NAME.match(x):
            bound = any(nd["op"] in _cse.LET_OPS and nd["n"][0] == x for nd in case["rend"]["nodes"])
            sigs.append("cse:scope:unbound-lifted-name:" + ("bound-elsewhere" if bound else "bound-nowhere"))
        else:
            sigs.append(f"cse:scope:unbound-user-var:lifted={blame(case, x)}")
    if v["scoped"] and not v["same"]:
        sigs.append("cse:value-differs")
    return sorted(set(sigs))


# ------------------------------------------------------------------------------------------------
def gen_universe(wd_root, profile, n, uniq, shared=True):
    wd = tlc.prepare_dir(wd_root / f"gen_{profile}_{n}_{uniq}", ["cse"])
    tlc.evaluate(wd, "CSEGen", env={"CSE_PROFILE": profile, "CSE_N": n, "CSE_UNIQ": uniq, "CSE_SHARED": 1 if shared else 0,
                                    "CSE_DAGS": wd / "dags.ndjson"}, timeout=1700)
    dags = [json.loads(l) for l in (wd / "dags.ndjson").read_text().splitlines() if l.strip()]
    for d in dags:
        d["implicit"] = profile not in EXPLICIT
    return dags


_OUT = re.compile(r'^"CSEOUT (.*)"\s*$')


def run_model(ctx, wd_root, profile, n, uniq, flags, *, emit=False, simulate=None, seeds=None, tag="", cont=False):
    """model-check (or simulate) the abstract renderer; -> (TLCResult, [(dag, out-table)] emitted)"""
    name = f"alg_{profile}_{n}_{uniq}{tag}"
    wd = tlc.prepare_dir(wd_root / name, ["cse"])
    consts = {"PROFILE": f'"{profile}"', "N": n, "UNIQ": "TRUE" if uniq else "FALSE", "FIXFV": "TRUE" if flags["fv"] else "FALSE",
              "FIXSITE": "TRUE" if flags["site"] else "FALSE", "EMIT": "TRUE" if emit else "FALSE",
              "MODE": '"file"' if seeds is not None else '"enum"'}
    invs = MODEL_INVARIANTS + (MODEL_INVARIANTS_REPAIRED if flags["site"] else []) + ([] if ctx.quick or simulate else ["UidsDistinct"])
    (wd / "MC.cfg").write_text(tlc.mk_cfg(spec="Spec", constants=consts, invariants=invs))
    env = {}
    if seeds is not None:
        with open(wd / "seeds.ndjson", "w") as f:
            for d in seeds:
                f.write(json.dumps({"nodes": [dict(nd, ty=_ty(nd, d), par=0) for nd in d["nodes"]]}) + "\n")
        env["CSE_SEEDS"] = wd / "seeds.ndjson"
    kw = {}
    if simulate:
        kw = {"simulate": f"num={simulate}", "depth": 400, "seed": ctx.seed + 7}
    res = tlc.run(wd, "CSEAlg", "MC.cfg", workers=max(2, min(6, ctx.workers // 3)), coverage=False,   # -coverage costs ~30 s of start-up
                  env=env, timeout=1700, cont=cont, **kw)
    pairs = []
    if emit:
        seen = set()
        for ln in res.out.splitlines():
            m = _OUT.match(ln)
            if not m or m.group(1) in seen:
                continue
            seen.add(m.group(1))
            dag, out, root = tlaval.to_py(tlaval.parse_value(m.group(1).replace('\\"', '"').replace("\\\\", "\\")))
            pairs.append(({"nodes": _py_nodes(dag), "root": 1, "implicit": profile not in EXPLICIT},
                          {"nodes": _py_nodes(out), "root": root}))
    return res, pairs


def _ty(nd, dag):
    if not dag.get("implicit", True) and nd["op"] in ("ToStream", "StreamMap", "StreamFilter", "StreamAggScan"):
        return "s"
    return "x"


def _py_nodes(seq):
    return [{"op": nd["op"], "k": list(nd["k"]), "n": list(nd["n"]), "v": nd["v"]} for nd in seq]


def probe_flags(R):
    """measure on the code under test whether the two repairs modelled by FIXFV / FIXSITE are present"""
    hl, ir = R.hl, R.ir
    sa = ir.StreamAgg(ir.ToStream(ir.Ref("a", hl.tarray(hl.tint32))), "x", ir.Ref("y", hl.tint32))
    sb = ir.StreamAgg(ir.ToStream(ir.ApplyAggOp("Collect", [], [ir.Ref("z", hl.tint32)])), "x", ir.I32(0))
    fv = "y" in sa.free_vars and "z" in sb.free_agg_vars
    site = True
    for w in (W_SITE_CRASH, W_SITE_STALE):     # both witnesses use eval-scope Lets only
        case, fault = R.case_from_dag("probe", w)
        if fault is not None or not _lets_scoped(case["rend"]):
            site = False
    return {"fv": fv, "site": site}


def _lets_scoped(tab):
    """coarse probe used only to pick the model flags (the verdicts are TLC's): every Ref is under a Let binding it"""
    nodes = tab["nodes"]

    def go(i, env):
        nd = nodes[i - 1]
        if nd["op"] == "Ref":
            return nd["n"][0] in env
        if nd["op"] == "Let":
            return go(nd["k"][0], env) and go(nd["k"][1], env | {nd["n"][0]})
        return all(go(c, env) for c in nd["k"])

    return go(tab["root"], frozenset())


def needs_nounwrap(dag):
    nodes = dag["nodes"]
    if not dag.get("implicit"):
        return False
    for nd in nodes:
        if nd["op"] in ("StreamMap", "StreamFilter", "StreamFold", "StreamAgg", "AggExplode"):
            if nodes[nd["k"][0] - 1]["op"] in ("StreamMap", "StreamFilter"):
                return True
    return False


# ------------------------------------------------------------------------------------------------
def judge_chunk(wd_root, ix, chunk):
    wd = tlc.prepare_dir(wd_root / f"judge{ix}", ["cse"])
    with open(wd / "cases.ndjson", "w") as f:
        for c in chunk:
            f.write(json.dumps(_strip(c)) + "\n")
    tlc.evaluate(wd, "CSECheck", env={"CSE_CASES": wd / "cases.ndjson", "CSE_VERDICT": wd / "verdict.ndjson"}, timeout=1700)
    vs = [json.loads(l) for l in (wd / "verdict.ndjson").read_text().splitlines() if l.strip()]
    if len(vs) != len(chunk) or any(v["id"] != c["id"] for v, c in zip(vs, chunk)):
        raise RuntimeError("verdict file does not match the cases")
    return vs


def run(ctx):
    R = Renderer()
    tier = ctx.tier
    wd_root = ctx.build / "tlc"
    wd_root.mkdir(parents=True, exist_ok=True)
    rng = random.Random(ctx.seed)
    flags = probe_flags(R)
    ctx.note(f"model repair flags measured on the code under test: StreamAgg.free_vars complete={flags['fv']}, "
             f"lifted child never a binding frame={flags['site']}")
    t0 = time.time()
    cases, faults, judged = [], [], []        # judged: [(chunk, future)]
    buf = []
    per_universe, by_dag, model_cex, sampled = {}, {}, [], {}
    n_dags = 0
    t_render = 0.0

    with cf.ThreadPoolExecutor(max_workers=10) as ex:
        def flush(force=False):
            while len(buf) >= CHUNK or (force and buf):
                chunk = buf[:CHUNK]
                del buf[:CHUNK]
                judged.append((chunk, ex.submit(judge_chunk, wd_root, len(judged), chunk)))

        def add(cid, dag, **kw):
            c, f = R.case_from_dag(cid, dag, **kw)
            if c is not None:
                cases.append(c)
                buf.append(c)
            else:
                faults.append(f)
            return c

        # ---- 1. TLC jobs: DAG universes for the binding; the abstract renderer (exhaustive, simulated, witnesses) ----
        futs = {}
        for (p, n, u) in GEN[tier]:
            futs[ex.submit(gen_universe, wd_root, p, n, u)] = ("gen", p, n, u)
        for (p, n, u) in MODEL[tier]:
            futs[ex.submit(run_model, ctx, wd_root, p, n, u, flags, emit=True)] = ("model", p, n, u)
        for (p, n, num) in SIM[tier]:
            futs[ex.submit(run_model, ctx, wd_root, p, n, 1, flags, emit=True, simulate=num, tag="_sim")] = ("sim", p, n, num)
        futs[ex.submit(run_model, ctx, wd_root, "all", 12, 1, flags, seeds=list(WITNESSES.values()), tag="_wit", cont=True)] = ("seed", "all", 12, 1)

        # expression-API programs and the witnesses do not wait for TLC
        tr = time.time()
        api = _cse.api_cases(R.hl)
        for name, f in api.items():
            c, fault = R.case_from_expr("api:" + name, f())
            if c is not None:
                cases.append(c)
                buf.append(c)
            else:
                faults.append(fault)
        for name, d in WITNESSES.items():
            add(name, d)
        t_render += time.time() - tr

        # ---- 2. as each TLC job finishes: render its DAGs with the real renderer, hand the texts to TLC (CSECheck) ----
        for fut in cf.as_completed(list(futs)):
            k = futs[fut]
            tr = time.time()
            if k[0] == "gen":
                dags = fut.result()
                _, p, n, u = k
                uname = f"{p}/{n}/{'uniq' if u else 'shadow'}"
                per_universe[uname] = len(dags)
                if len(dags) > SAMPLE_ABOVE:
                    keep = set(random.Random(ctx.seed + n).sample(range(len(dags)), SAMPLE_ABOVE))
                    sampled[uname] = SAMPLE_ABOVE
                else:
                    keep = None
                for i, d in enumerate(dags):
                    if keep is not None and i not in keep:
                        continue
                    n_dags += 1
                    cid = f"{p}{n}{'u' if u else 's'}:{i}"
                    add(cid, d)
                    if needs_nounwrap(d):
                        add(cid + "/nounwrap", d, unwrap=False)
                    if rng.random() < (0.15 if ctx.quick else 0.05):
                        add(cid + "/sharedrefs", d, share_refs=True)
            else:
                res, pairs = fut.result()
                what = {"model": "abstract renderer, all DAGs of", "sim": "abstract renderer, TLC -simulate over",
                        "seed": "abstract renderer on the witness DAGs"}[k[0]] + " " + "/".join(str(x) for x in k[1:])
                ctx.add_tlc(res, what)
                if k[0] == "model" and not res.violations:
                    # vacuity guard (instead of -coverage): the run finished DAGs, and lifted something where sharing exists
                    if not pairs or not any(nd["op"] in _cse.LET_OPS and _cse.CSE_NAME.match(nd["n"][0]) for _, o in pairs for nd in o["nodes"]):
                        raise RuntimeError(f"vacuous model run {what}: no DAG finished / nothing lifted")
                for d, o in pairs:     # DAGs the model emitted: render them too (model-vs-code comparison; larger sampled DAGs)
                    key = json.dumps(d["nodes"], sort_keys=True)
                    if key in by_dag:
                        continue
                    cid = f"m:{k[0]}:{k[1]}{k[2]}:{len(by_dag)}"
                    by_dag[key] = (cid, add(cid, d, unwrap=False), o, _cse.wrapper_free(d))
                for v in res.violations:
                    st = v.trace[-1][1] if v.trace else None
                    if st and "P" in st:
                        dag = {"nodes": _py_nodes(st["P"]["nodes"]), "root": 1, "implicit": k[1] not in EXPLICIT}
                        cid = f"cex:{v.name}:{len(model_cex)}"
                        model_cex.append((v.name, k, cid))
                        add(cid, dag, unwrap=False)
            t_render += time.time() - tr
            flush()
        flush(force=True)
        t_wait = time.time()
        verdicts = [v for chunk, f in judged for v in f.result()]
        cases = [c for chunk, f in judged for c in chunk]
    t_total = time.time() - t0

    # ---- 3. verdicts (computed by TLC) ---------------------------------------------------------------------
    bad_inputs = [v["id"] for v in verdicts if not v["orig_ok"] or v["orig_err"]]
    if bad_inputs:
        raise RuntimeError(f"harness: input DAGs not well scoped / not evaluable under the specification: {bad_inputs[:5]}")
    n_lift = sum(1 for v in verdicts if v["nlifted"] > 0)
    if n_lift == 0:
        ctx.note("the renderer under test never introduced a binding (common-subexpression lifting inactive): "
                 "the property holds trivially; the harness did hand it shared objects (checked per DAG)")
    seen_sig = {}
    for c, v in zip(cases, verdicts):
        for sig in signatures(c, v):
            seen_sig[sig] = seen_sig.get(sig, 0) + 1
            ctx.violation(sig, {"case": c["id"], "inlined_ir": c["_plain"], "rendered_ir": c["_text"], "problems": v["problems"],
                                "witness": v["witness"]})
    for f in faults:
        seen_sig[f["sig"]] = seen_sig.get(f["sig"], 0) + 1
        ctx.violation(f["sig"], f)
    unused = [c["id"] for c in cases
              if set(c["lifted"]) - {nd["n"][0] for nd in c["rend"]["nodes"] if nd["op"] == "Ref"}]
    if unused:
        ctx.note(f"{len(unused)} rendered texts bind a lifted name that is never referenced, e.g. {unused[:3]} (harmless; not required by the property)")
    captures = [v["id"] for v in verdicts if v["capture"]]
    if captures:
        ctx.note(f"a lifted binder re-uses a user variable name in {len(captures)} cases, e.g. {captures[:3]} (not required by the property)")

    # ---- 4. model vs code ----------------------------------------------------------------------------------
    drop = ("Id", "ToStream", "ToArray")
    vmap = {v["id"]: v for v in verdicts}
    agree = differ = incomparable = 0
    diff_examples = []
    for key, (cid, c, o, comparable) in by_dag.items():
        if c is None:
            continue
        if not comparable:      # the real IR has cast / ToStream nodes the specification DAG does not have: depths differ
            incomparable += 1
        elif _cse.unfold(c["rend"], drop) == _cse.unfold(o, drop):
            agree += 1
        else:
            differ += 1
            if len(diff_examples) < 3:
                diff_examples.append({"case": cid, "code": c["_text"]})
    if differ:
        ctx.note(f"abstract renderer and code printed different terms for {differ} of {agree + differ} comparable DAGs, e.g. {diff_examples}")
    fault_ids = {f["id"] for f in faults}
    for inv, k, cid in model_cex:
        reproduced = cid in fault_ids or (cid in vmap and (not vmap[cid]["scoped"] or not vmap[cid]["same"]))
        ctx.note(f"abstract renderer violates {inv} on a DAG of {'/'.join(map(str, k[1:]))}; replayed on the code ({cid}): "
                 f"{'reproduced' if reproduced else 'NOT reproduced (model and code differ here)'}")

    # ---- evidence ------------------------------------------------------------------------------------------
    n_cases = len(cases) + len(faults)
    ctx.cov["states"] += 2 * n_cases
    ctx.cov["transitions"] += n_cases
    ctx.cov.update(traces_validated_against_impl=n_cases, evaluations=n_cases,
                   distinct_nontrivial=n_lift, exhaustive=True,
                   rule="every DAG with >=1 shared node of the listed universes (profile/maxnodes/naming) is rendered by the real "
                        "CSERenderer and judged by TLC (scoping + equal value in all small environments); non-trivial = the "
                        "renderer introduced at least one binding; larger DAGs come from TLC -simulate of CSEAlg; the model is "
                        "checked exhaustively on its own universes")
    ctx.cov["universes"] = per_universe
    ctx.cov["universes_sampled_not_exhaustive"] = sampled
    ctx.cov["dags_enumerated"] = n_dags
    ctx.cov["api_programs"] = len(api)
    ctx.cov["model_vs_code"] = {"same_term": agree, "different_term": differ, "not_comparable_wrappers": incomparable}
    ctx.cov["signatures"] = seen_sig
    ctx.cov["wall_parts_s"] = {"total_pipeline": round(t_total, 1), "render_python": round(t_render, 1),
                               "waiting_for_last_verdicts": round(time.time() - t_wait, 1)}
    for c, v in list(zip(cases, verdicts))[:2] + [(c, v) for c, v in zip(cases, verdicts) if c["id"].startswith("api:")][:3]:
        ctx.sample({"case": c["id"], "inlined": c["_plain"][:300], "rendered": c["_text"][:300], "scoped": v["scoped"], "same": v["same"]})
    ctx.assume("the evaluator and the binding rules of specs/cse/IRSem.tla are the oracle (no engine offline): Int32 in Z/1001, "
               "missing values propagate, Sum skips missing, errors (ArrayRef/Die) are outside the fragment",
               "casts (Cast, toInt64, CastToArray) and ToStream/ToArray are identities in the specification",
               "a call/return pair is a two-state behaviour Call(dag) -> Return(text); states/transitions count those plus TLC's own")
