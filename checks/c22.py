"""C22 - the copy tool reproduces sources exactly (local paths).

Spec: specs/copy/CopyTool.tla.
  part 1  Expected(case): the documented destination rules over abstract trees; TLC first shows that Expected
          reproduces the repository's own golden table (copy_test_specs.py, 324 configurations) - a test of the
          specification; then binding B3: TLC enumerates the cases, the harness materialises each one under
          build/C22/run, runs the real Copier.copy on RouterAsyncFS/LocalAsyncFS (part size / buffer size patched to a
          few bytes, file sizes 0..9, several semaphore sizes), records the destination tree as <<path, identity of the
          bytes>> or the exception class, and TLC computes the verdict.
  part 2  the multi-part arithmetic as a state machine, model-checked exhaustively (all interleavings of the parts),
          and bound by trace validation (B2, CopyToolTrace.tla): every chunk the real _copy_part/_copy_file moved in the
          part-boundary sweep is replayed as a step of the machine.
"""
from __future__ import annotations

import asyncio
import hashlib
import json
import os
import random
import shutil
from concurrent.futures import ThreadPoolExecutor

from vlib import loader, tlc
from vlib.runner import MachineryError

LEVEL = "model_checking"
MANIFEST = {
    "technique": "TLA+ specification (CopyTool.tla): destination rules as Expected(case) over abstract trees, validated by TLC against the repository's golden table; multi-part arithmetic as a state machine model-checked by TLC and bound by trace validation (B2); call/return conformance (B3) of the real Copier.copy on LocalAsyncFS with TLC-enumerated cases and TLC-computed verdict on the resulting bytes",
    "text": "TLC enumerates source layouts (file, directory, nested directory, colliding directory, empty, missing; single / list / two sources; trailing slashes) x destination states x destination spellings x treat_dest_as modes, plus a sweep of every file size 0..MaxSize against every part and buffer size; the real copier runs on each under several semaphore sizes and TLC judges the resulting tree or exception class; the part machine is checked exhaustively under all interleavings and the recorded chunk sequences of the real code are validated against it.",
    "note": "Trusts: TLC + CommunityModules; the transcription of the documented rules (cross-checked against the repo's golden table inside the check); the local file system of the sandbox; interleavings of the real run come from the thread pool and the semaphore size (the verdict is on final bytes only). os.fsync is a no-op during the run.",
    "design_ref": "DESIGN.md section 5, C22; Appendix F",
}

SEMAS = (1, 2, 50)


# ------------------------------------------------------------------------------------------------ golden table
def _golden_rows(repo):
    p = repo / "hail/python/test/hailtop/inter_cloud/copy_test_specs.py"
    ns: dict = {}
    exec(compile(p.read_text(), str(p), "exec"), ns)  # a pure data module: COPY_TEST_SPECS = [...]
    rows = []
    for t in ns["COPY_TEST_SPECS"]:
        r = t["result"]
        if "exception" in r:
            out = {"kind": "error", "cls": r["exception"], "files": []}
        else:
            files = []
            for path, content in sorted(r["files"].items()):
                # contents in the table are "<tree>/<path>"; the empty "keep" file marks the destination root
                if content == "":
                    cid = {"o": "dest", "p": ["keep"]}
                else:
                    o, _, rest = content.partition("/")
                    cid = {"o": o, "p": rest.split("/")}
                files.append({"p": path.strip("/").split("/"), "c": cid})
            out = {"kind": "tree", "cls": "", "files": files}
        rows.append({"src_type": t["src_type"], "dest_type": t["dest_type"], "dest_basename": t["dest_basename"] or "root",
                     "treat_dest_as": t["treat_dest_as"], "src_trailing_slash": t["src_trailing_slash"],
                     "dest_trailing_slash": t["dest_trailing_slash"], "out": out})
    return rows


# ------------------------------------------------------------------------------------------------ harness
def _content(idx: int, key: str, size: int, seed: int) -> bytes:
    """size bytes; byte 0 is the file's index in the case, so distinct non-empty files never coincide."""
    if size == 0:
        return b""
    h = b""
    k = 0
    while len(h) < size:
        h += hashlib.sha256(f"{seed}/{key}/{k}".encode()).digest()
        k += 1
    return bytes([idx]) + h[: size - 1]


def _sizes(rng, n_files, fixed, ps):
    if fixed >= 0:
        return [fixed] * n_files
    # around the part boundaries of part size ps: 0, 1, ps-1, ps, ps+1, 2ps, 2ps+1, 9
    pool = [0, 1, ps - 1, ps, ps + 1, 2 * ps, 2 * ps + 1, 9, 5, 3]
    return [rng.choice(pool) for _ in range(n_files)]


def _make_logging_fs(LocalAsyncFS, log):
    """LocalAsyncFS that records which byte ranges are read and written (for trace validation); behaviour unchanged."""

    class LoggingLocalFS(LocalAsyncFS):
        async def open(self, url):
            s = await super().open(url)
            if log.get("on"):
                real_read = s.read

                async def read(n=-1):
                    pos = s._f.tell()
                    b = await real_read(n)
                    if b:
                        log["ev"].append({"a": "Single", "pos": pos, "len": len(b)})
                    return b

                s.read = read
            return s

        async def _open_from(self, url, start, *, length=None):
            if log.get("on"):
                log["reads"][id(asyncio.current_task())] = (start, length)
            return await super()._open_from(url, start, length=length)

        async def create(self, url, *, retry_writes=True):
            s = await super().create(url, retry_writes=retry_writes)
            if log.get("on") and not log.get("in_mpc"):
                if not any(e["a"] == "Plan" for e in log["ev"]):
                    log["ev"].append({"a": "Plan", "nparts": 0})
            return s

        async def multi_part_create(self, sema, url, num_parts):
            log["in_mpc"] = True
            try:
                mpc = await super().multi_part_create(sema, url, num_parts)
            finally:
                log["in_mpc"] = False
            if log.get("on"):
                log["ev"].append({"a": "Plan", "nparts": num_parts})
                real_create_part = mpc.create_part

                async def create_part(number, start, size_hint=None):
                    s = await real_create_part(number, start, size_hint=size_hint)
                    real_write = s.write

                    async def write(b):
                        pos = s._f.tell()
                        src = log["reads"].get(id(asyncio.current_task()), (-1, -1))
                        n = await real_write(b)
                        log["ev"].append({"a": "Chunk", "i": number, "src": src[0], "dst": pos, "len": len(b)})
                        return n

                    s.write = write
                    return s

                mpc.create_part = create_part
            return mpc

    return LoggingLocalFS


async def _run_case(fs, Copier, Transfer, rec, run_dir, sema_n, seed, idx, log):
    c = rec["c"]
    base = run_dir / f"c{idx}s{sema_n}r{seed}"  # never reused: tasks the copier leaves behind after an error cannot touch a later run
    if base.exists():
        shutil.rmtree(base)
    src_base, dest_base = base / "src", base / "dest"
    src_base.mkdir(parents=True)
    dest_base.mkdir()
    rng = random.Random(f"{seed}/{idx}/{sema_n}")  # each run of a case draws its own file sizes
    files = [("src", p) for p in rec["src"]] + [("dest", p) for p in rec["dst"]]
    sizes = _sizes(rng, len(files), c["size"], c["ps"])
    table, empties, src_size = {}, [], None
    for k, ((o, p), sz) in enumerate(zip(files, sizes)):
        if o == "dest" and p == ["keep"]:
            sz = 0  # as in the repository's table
        data = _content(k + 1, f"{o}/{'/'.join(p)}", sz, seed)
        path = (src_base if o == "src" else dest_base).joinpath(*p)
        path.parent.mkdir(parents=True, exist_ok=True)
        path.write_bytes(data)
        cid = {"o": o, "p": p}
        if sz == 0:
            empties.append(cid)
        else:
            if data in table:
                raise MachineryError("two distinct non-empty files with equal contents")
            table[data] = cid
        if o == "src":
            src_size = sz
    for d in rec["srcdirs"]:
        src_base.joinpath(*d).mkdir(parents=True, exist_ok=True)

    srcs = [f"{src_base}/{s['name']}" + ("/" if s["slash"] else "") for s in c["srcs"]]
    src_arg = srcs if c["list"] else srcs[0]
    dest = str(dest_base) + ("" if c["dbase"] == "root" else "/" + c["dbase"])
    if c["dslash"]:
        dest += "/"
    log.update(on=bool(rec.get("trace")), ev=[], reads={}, in_mpc=False)
    sema = asyncio.Semaphore(sema_n)
    out = None
    try:
        async with sema:
            await asyncio.wait_for(Copier.copy(fs, sema, Transfer(src_arg, dest, treat_dest_as=c["mode"])), timeout=120)
    except asyncio.TimeoutError:
        out = {"kind": "error", "cls": "HANG(no result within 120 s)", "files": []}
    except Exception as e:
        out = {"kind": "error", "cls": type(e).__name__, "files": []}
    log["on"] = False
    # after an error the copier may leave tasks running (bounded_gather2 with cancel_on_error, see C20); let them end
    # before the directory is inspected and removed, so that every run is isolated from the next one
    me = asyncio.current_task()
    others = [t for t in asyncio.all_tasks() if t is not me and not t.done()]
    log["leftover"] = log.get("leftover", 0) + len(others)
    if others:
        _done, pending = await asyncio.wait(others, timeout=30)
        if pending:
            raise MachineryError(f"{len(pending)} task(s) of the copier still running 30 s after Copier.copy returned")
        for t in others:
            if not t.cancelled():
                t.exception()  # retrieve, so that asyncio does not log it at garbage collection
    if out is None:
        found = []
        for dirpath, _dirnames, filenames in os.walk(dest_base):
            for fn in filenames:
                full = os.path.join(dirpath, fn)
                rel = os.path.relpath(full, dest_base).split(os.sep)
                data = open(full, "rb").read()
                if data == b"":
                    cid = {"o": "empty", "p": []}
                else:
                    cid = table.get(data) or {"o": "corrupt", "p": [f"{len(data)} bytes", hashlib.sha256(data).hexdigest()[:12]]}
                found.append({"p": rel, "c": cid})
        out = {"kind": "tree", "cls": "", "files": sorted(found, key=lambda f: f["p"])}
    trace = None
    if rec.get("trace") and out["kind"] == "tree":
        ev = list(log["ev"])
        if not any(e["a"] == "Plan" for e in ev):
            raise MachineryError(f"no Plan event recorded for a traced copy: {ev}")
        trace = {"size": src_size, "ps": c["ps"], "buf": c["buf"], "ev": ev + [{"a": "Done"}]}
    shutil.rmtree(base, ignore_errors=True)
    return {"c": c, "sema": sema_n, "out": out, "empties": empties, "sizes": sizes}, trace


async def _harness(ctx, recs, run_dir):
    from hailtop.aiotools import Copier, LocalAsyncFS, Transfer
    from hailtop.aiotools.router_fs import RouterAsyncFS

    log: dict = {}
    cases, traces = [], []
    saved = (os.fsync, Copier.BUFFER_SIZE, LocalAsyncFS.__dict__.get("copy_part_size"))
    os.fsync = lambda fd: None  # durability is irrelevant here and fsync dominates the run time
    try:
        with ThreadPoolExecutor(max_workers=8) as tp:
            async with RouterAsyncFS(local_kwargs={"thread_pool": tp}) as fs:
                fs._local_fs = _make_logging_fs(LocalAsyncFS, log)(tp)
                for idx, rec in enumerate(recs):
                    c = rec["c"]
                    Copier.BUFFER_SIZE = c["buf"]
                    LocalAsyncFS.copy_part_size = staticmethod(lambda url, _ps=c["ps"]: _ps)
                    if fs.copy_part_size("/x") != c["ps"]:
                        raise MachineryError("part size patch is not effective")
                    # quick: one run per case (semaphore size rotating); thorough: every size, two draws of file sizes each
                    runs = [(SEMAS[(idx + ctx.seed) % len(SEMAS)], 0)] if ctx.quick else [(sn, d) for sn in SEMAS for d in (0, 1)]
                    for sn, draw in runs:
                        case, trace = await _run_case(fs, Copier, Transfer, rec, run_dir, sn, ctx.seed + 7919 * draw, idx, log)
                        cases.append(case)
                        if trace is not None:
                            traces.append(trace)
    finally:
        os.fsync = saved[0]
        Copier.BUFFER_SIZE = saved[1]
        if saved[2] is None:
            if "copy_part_size" in LocalAsyncFS.__dict__:
                del LocalAsyncFS.copy_part_size
        else:
            LocalAsyncFS.copy_part_size = saved[2]
    return cases, traces, log.get("leftover", 0)


# ------------------------------------------------------------------------------------------------ check
def run(ctx):
    loader.install()
    if ctx.quick:
        consts = {"MaxSize": 9, "PartSizes": "{2, 4}", "BufSizes": "{1, 2}", "Level": '"quick"'}
    else:
        consts = {"MaxSize": 11, "PartSizes": "{1, 2, 3, 4, 5}", "BufSizes": "{1, 2, 3}", "Level": '"thorough"'}
    wd = tlc.prepare_dir(ctx.build / "tlc", ["copy"])
    env = {k: wd / v for k, v in {"CT_INPUTS": "inputs.ndjson", "CT_GOLDEN": "golden.ndjson", "CT_GOLDEN_REPORT": "golden_report.json",
                                  "CT_CASES": "cases.ndjson", "CT_VERDICT": "verdict.json", "CT_TRACES": "traces.ndjson"}.items()}
    golden = _golden_rows(loader.REPO)
    with open(env["CT_GOLDEN"], "w") as f:
        for g in golden:
            f.write(json.dumps(g) + "\n")
    tw = min(8, ctx.workers)

    # ---- 1. the part machine, exhaustively; the same run evaluates ASSUME Golden (spec vs golden table) and ASSUME Gen
    (wd / "Parts.cfg").write_text(tlc.mk_cfg(spec="PartSpec", constants=consts,
                                             invariants=["PartTypeOK", "PlanOk", "Faithful", "Complete"],
                                             properties=["NoRewrite", "WriteOnce"] + ([] if ctx.quick else ["PartsTerminate"])))
    res = tlc.run(wd, "CopyToolGen", "Parts.cfg", workers=tw, coverage=True, env=env)
    ctx.add_tlc(res, f"CopyTool part machine, sizes 0..{consts['MaxSize']}, parts {consts['PartSizes']}, buffers {consts['BufSizes']}: "
                     "PlanOk, Faithful, Complete, NoRewrite, WriteOnce" + ("" if ctx.quick else ", PartsTerminate (liveness)") + "; ASSUME Golden, Gen")
    ctx.require_covered(res, ["Plan", "SingleChunk", "CopyAnyChunk", "Finish"])
    for v in res.violations:
        if v.kind == "assumption":
            raise MachineryError(f"assumption of CopyToolGen is false: {v.name}")
        ctx.violation(f"copy:part-model:{v.name}", {"trace": v.trace[-4:]})
    rep = json.loads(env["CT_GOLDEN_REPORT"].read_text())
    if rep["n"] != len(golden) or rep["n"] < 300:
        raise MachineryError(f"golden table: {rep['n']} rows judged, {len(golden)} read")
    if rep["mismatches"]:
        g = golden[rep["mismatches"][0] - 1]
        raise MachineryError(f"CopyTool!Expected does not reproduce {len(rep['mismatches'])} entries of the repository's golden table, "
                             f"e.g. {g} - the specification (or the table) is out of date")
    if rep["covered"] != rep["n"]:
        raise MachineryError(f"only {rep['covered']} of {rep['n']} golden configurations are in the case universe")
    for reach in (() if ctx.quick else ("NeverMultiDone", "NeverShortLast")):
        (wd / "Reach.cfg").write_text(tlc.mk_cfg(spec="PartSpec", constants=consts, invariants=[reach]))
        r = tlc.run(wd, "CopyTool", "Reach.cfg", workers=tw)
        if not r.violations:
            raise MachineryError(f"reachability companion {reach} holds: the part model is vacuous")

    # ---- 2. B3: run every case on the real copier -----------------------------------------------------------
    recs = [json.loads(l) for l in env["CT_INPUTS"].read_text().splitlines() if l.strip()]
    if len(recs) < 300:
        raise MachineryError(f"TLC generated only {len(recs)} cases")
    recs.sort(key=lambda r: json.dumps(r, sort_keys=True))
    for r in recs:
        r["trace"] = r["c"]["size"] >= 0
    run_dir = ctx.build / "run"
    if run_dir.exists():
        shutil.rmtree(run_dir)
    run_dir.mkdir(parents=True)
    loop = asyncio.new_event_loop()
    try:
        cases, traces, leftover = loop.run_until_complete(_harness(ctx, recs, run_dir))
    finally:
        loop.close()
        shutil.rmtree(run_dir, ignore_errors=True)
    with open(env["CT_CASES"], "w") as f:
        for c in cases:
            f.write(json.dumps({k: c[k] for k in ("c", "sema", "out", "empties")}) + "\n")
    # one TLC run: ASSUME Verdict (B3 verdict on the recorded outcomes) + trace validation (B2) of the recorded chunk
    # sequences of the part sweep against the part machine
    if not traces:
        raise MachineryError("no chunk traces recorded")
    with open(env["CT_TRACES"], "w") as f:
        for t in traces:
            f.write(json.dumps(t) + "\n")
    (wd / "Trace.cfg").write_text(tlc.mk_cfg(init="TraceInit", next="TraceNext", constants=consts,
                                             invariants=["PartTypeOK", "PlanOk", "Faithful", "Complete", "TraceEndsDone"], deadlock=True))
    tres = tlc.run(wd, "CopyToolTrace", "Trace.cfg", workers=tw, env=env)
    if any(v.kind == "assumption" for v in tres.violations):
        raise MachineryError("ASSUME Verdict of CopyToolTrace failed")
    verdict = json.loads(env["CT_VERDICT"].read_text())
    if verdict["cases"] != len(cases):
        raise MachineryError(f"TLC judged {verdict['cases']} cases, harness recorded {len(cases)}")
    if verdict["trees_ok"] == 0 or verdict["errors_ok"] == 0:
        raise MachineryError("vacuous: no accepted tree or no accepted error outcome")
    for b in verdict["bad"]:
        c = cases[b["i"] - 1]
        cc = c["c"]
        kinds = "+".join(s["kind"] + ("/" if s["slash"] else "") for s in cc["srcs"]) + ("[list]" if cc["list"] else "")
        part = "tree" if cc["size"] < 0 else "parts"
        got = c["out"]["cls"] if c["out"]["kind"] == "error" else "tree"
        ctx.violation(f"copy:{part}:{b['cls']}:{kinds}->{cc['dtype']}@{cc['dbase']}{'/' if cc['dslash'] else ''}:{cc['mode']}:{got}",
                      {"case": cc, "file_sizes": c["sizes"], "semaphore": c["sema"], "outcome": c["out"],
                       "expected": b["want"], "acceptable_error_classes": b["want_classes"],
                       "how": "Copier.copy on RouterAsyncFS/LocalAsyncFS; sources under src/<name>, destination root holds 'keep' and dtype at 'a'"})

    # ---- 3. B2: the recorded chunk sequences of the part sweep against the machine -------------------------------
    ctx.add_tlc(tres, f"trace validation of {len(traces)} recorded file copies against the part machine")
    for v in tres.violations:
        last = v.trace[-1][1] if v.trace and v.trace[-1][1] else {}
        tr = last.get("tr", {}) if isinstance(last, dict) else {}
        ev = tr.get("ev", ()) if isinstance(tr, dict) else ()
        pos = last.get("l") if isinstance(last, dict) else None
        ctx.violation(f"copy:trace:{v.kind}:{v.name}",
                      {"size": tr.get("size"), "part_size": tr.get("ps"), "buffer": tr.get("buf"), "events": list(ev)[:40], "stuck_at_event": pos,
                       "meaning": "the real copier took a step (or ended in a state) the part machine of CopyTool.tla does not allow"})
    multi = sum(1 for t in traces if t["ev"][0].get("nparts", 0) >= 2)
    if multi == 0:
        raise MachineryError("no multi-part copy was traced")

    n = len(cases)
    ctx.cov["states"] += 2 * n
    ctx.cov["transitions"] += n
    ctx.cov.update(traces_validated_against_impl=n + len(traces), evaluations=n,
                   distinct_nontrivial=len({json.dumps(c["c"], sort_keys=True) for c in cases if c["out"]["kind"] == "tree"}),
                   exhaustive=True,
                   rule=f"TLC enumerates the case universe of CopyTool.tla at Level={consts['Level']} ({len(recs)} cases incl. all 324 golden "
                        f"configurations and the size x part x buffer sweep), each run under {'1 (rotating)' if ctx.quick else len(SEMAS)} semaphore size(s) of {SEMAS}{'' if ctx.quick else ' x 2 draws of file sizes'}; "
                        "verdict by TLC on the resulting destination tree / exception class; non-trivial = distinct cases ending in a tree; "
                        f"{len(traces)} recorded copies ({multi} multi-part) validated event by event against the part machine")
    ctx.cov["golden_table"] = {"rows": rep["n"], "reproduced_by_spec": rep["n"] - len(rep["mismatches"]), "error_rows": rep["errors"]}
    ctx.cov["outcomes"] = {"accepted_trees": verdict["trees_ok"], "accepted_errors": verdict["errors_ok"], "rejected": len(verdict["bad"])}
    ctx.cov["tasks_still_running_when_copy_raised"] = leftover  # not part of the verdict (see C20); each run waits for them
    ctx.cov["chunk_events_validated"] = sum(len(t["ev"]) for t in traces)
    picks = [c for c in cases if c["out"]["kind"] == "tree" and len(c["c"]["srcs"]) == 2][:2] + \
            [c for c in cases if c["out"]["kind"] == "error"][:1] + [c for c in cases if c["c"]["size"] > c["c"]["ps"]][:1]
    for c in picks:
        ctx.sample({"case": c["c"], "file_sizes": c["sizes"], "semaphore": c["sema"], "outcome": c["out"]})
    ctx.sample({"trace": next(t for t in traces if t["ev"][0].get("nparts", 0) >= 2)})
    ctx.assume("the documented rules are those transcribed at the top of CopyTool.tla; they reproduce the repository's golden table exactly (checked in every run)",
               "source and destination live in separate scratch directories on the sandbox's local file system; a path cannot be both file and directory there, "
               "so FileAndDirectoryError is out of scope as the property states ('between local paths')",
               "Copier.BUFFER_SIZE and LocalAsyncFS.copy_part_size are patched to the case's buf/ps; os.fsync is a no-op during the run",
               "varied interleavings come from the 8-thread pool and from semaphore sizes 1, 2, 50; only final bytes / the exception class enter the verdict",
               "two sources of one case never write the same destination path (CopyTool!WellFormed, asserted by TLC)")
