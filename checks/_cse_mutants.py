"""C35 mutation catalogue (not run by the check): python checks/_cse_mutants.py <M1..M10> <worktree> edits a scratch worktree
(with build/proposed_fixes/C35.diff applied) so that `VERIF_REPO=<worktree> ./check C35` can be seen to report it.
Caught (VIOLATION): M1 lift one frame too high, M2 ignore agg context, M3 drop a Let keep the Refs, M4 wrong binding for a later
occurrence, M6 agg binding printed as scan AggLet, M7 StreamFold forgets its accumulator binding, M8 StreamAgg.free_vars fix reverted,
M9 AggFilter does not rebind the aggregation capability.  Benign by design (no violation): M5 structural instead of object identity in
the analysis pass only (nothing is lifted any more), M10 a lifted node is re-printed at every occurrence.
Scan scope: S1 scan binding printed as agg AggLet, S2 scan arguments treated as agg scope, S3 TableMapRows without scan bindings,
S4 ApplyScanOp arguments not a scan context."""
import sys
m, wt = sys.argv[1], sys.argv[2]
R = wt + '/hail/python/hail/ir/renderer.py'
I = wt + '/hail/python/hail/ir/ir.py'
def sub(path, old, new, count=None):
    s = open(path).read()
    n = s.count(old)
    assert n >= 1 and (count is None or n == count), (m, n)
    open(path, 'w').write(s.replace(old, new))
if m == 'M1':   # lift one frame too high: binding depth of eval variables off by one (both passes)
    sub(R, "bind_depth = max(bind_depth, *(self.context[0][var] for var in self.node.free_vars))",
           "bind_depth = max(bind_depth, *(max(self.context[0][var] - 1, 0) for var in self.node.free_vars))", 2)
elif m == 'M2': # ignore the agg context when choosing the binding site (both passes)
    sub(R, "            elif x.uses_agg_context(i):\n                child_min_value_binding_depth = depth\n                child_scan_scope = False\n", "", 1)
    sub(R, "                elif self.node.renderable_uses_agg_context(self.child_idx):\n                    child_min_value_binding_depth = self.depth + 1\n                    child_scan_scope = False\n", "", 1)
elif m == 'M3': # drop the first lifted binding's Let but keep its Refs
    sub(R, "            for let_body in let_bodies:\n                out_builder.extend(let_body)\n            out_builder.extend(self.builder)\n            num_lets = len(let_bodies)",
           "            for let_body in let_bodies[1:]:\n                out_builder.extend(let_body)\n            out_builder.extend(self.builder)\n            num_lets = len(let_bodies[1:])", 1)
elif m == 'M4': # right place, wrong body for a later occurrence: always refer to the first binding of the frame
    sub(R, "                frame.builder.append(f'(Ref {name})')\n\n                if id(child) in visited:\n                    continue",
           "                if id(child) in visited:\n                    frame.builder.append(f'(Ref {next(iter(lift_to_frame.lifted_lets.values()))})')\n                    continue\n                frame.builder.append(f'(Ref {name})')", 1)
elif m == 'M5': # structural identity instead of object identity in the analysis pass (should not matter)
    sub(R, "root_frame = self.StackFrame(0, 0, False, ({var: 0 for var in root.free_vars}, {}, {}), root)",
           "id = hash\n        root_frame = self.StackFrame(0, 0, False, ({var: 0 for var in root.free_vars}, {}, {}), root)", 1)
elif m == 'M6': # agg-scope bindings printed as scan-scope AggLet
    sub(R, "child_builder = [f'(AggLet {name} False ']", "child_builder = [f'(AggLet {name} True ']", 1)
elif m == 'M7': # StreamFold forgets to bind its accumulator
    t = open(I).read(); old = "return {self.accum_name: default_value, self.value_name: default_value}"
    assert t.count(old) == 2
    open(I, 'w').write(t.replace(old, "return {self.value_name: default_value}", 1))
elif m == 'M8': # the fix for StreamAgg.free_vars reverted only (fix 2 kept)
    sub(I, "        return fv.union(self.body.free_vars.difference(self.bindings(1, 0).keys()))\n\n    def renderable_child_context_without_bindings(self, i: int, parent_context):\n        if i == 0:\n            return parent_context\n        (eval_c, agg_c, scan_c) = parent_context\n        return (eval_c, eval_c, None)",
           "        return fv\n\n    def renderable_child_context_without_bindings(self, i: int, parent_context):\n        if i == 0:\n            return parent_context\n        (eval_c, agg_c, scan_c) = parent_context\n        return (eval_c, eval_c, None)", 1)
elif m == 'M9': # AggFilter does not rebind the aggregation capability: aggregations may be lifted out of the filter
    sub(I, "    def renderable_bindings(self, i, default_value=None):\n        if i == 1:\n            return {BaseIR.agg_capability: default_value}\n        else:\n            return {}\n\n    def renderable_uses_scan_context(self, i: int):\n        return i == 0 and self.is_scan\n\n    @classmethod\n    def uses_agg_capability(cls) -> bool:\n        return True\n\n\nclass AggExplode",
           "    def renderable_uses_scan_context(self, i: int):\n        return i == 0 and self.is_scan\n\n    @classmethod\n    def uses_agg_capability(cls) -> bool:\n        return True\n\n\nclass AggExplode", 1)
elif m == 'M10': # the print pass forgets that a lifted node was already printed: AggLet/Let emitted per occurrence (benign)
    sub(R, "                visited[id(child)] = child\n", "", 1)
elif m == 'S1': # a scan-scope binding is printed as an agg-scope AggLet
    sub(R, "child_builder = [f'(AggLet {name} True ']", "child_builder = [f'(AggLet {name} False ']", 1)
elif m == 'S2': # both passes forget that an ApplyScanOp / scan AggLet argument is in the SCAN scope
    t = open(R).read(); assert t.count("child_scan_scope = True\n") == 2  # S2REPL
    open(R, "w").write(t.replace("child_scan_scope = True\n", "child_scan_scope = False\n"))
elif m == 'S3': # TableMapRows declares no scan bindings
    T = wt + '/hail/python/hail/ir/table_ir.py'
    t = open(T).read(); old = "    def renderable_scan_bindings(self, i, default_value=None):\n        return self.child.typ.row_env(default_value) if i == 1 else {}\n"
    assert t.count(old) >= 1
    open(T, 'w').write(t.replace(old, "    def renderable_scan_bindings(self, i, default_value=None):\n        return {}\n", 1))
elif m == 'S4': # the seq-arguments of ApplyScanOp are not recognised as scan context
    sub(I, "    def renderable_uses_scan_context(self, i: int):\n        return i == 1\n", "    def renderable_uses_scan_context(self, i: int):\n        return False\n", 1)
else:
    raise SystemExit("unknown mutant")
print("mutated", m)
