"""C33 - the binary encoding of Python values round-trips AND has the byte layout the engine expects.

Specs: specs/fn/PyEncoding.tla (EXTENDS TypedValues.tla; calls re-use CallPack.tla of C34)
  Enc(t, v)     the byte sequence the engine expects, transcribed from EType.fromPythonTypeEncoding and the decoders it
                selects (EBaseStruct, EArray, EUnsortedSet, EDictAsUnsortedArrayOfPairs, EBinary, ENDArrayColumnMajor,
                EInt32/EInt64/EFloat32/EFloat64/EBoolean, Call) - missing-bit bytes LSB first, little-endian primitives,
                int32 length prefixes, dicts as arrays of required {key, value} structs, column-major n-d arrays
  Dec(t, b, p)  the same layout as a reader; TLC checks Dec(Enc(v)) = v with no byte left over on the universe
                (EncodingSelf) before anything is bound.
Binding B3, all halves on the same TLC-enumerated <<type, value>> pairs (the universe of C32, incl. loci of a registered
reference genome, intervals of loci, n-d arrays in C / Fortran / strided memory order, depth-3 types in the thorough tier):
  (a) round trip   real _to_encoding then _from_encoding, decoded = input under the type's equality (TypedValues.Match)
  (b) layout       bytes written by the real _to_encoding == Enc(t, v)  (sets / dicts in the iteration order of the
                   Python object, which the harness reports and TLC checks to be the same value); locus = EBaseStruct
                   {contig: EBinary, position: EInt32} (one missing byte), interval = EBaseStruct{start, end,
                   includesStart, includesEnd}, n-d array = int64 extents + column-major elements
  (c) public path  hl.literal(v, t) (whole `hail` package imported): the IR node is an EncodedLiteral, its RENDERED text is
                   (EncodedLiteral <type> "<base64>"); the payload must equal the bytes of (b) and is what (a) decodes
The verdict of both halves is computed by TLC (PyEncodingVerdict).  The Scala side cannot be executed here: it is a
hand transcription (trusted base), fingerprinted below.
"""
from __future__ import annotations

import base64
import hashlib
import json
import re
from concurrent.futures import ThreadPoolExecutor

from vlib import loader, tlc

from . import _typedvalues as tv

LEVEL = "exploration"
MANIFEST = {
    "technique": "TLA+ specification of the engine's layout for Python-encoded values (PyEncoding.tla: Enc and the decoders "
                 "as a byte-grammar reader, transcribed from EType.fromPythonTypeEncoding and the E-type decoders; TLC checks "
                 "Dec(Enc(v)) = v over the universe); TLC enumerates typed values and judges the bytes and the decoded value the "
                 "real front end produces (call/return conformance, B3)",
    "text": "Bounded exploration of an input-quantified property over the typed-value universe of C32 (types to depth 2, thorough tier "
            "depth 3; loci of a registered reference genome and intervals of loci; boundary "
            "values, missing at every nullable position, 9-element arrays / 9-field structs for the second missing byte, n-d "
            "arrays with ndim 0-3 in C, Fortran and strided memory order): byte-exact comparison with the specified layout plus "
            "the encode/decode round trip, and the payload of the rendered hl.literal(v, t). The engine side is a manual transcription "
            "(cannot be built offline), fingerprinted.",
    "note": "Trusts: TLC + CommunityModules; the hand transcription of the Scala E-types in PyEncoding.tla and of Call.scala in "
            "CallPack.tla; the IEEE-754 / UTF-8 constant tables in PyEncoding.tla; little-endian host (struct '=' formats in "
            "hail.utils.byte_reader); the reference genome is built with _builtin=True and held by a registry that only owns the "
            "dict. NOT covered: the engine actually executing its decoders, the engine's parser of the IR text, top-level "
            "int / float / bool / str literals (hl.literal renders them as I32 / F64 / Str ... nodes, not as encoded bytes).",
    "design_ref": "DESIGN.md section 5, C33",
}

ENC = "hail/hail/src/is/hail/types/encoded/"
PHYS = "hail/hail/src/is/hail/types/physical/"
TRANSCRIBED = {
    ENC + "EType.scala": None, ENC + "EBaseStruct.scala": None, ENC + "EArray.scala": None, ENC + "EBinary.scala": None,
    ENC + "EUnsortedSet.scala": None, ENC + "EDictAsUnsortedArrayOfPairs.scala": None, ENC + "ENDArrayColumnMajor.scala": None,
    ENC + "EInt32.scala": None, ENC + "EInt64.scala": None, ENC + "EFloat32.scala": None, ENC + "EFloat64.scala": None,
    ENC + "EBoolean.scala": None,
    PHYS + "PCanonicalLocus.scala": None, PHYS + "PCanonicalInterval.scala": None,      # the structs locus / interval bytes are decoded into
    "hail/hail/src/is/hail/variant/Call.scala": "d43edbf267ce63c89c56e2ac744b01c7fb4b930ae1e7628257c8dc617d0ef667",
}


_LIT = re.compile(r'\(EncodedLiteral (.*) "([A-Za-z0-9+/=]*)"\)', re.S)
TEMPLATE = {"vin": dict(tv.NA), "bytes": [], "haslit": False, "lit": []}


def literal_payload(H, T, x):
    """The public path: hl.literal(x, T) -> EncodedLiteral -> its rendered IR text -> the base64 payload, decoded.
    None when hl.literal does not produce an EncodedLiteral (top-level int32 / int64 / float / bool / str become I32 / Str ...)."""
    e = H.hl.literal(x, T)
    node = e._ir
    if not isinstance(node, H.ir.EncodedLiteral):
        return None
    if e.dtype != T:
        raise AssertionError(f"hl.literal(x, {T}) has dtype {e.dtype}")
    m = _LIT.fullmatch(str(node))
    if m is None or m.group(1) != T._parsable_string():
        raise AssertionError(f"rendered EncodedLiteral not of the form (EncodedLiteral <type> \"<base64>\"): {str(node)[:120]!r}")
    return base64.b64decode(m.group(2), validate=True)


def _convert(T, x, rec):
    H = tv.load()
    rec["vin"] = tv.abstract(H, x)
    try:
        b = T._to_encoding(x)
    except Exception as e:  # noqa: BLE001
        e.stage = "to_encoding"
        raise
    rec["bytes"] = list(b)
    try:
        lit = literal_payload(H, T, x)
    except Exception as e:  # noqa: BLE001
        e.stage = "literal"
        raise
    if lit is not None:          # what the engine receives is the payload of the rendered literal: decode THAT
        rec["haslit"], rec["lit"] = True, list(lit)
        b = lit
    try:
        r = H.ByteReader(memoryview(b))
        out = T._convert_from_encoding(r)
        if r._offset != len(b):
            raise AssertionError(f"decoder consumed {r._offset} of {len(b)} bytes")
    except Exception as e:  # noqa: BLE001
        e.stage = "from_encoding"
        raise
    rec["w"] = tv.abstract(H, out)


def replay(ctx, rp):
    wd = tlc.prepare_dir(ctx.build / "tlc", ["fn"])
    tv.replay_pair(ctx, wd, rp, wire="encoding", convert=_convert, verdict_module="PyEncodingVerdict",
                   template=TEMPLATE)


def run(ctx):
    H = tv.load()
    # ---- fingerprints of the transcribed Scala text (information, not a verdict) --------------------------------
    fp = {}
    for rel, want in TRANSCRIBED.items():
        p = loader.REPO / rel
        got = hashlib.sha256(p.read_bytes()).hexdigest() if p.exists() else "missing"
        want = want or FINGERPRINTS.get(rel)
        fp[rel] = got
        if got != want:
            ctx.note(f"engine source {rel} differs from the transcribed version (sha256 {got[:16]}.. != {str(want)[:16]}..): "
                     "PyEncoding.tla must be re-read against it; the verdict below is relative to the OLD transcription")
    ctx.cov["scala_fingerprints"] = fp

    level = 0 if ctx.quick else 1
    wd = tlc.prepare_dir(ctx.build / "tlc", ["fn"])
    env = tv.tlc_env(wd, level=level, with_nd=True)
    (wd / "extra.ndjson").write_text(json.dumps({"t": {"k": "int32"}}) + "\n")

    # ---- (1) the layout on its own: Dec(Enc(v)) = v, all bytes consumed, truncation rejected --------------------
    # (runs concurrently with the enumeration below: two independent TLC processes; joined before any verdict is used)
    pool = ThreadPoolExecutor(max_workers=1)
    selfcheck = pool.submit(tlc.evaluate, wd, "PyEncodingSelf", env=env, timeout=3000)

    # ---- (2)-(4) Gen, the real code, Verdict (round trip + layout) -------------------------------------------
    cases, verdict, stats = tv.roundtrip_check(
        ctx, wd, wire="encoding", convert=_convert, level=level, with_nd=True, nextra=25 if ctx.quick else 400,
        verdict_module="PyEncodingVerdict", template=TEMPLATE, top_level_missing=False,
        stride=2 if ctx.quick else 1)
    out = selfcheck.result()
    pool.shutdown()
    if '"encodingself"' not in out:
        raise RuntimeError("PyEncodingSelf did not reach the end of EncodingSelf")
    for b in verdict["bad"]:
        if b["why"] == "harness":
            raise RuntimeError(f"harness built a different value than TLC enumerated: {cases[b['i'] - 1]}")
    if stats["with_missing"] == 0 or stats["depth2_cases"] == 0:
        raise RuntimeError(f"vacuous universe: {stats}")
    nbytes = sum(len(c["bytes"]) for c in cases)
    two_missing_bytes = sum(1 for c in cases if c["t"]["k"] in ("tuple", "struct") and len(c["t"]["ts"]) > 8)
    nd_orders = {o: sum(1 for c in cases if c["v"].get("ord") == o) for o in ("C", "F", "V")}
    nlit = sum(1 for c in cases if c["haslit"])
    nprim_top = sum(1 for c in cases if c["t"]["k"] in ("int32", "int64", "float32", "float64", "bool", "str"))
    if nbytes == 0 or two_missing_bytes == 0 or min(nd_orders.values()) == 0:
        raise RuntimeError(f"vacuous: bytes={nbytes} wide-structs={two_missing_bytes} nd={nd_orders}")
    if stats["cases_with_locus"] == 0 or (not ctx.quick and stats["depth3_cases"] == 0):
        raise RuntimeError(f"vacuous universe: {stats}")
    if stats["bad_cases"] == 0 and nlit + nprim_top != len(cases):
        raise RuntimeError(f"hl.literal produced an EncodedLiteral for {nlit} of {len(cases) - nprim_top} non-primitive cases")

    # ---- observations outside the verdict ---------------------------------------------------------------------
    T = H.types
    ctx.note("dead code, observed: tndarray._convert_to_encoding / _convert_from_encoding test `self.element_type in _numeric_types` "
             f"(an instance against a set of classes: {T.tint32 in T._numeric_types}), so the raw-buffer fast path is never taken "
             "and every element goes through np.nditer(order='F') / order='F' reconstruction, which IS the column-major layout; "
             "the fast path as written would ship C-ordered memory unchanged and call the method object `_byte_size`")
    ctx.note("engine side, by reading only: EUnsortedSet._buildDecoder copies the decoded array with forEachDefined, i.e. a set "
             "literal with a missing element loses that element in the engine although the bytes carry it (layout agrees; not a "
             "front-end defect, not executable here)")

    n = len(cases)
    ctx.cov.update(evaluations=n, distinct_nontrivial=stats["nontrivial_types"], exhaustive=False,
                   rule=f"TLC checks Dec(Enc(v)) = v on the depth<=1 universe and the quick depth-2 selection (PyEncodingSelf); B3: TLC "
                        f"enumerates Vals(t, 2) for every type of CoreTypes (level {level}{', every 2nd pair by seed' if ctx.quick else ''}) plus {stats['extra_types']} types drawn with seed "
                        f"{ctx.seed} from the depth-2 grammar{'' if ctx.quick else ' (every second one from the depth-3 grammar; level 1 also has 9 named depth-3 types and one construction of every kind around 8 named depth-2 combinations)'}; each pair is one real _to_encoding (bytes compared with Enc) and one real "
                        "_from_encoding (value compared with Match), judged by TLC; for every non-primitive type also hl.literal(v, t): the base64 "
                        "payload of the rendered EncodedLiteral must equal those bytes and is what is decoded; non-trivial = distinct non-primitive types exercised")
    ctx.cov["universe"] = dict(stats, bytes_compared=nbytes, nine_field_structs=two_missing_bytes, ndarray_cases_by_memory_order=nd_orders,
                               rendered_literals_decoded=nlit, top_level_primitive_cases_without_literal=nprim_top)
    step = max(1, n // 6)
    for c in cases[::step][:6]:
        ctx.sample({"type": tv.type_str(c["t"]), "value": c["v"], "bytes": bytes(c["bytes"]).hex(), "decoded": c["w"], "error": c["err"]})
    ctx.assume("the engine side is the hand transcription of EType.fromPythonTypeEncoding and the E-type decoders in specs/fn/PyEncoding.tla "
               "(the engine cannot be built offline); Call.scala as in specs/fn/CallPack.tla (C34)",
               "host is little-endian: struct '=' formats in hail.utils.byte_reader are the engine's little-endian primitives",
               "the top-level value is never missing (hl.literal turns None into hl.missing before encoding) and has no presence byte",
               "sets and dicts are written in the iteration order of the Python object; the engine sorts after decoding, so any order is "
               "the expected layout; the harness reports the order and TLC checks it is the same value",
               "the whole hail package is imported offline; the reference genome verif_rg is a real ReferenceGenome (_builtin=True, registered "
               "with the real Backend.add_reference), no backend and no default reference exist; the IEEE-754 and UTF-8 constants "
               "(strings, contig names) are tables in PyEncoding.tla",
               "locus layout: the engine's target struct has required contig / position; a set missing bit is not a locus (the front end "
               "never writes one)",
               "equality of the round-trip half as in C32 (IEEE identity up to NaN payload, float32 after rounding, sets/dicts unordered, "
               "n-d arrays by dtype, shape and index-wise content)")


# sha256 of the Scala sources at the time of transcription (whole files)
FINGERPRINTS = {
    ENC + "EType.scala": "662e00f759bc925058e2e7c0f029c9491199611786b1e4da1ef82a605be82e17",
    ENC + "EBaseStruct.scala": "b0c8ae1d2c02e16a618a02a1d76b83e4e2ddc227556de9a0215dc3658bc58eba",
    ENC + "EArray.scala": "778650611cb6e767852c9052a0d0659ab2f2480815d988978d0e818db7931cd5",
    ENC + "EBinary.scala": "184f6a806e120dd2102fdf2ac587a506dbf28be3e493c4ef9ba491b1cfc243c4",
    ENC + "EUnsortedSet.scala": "4a8b3fc1e2f79c9a4cb02c091c6b9ee9202e2f67b44fb0c8ee16586a53272995",
    ENC + "EDictAsUnsortedArrayOfPairs.scala": "45286fe8ff51577aea6191d10cfead13006f54cd0aff55bb1b2806d3c77e6f61",
    ENC + "ENDArrayColumnMajor.scala": "9b0d7cfe7ee26c1fffb86e7acf7b04b1dd1585b217df55ac15daf8ad45591487",
    ENC + "EInt32.scala": "a473041332b66be85023f6685d8c0e67801b62cf5ee70593dba3f100b6b3eadc",
    ENC + "EInt64.scala": "03b4ecac6a0b0ea6efeee0053721c40f5385cde4316fabac8817a3fd940f7209",
    ENC + "EFloat32.scala": "9c06af1e7462606b81e12cccc5fd655a41fd99fda7259bfbccd1a4a188d7983a",
    ENC + "EFloat64.scala": "62022dde3ae81944104867a19eec5d9b8f53d70dbc7b3f939c1d436aa10ebc79",
    ENC + "EBoolean.scala": "6f52eaa678a1532615f7561f873bfcc15680dd696f534b9922e45e713e54f595",
    PHYS + "PCanonicalLocus.scala": "bae3f22421f95cc3e404d4b292978720dfe5b4febd78b8557fe29970db431b82",
    PHYS + "PCanonicalInterval.scala": "f17d9645425d6afcea3407d342ec305cede4de69d27a1d5f83edcbb53f499cc4",
}
