"""C25 - resource-size strings parse to their exact decimal value; client and server accept the same strings.

Spec: specs/fn/SizeParse.tla (documented grammar as a scanner, value as an exact decimal over digit
sequences, expected floor/ceil results) and specs/fn/SizeScan.tla (the scanner as a step machine; TLC
checks it against the declarative grammar, the denotation and native integer arithmetic).
Binding B3: TLC enumerates the words, the harness calls the real hailtop.batch_client.parse functions and
the real job validator of batch.front_end.validate, TLC judges every call/return record.
"""
from __future__ import annotations

import json

from vlib import loader, tlc

from . import _fn

LEVEL = "model_checking"
MANIFEST = {
    "technique": "TLA+ specification of the size grammar and exact decimal denotation (SizeParse.tla, digit-sequence arithmetic); scanner step machine model-checked by TLC against the declarative grammar (SizeScan.tla); TLC enumerates the input words and judges every recorded call of the real parsers and of the real job validator (call/return conformance, B3)",
    "text": "Exhaustive over a stated bounded universe of size strings: every number with up to 1-2 integer and 3-4 fractional digits over a digit subset x every unit spelling, all words over the token alphabet up to a stated length (grammar / client-server agreement), and long numbers beyond float precision. Expected values are computed by TLC with exact decimal digit arithmetic (no floats, no 32-bit overflow). Bounded-universe model checking of an input-quantified property.",
    "note": "Trusts: TLC + CommunityModules Json/IOUtils; the token->character table and the int->digit transport in checks/c25.py. Strings longer than the bounds, and digits outside the chosen digit subset in the exhaustive part, are covered only by the sampled families (all two-digit numbers, .abc fractions, long numbers).",
    "design_ref": "DESIGN.md section 5, C25; section 7 item 1",
}

TOK = {"SP": " ", "NL": "\n"}
KINDS = ("cpu", "memory", "storage")
ALPHABET = '{"+", "1", "5", ".", "m", "K", "i", "B", "G", "e"}'
INVS = ["GrammarAgrees", "FunctionAgrees", "DeadIsFinal", "Denotes", "NativeAgrees"]


def client_record(fn, s):
    try:
        r = fn(s)
    except Exception as e:  # the parsers are documented to return None for unparsable strings
        return {"o": "raise", "neg": False, "d": [0], "repr": f"{type(e).__name__}: {e}"}
    if r is None:
        return {"o": "none", "neg": False, "d": [0], "repr": "None"}
    if isinstance(r, bool) or not isinstance(r, int):
        return {"o": "other", "neg": False, "d": [0], "repr": repr(r)}
    return {"o": "int", "neg": r < 0, "d": [int(ch) for ch in str(abs(r))], "repr": str(r)}


def run(ctx):
    loader.install()
    from batch.front_end.validate import validate_and_clean_jobs
    from hailtop.batch_client import parse
    from hailtop.utils.validate import ValidationError

    fns = {"cpu": parse.parse_cpu_in_mcpu, "memory": parse.parse_memory_in_bytes, "storage": parse.parse_storage_in_bytes}

    def server_accepts(kind, s):
        job = {"job_id": 1, "process": {"type": "docker", "command": ["true"], "image": "ubuntu"}, "resources": {kind: s}}
        try:
            validate_and_clean_jobs([job])
            return True
        except ValidationError:
            return False

    wd = tlc.prepare_dir(ctx.build / "tlc", ["fn"])

    # ---- (1) the specification itself: scanner vs grammar vs denotation, exhaustively for small words ----
    maxlen = 4 if ctx.quick else 5
    consts = {"Alphabet": ALPHABET, "MaxLen": maxlen}
    (wd / "Scan.cfg").write_text(tlc.mk_cfg(constants=consts, invariants=INVS))
    res = tlc.run(wd, "SizeScan", "Scan.cfg", workers=ctx.workers, coverage=True)
    ctx.add_tlc(res, f"SizeScan exhaustive, 10-token alphabet, words to length {maxlen}, 3 kinds")
    ctx.require_covered(res, ["ReadSign", "ReadDigit", "ReadDot", "ReadUnit", "ReadOther", "Finish"], "SizeScan")
    for v in res.violations:
        ctx.violation(f"spec:{v.name}", {"config": consts, "trace": [(h, s) for h, s in v.trace]})
    if res.violations:
        return

    # ---- (2) B3: TLC enumerates inputs, real functions are called, TLC judges --------------------------------
    env = {"SZ_DSET": "q" if ctx.quick else "t", "SZ_ILEN": 1 if ctx.quick else 2, "SZ_FLEN": 3 if ctx.quick else 4,
           "SZ_FULL": 4, "SZ_CORE": 4 if ctx.quick else 6,
           "SZ_INPUTS": wd / "inputs.ndjson", "SZ_CASES": wd / "cases.ndjson", "SZ_VERDICT": wd / "verdict.json"}
    tlc.evaluate(wd, "SizeParseGen", env=env, timeout=1800)
    words = [json.loads(l)["w"] for l in (wd / "inputs.ndjson").read_text().splitlines() if l.strip()]
    cases = []
    lines = []
    for w in words:
        s = "".join(TOK.get(t, t) for t in w)
        c = {"w": w, "s": s}
        rec = {"w": w}
        for k in KINDS:
            c[k] = client_record(fns[k], s)
            c["v" + k] = server_accepts(k, s)
            rec[k] = {"o": c[k]["o"], "neg": c[k]["neg"], "d": c[k]["d"]}
            rec["v" + k] = c["v" + k]
        cases.append(c)
        lines.append(json.dumps(rec))
    verdicts = _fn.sharded_verdict(ctx, ["fn"], "SizeParseVerdict", lines, env, "SZ_CASES", "SZ_VERDICT", 3 if ctx.quick else 12)
    in_grammar = {k: sum(v["in_grammar"][k] for _o, v in verdicts) for k in KINDS}
    if min(in_grammar.values()) == 0:
        raise RuntimeError("vacuous: the specification accepts nothing")
    nbad = 0
    for off, v in verdicts:
        for b in v["bad"]:
            c = cases[off + b["i"] - 1]
            for k in KINDS:
                why = b["why"][k]
                if why == "ok":
                    continue
                nbad += 1
                ctx.violation(f"size:{k}:{why}", {"string": c["s"], "kind": k, "why": why, "client_returned": c[k]["repr"],
                                                  "server_accepted": c["v" + k], "tokens": c["w"]})
    nacc = sum(in_grammar.values())
    ctx.cov["states"] += 2 * 3 * len(cases)
    ctx.cov["transitions"] += 3 * len(cases)
    ctx.cov.update(traces_validated_against_impl=3 * len(cases), evaluations=6 * len(cases), distinct_nontrivial=nacc,
                   exhaustive=True,
                   rule=f"TLC enumerates: numbers with <= {env['SZ_ILEN']} integer and <= {env['SZ_FLEN']} fractional digits over the digit set "
                        f"{'0159' if ctx.quick else '01359'} x all 23 unit endings; all words over {10 if ctx.quick else 12} tokens to length {env['SZ_FULL']} and over 7 core "
                        f"tokens to length {env['SZ_CORE']}; long numbers (16-23 digits), all two-digit numbers, .abc fractions, tier names. Each word is "
                        "parsed by the three real parsers and validated by the real job validator (6 evaluations per word); TLC judges the 3 "
                        "call/return records per word; non-trivial = (word, kind) pairs inside the grammar (exact value demanded)")
    ctx.cov["in_grammar"] = in_grammar
    ctx.cov["bad_records"] = nbad
    picks = [c for c in cases if c["cpu"]["o"] == "int"][:2] + [c for c in cases if c["memory"]["o"] == "int" and len(c["w"]) > 5][:2] + cases[:1]
    for c in picks:
        ctx.sample({"string": c["s"], **{k: c[k]["repr"] for k in KINDS}, **{"server_" + k: c["v" + k] for k in KINDS}})
    ctx.assume("a string is judged through its token word; tokens are single characters except SP (space), NL (newline) and the tier names",
               "integers travel to TLC as big-endian decimal digit sequences (str(int)); TLC compares digit sequences, never 32-bit integers",
               "the server side is batch.front_end.validate.validate_and_clean_jobs on a minimal docker job carrying the one resource string",
               "strings outside the documented grammar are only required to be treated alike by client and server",
               "a call/return pair is a two-state behaviour Call(kind, w) -> Return(result); states/transitions count those in addition to the SizeScan run")
