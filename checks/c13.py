"""C13 - job billing never exceeds the instance and survives serialisation.

Spec: specs/fn/Billing1024.tla (universe of instance configurations, packings of a worker, relation `Ok` =
C13a sum over any packing <= whole, C13b whole-worker job billed exactly the whole, C13c reloaded configuration
bills identically) and specs/fn/Billing1024Alg.tla (the billing rule as a state machine of jobs coming and going
on one worker; TLC checks C13a/C13b as invariants, and finds the counter-example for a non-power-of-two worker).

Binding B3 (call/return): TLC writes the configurations; for each one the harness builds the REAL instance
configuration (pools through PoolConfig.instance_config = instance_config_from_pool_config, job-private VMs through
GCPSlimInstanceConfig.create / AzureSlimInstanceConfig.create), calls the real `quantified_resources` for the whole
worker (as the resource managers do) and for every job size x extra storage (memory share from the real
*_cores_mcpu_to_memory_bytes), stores and reloads the configuration the way the driver does
(to_dict -> json -> base64 -> instance_config_from_config_dict) and bills again.  TLC enumerates the packings and
computes every verdict.  Quantities are < 2^30 (checked), so TLC sums them directly (saturating at 2^30).
"""
from __future__ import annotations

import base64
import json

from vlib import loader, tlc

from . import _fn_cloud as fc

LEVEL = "model_checking"
MANIFEST = {
    "technique": "TLA+ relation Billing1024.Ok + billing-rule model Billing1024Alg checked by TLC; TLC enumerates instance configurations and worker packings, the harness calls the real InstanceConfig.quantified_resources / to_dict / from_dict, TLC judges every billing table (call/return conformance, B3)",
    "text": "TLC model-checks the 1024ths billing rule on a worker with jobs arriving and finishing (sum of job bills <= whole, = whole when full; counter-example shown for a non-power-of-two worker), then for every machine shape x disk option x region x preemptible x pricing-table generation of both clouds the real instance configuration is built, every job size is billed by the real code before and after a store/reload round trip, and TLC checks every packing of power-of-two core requests (all packings of small workers, structured packings of large ones) against the whole-worker bill.",
    "note": "Trusts: TLC + CommunityModules; the per-name aggregation of a bill into a vector (checks/c13.py); catch-all product-version tables. Packings of workers above 4 (quick) / 16 (thorough) cores are structured, not exhaustive. Extra (per-job) disks are billed on top of the worker and are not part of C13a. Terra Azure configurations are not covered.",
    "design_ref": "DESIGN.md section 5, C13",
}

CAP = 1 << 30
ALG_INVS = ["TypeOK", "Conservation", "WithinWhole", "FullIsExact", "FractionPositive"]

class LegacyVersions(dict):
    """A latest_product_versions table from before per-region products: region-suffixed products are unknown."""

    def __init__(self, region):
        super().__init__()
        self.region = region

    def get(self, k, d=None):
        from batch.driver.billing_manager import ProductVersionInfo

        if k.split("/")[-1] == self.region:
            return None
        return ProductVersionInfo("1", None)


def _vector(names, resources):
    v = [0] * len(names)
    for r in resources:
        v[names[r["name"]]] += int(r["quantity"])
    return v


def _bill(cfg):
    """The billing table of one configuration, computed by the real code."""
    from batch.cloud.azure.instance_config import AzureSlimInstanceConfig
    from batch.cloud.azure.resource_utils import azure_cores_mcpu_to_memory_bytes
    from batch.cloud.gcp.instance_config import GCPSlimInstanceConfig, region_from_location
    from batch.cloud.gcp.resource_utils import GCP_MACHINE_FAMILY, gcp_cores_mcpu_to_memory_bytes
    from batch.cloud.resource_utils import machine_type_to_cores_and_memory_bytes
    from batch.cloud.utils import instance_config_from_config_dict
    from batch.driver.billing_manager import ProductVersions

    cloud = cfg["cloud"]
    if cfg["pv"] == "legacy":
        pv = ProductVersions(LegacyVersions(region_from_location(cfg["loc"])))
    else:
        pv = ProductVersions(fc.CatchAllVersions())
    if cfg["pool"]:
        pc = fc.pool_config("pool", {"cloud": cloud, "type": cfg["type"], "cores": cfg["cores"], "pre": cfg["pre"],
                                     "label": "", "ssd": cfg["ssd"]}, external_gb=cfg["data_gb"], boot_gb=cfg["boot_gb"])
        ic = pc.instance_config(pv, cfg["loc"])
    else:
        cls = GCPSlimInstanceConfig if cloud == "gcp" else AzureSlimInstanceConfig
        ic = cls.create(product_versions=pv, machine_type=cfg["machine"], preemptible=cfg["pre"], local_ssd_data_disk=False,
                        data_disk_size_gb=cfg["data_gb"], boot_disk_size_gb=cfg["boot_gb"], job_private=True,
                        location=cfg["loc"])
    stored = base64.b64encode(json.dumps(ic.to_dict()).encode()).decode()          # driver: instances.instance_config
    ic2 = instance_config_from_config_dict(json.loads(base64.b64decode(stored).decode()))  # driver/instance.py

    cores, machine_mem = machine_type_to_cores_and_memory_bytes(cloud, cfg["machine"])
    if cores != cfg["cores"] or ic.cores != cores:
        raise RuntimeError(f"cores mismatch for {cfg['machine']}: table {cfg['cores']}, repo {cores}, config {ic.cores}")

    def job_mem(mcpu):
        if not cfg["pool"]:
            return machine_mem
        if cloud == "gcp":
            return gcp_cores_mcpu_to_memory_bytes(mcpu, GCP_MACHINE_FAMILY, cfg["type"])
        return azure_cores_mcpu_to_memory_bytes(mcpu, cfg["type"])

    raw = {"whole": ic.quantified_resources(cores * 1000, machine_mem, 0),          # resource_manager.create_vm
           "whole_rt": ic2.quantified_resources(cores * 1000, machine_mem, 0)}
    jobs = []
    for m in cfg["sizes"]:
        for s in cfg["stos"]:
            jobs.append((m, s, ic.quantified_resources(m, job_mem(m), s), ic2.quantified_resources(m, job_mem(m), s)))
    allnames = sorted({r["name"] for r in raw["whole"] + raw["whole_rt"]} | {r["name"] for j in jobs for r in j[2] + j[3]})
    idx = {n: i for i, n in enumerate(allnames)}
    case = {"names": allnames, "whole": _vector(idx, raw["whole"]), "whole_rt": _vector(idx, raw["whole_rt"]),
            "jobs": [{"m": m, "s": s, "q": _vector(idx, q), "rt": _vector(idx, rt)} for m, s, q, rt in jobs]}
    for v in [case["whole"], case["whole_rt"]] + [j[k] for j in case["jobs"] for k in ("q", "rt")]:
        for x in v:
            if not 0 <= x < CAP:
                raise OverflowError(f"quantity {x} outside [0, 2^30) for {cfg}")
    return case


def run(ctx):
    loader.install()
    level = "quick" if ctx.quick else "thorough"
    wd = tlc.prepare_dir(ctx.build / "tlc", ["fn"])
    tables = fc.write_tables(wd / "tables.json")
    env = {"BL_TABLES": wd / "tables.json", "BL_LEVEL": level, "BL_INPUTS": wd / "inputs.ndjson"}

    # (1) the billing rule as a state machine: power-of-two workers satisfy C13a/C13b ...
    percore = sorted({m["mem_mib"] // m["cores"] for m in tables["machines"] if m["mem_mib"] % m["cores"] == 0})
    alg_cfgs = [(1, percore[0], 375, 0), (2, percore[-1], 10, 1), (4, percore[len(percore) // 2], 375, 2)]
    if not ctx.quick:
        alg_cfgs += [(8, percore[0], 2048, 1), (16, percore[-1], 375, 4)]
    for cores, pc, disk, gpus in alg_cfgs:
        name = f"Alg{cores}.cfg"
        (wd / name).write_text(tlc.mk_cfg(spec="Spec", invariants=ALG_INVS, deadlock=False,
                                          constants={"Cores": cores, "PerCoreMiB": pc, "DiskGiB": disk, "Gpus": gpus}))
        res = tlc.run(wd, "Billing1024Alg", name, workers=ctx.workers, coverage=True)
        ctx.add_tlc(res, f"Billing1024Alg Cores={cores} PerCoreMiB={pc} DiskGiB={disk} Gpus={gpus}: {ALG_INVS}")
        for v in res.violations:
            ctx.violation(f"alg:{v.kind}:{v.name}", {"what": "the billing-rule model violates C13 (specification error)",
                                                     "cores": cores, "trace": [(h, s) for h, s in v.trace][-3:]})
        ctx.require_covered(res, ["Schedule", "Finish"], "Billing1024Alg")
    # ... and the model is not vacuous: a 3-core worker under-bills when full (why the code asserts power-of-two pools)
    (wd / "Alg3.cfg").write_text(tlc.mk_cfg(spec="Spec", invariants=ALG_INVS, deadlock=False,
                                            constants={"Cores": 3, "PerCoreMiB": percore[0], "DiskGiB": 375, "Gpus": 0}))
    res3 = tlc.run(wd, "Billing1024Alg", "Alg3.cfg", workers=ctx.workers)
    ctx.add_tlc(res3, "Billing1024Alg Cores=3 (negative twin: FullIsExact must fail, WithinWhole must not)")
    if [v.name for v in res3.violations] != ["FullIsExact"]:
        raise RuntimeError(f"negative twin Cores=3: expected exactly FullIsExact to fail, got {[v.name for v in res3.violations]}")

    # (2) the universe of configurations, written by TLC
    tlc.evaluate(wd, "Billing1024Gen", env=env)
    cfgs = [json.loads(l) for l in (wd / "inputs.ndjson").read_text().splitlines() if l.strip()]

    # (3) the real billing code
    lines, cases, crashes = [], [], {}
    ncalls = 0
    for i, cfg in enumerate(cfgs):
        try:
            case = _bill(cfg)
        except (RuntimeError, OverflowError):
            raise
        except Exception as e:  # the code refuses to bill this configuration
            crashes[i] = repr(e)[:300]
            case = {"names": [], "whole": [], "whole_rt": [], "jobs": []}
        case["c"] = i + 1
        ncalls += 2 + 2 * len(case["jobs"])
        cases.append(case)
        lines.append(json.dumps(case, separators=(",", ":")))
    (wd / "cases.ndjson").write_text("\n".join(lines) + "\n")

    # (4) the verdict, by TLC
    venv = {**env, "BL_CASES": wd / "cases.ndjson", "BL_VERDICT": wd / "verdict.json"}
    parts = fc.parallel_verdict(wd, "Billing1024Verdict", venv, "BL_CASES", lines, "BL_VERDICT",
                                nchunks=min(ctx.workers, 8 if ctx.quick else 16))
    if sum(p[1]["n"] for p in parts) != len(cases):
        raise RuntimeError("TLC did not judge every configuration")
    npackings = sum(p[1]["packings"] for p in parts)
    nbad = 0
    seen = {}
    for idx, verdict in parts:
        for b in verdict["bad"]:
            li = idx[b["i"] - 1]
            cfg, case = cfgs[li], cases[li]
            nbad += 1
            kind = "pool" if cfg["pool"] else "private"
            if li in crashes:
                sig = f"bill:crash:{cfg['cloud']}:{kind}:{crashes[li].split('(')[0]}"
                detail = {"configuration": cfg, "exception": crashes[li]}
            else:
                sig = f"bill:{b['why']}:{cfg['cloud']}:{kind}"
                detail = {"why": b["why"], "configuration": cfg, "names": case["names"], "whole": case["whole"],
                          "whole_reloaded": case["whole_rt"], "jobs": case["jobs"][:12]}
                w = b.get("witness") or {}
                if w.get("k"):
                    detail["witness"] = {"packing": dict(zip(map(str, cfg["sizes"]), w["packing"])), "resource": case["names"][w["k"] - 1]}
            n = seen.get(sig, 0)
            seen[sig] = n + 1
            if n < 3:
                ctx.violation(sig, detail)
    if npackings <= len(cases) or not any(len(c["jobs"]) > 3 for c in cases):
        raise RuntimeError("vacuous: no packings / no multi-job configurations judged")

    npool = sum(1 for c in cfgs if c["pool"])
    ctx.cov.update(
        traces_validated_against_impl=len(cases), evaluations=ncalls, distinct_nontrivial=npackings, exhaustive=True,
        rule=f"TLC enumerates {len(cfgs)} instance configurations ({npool} pool workers, {len(cfgs) - npool} job-private VMs; level {level}); "
             f"for each the real code bills the whole worker and every job size x extra storage, before and after store/reload "
             f"({ncalls} quantified_resources calls); TLC checks {npackings} (configuration, packing) pairs: all packings of workers "
             f"up to {4 if ctx.quick else 16} cores, structured packings above; non-trivial = (configuration, packing) pairs")
    ctx.cov["states"] += ncalls + npackings
    ctx.cov["transitions"] += ncalls
    ctx.cov["configurations"] = {"pool": npool, "job_private": len(cfgs) - npool, "refused_by_code": len(crashes)}
    ctx.cov["machine_types_from_repo"] = len(tables["machines"])
    for li in (0, npool // 2, npool, len(cfgs) - 1):
        c = cases[li]
        ctx.sample({"configuration": {k: v for k, v in cfgs[li].items() if k not in ("sizes", "stos")}, "names": c["names"],
                    "whole": c["whole"], "first_jobs": c["jobs"][:3]})
    ctx.assume(
        "pool workers have power-of-two cores (InstanceConfig.quantified_resources asserts it for non-job-private configurations) and a VM type present in the repository's machine table",
        "a job's memory is its share of the family's memory (the real *_cores_mcpu_to_memory_bytes); a job-private job gets the machine's memory and no extra storage (worker.py bills job-private jobs with external storage 0)",
        "the whole worker is billed as the resource managers do: quantified_resources(cores*1000, machine memory, 0)",
        "a bill is compared per resource name (quantities of equal names in one bill are added; a name that is not billed counts 0)",
        "extra per-job disks are billed on top of the worker: C13a is checked with extra storage 0; C13c (reload) is checked for every extra-storage value too",
        "product versions are catch-all tables ('regional': every product known; 'legacy': region-suffixed products unknown, which exercises the region-less fall-back names on GCP)",
        "a bill is a two-state behaviour Call(configuration, job) -> Return(quantities); states/transitions count those in addition to the TLC runs",
    )
