"""C12 - resource requests are never under-provisioned.

Spec: specs/fn/ResourceFit.tla (the bounded universe of pool configurations x requests and the relation `Ok`),
specs/fn/ResourceFitAlg.tla (the selection pipeline as a state machine; TLC checks that every run of it ends in
an outcome accepted by `Ok`, plus minimality / completeness invariants and termination).

Binding B3 (call/return): TLC writes the universe; every (configuration, request) is rendered as size STRINGS and
sent through the real front end - `validate_and_clean_jobs`, then the real `_create_jobs` coroutine
(batch/batch/front_end/front_end.py) with a recording database, which runs hailtop.batch_client.parse, the
resource block of `_create_jobs`, `InstanceCollectionConfigs.select_inst_coll`, `PoolConfig.convert_requests_to_resources`
and the cloud resource_utils.  What is judged is what the service would store: the `inst_coll`/`cores_mcpu`
columns of the INSERT INTO jobs row and the `resources` of the job spec.  TLC computes the verdict of every call.
Machine shapes are read from the repository's functions at run time and handed to TLC as data.
"""
from __future__ import annotations

import asyncio
import json
import multiprocessing
import os

from vlib import loader, tlc

from . import _fn_cloud as fc

LEVEL = "model_checking"
MANIFEST = {
    "technique": "TLA+ relation ResourceFit.Ok + pipeline model ResourceFitAlg checked by TLC; TLC enumerates pool configurations x requests, the harness drives the real _create_jobs/select_inst_coll with size strings, TLC judges every outcome (call/return conformance, B3)",
    "text": "TLC model-checks the selection pipeline (storage limit, memory-driven core adjustment, packability rounding, worker check, pool matching) against the relation 'placed => granted >= requested in cores, memory, storage, fits one worker, pool matches; rejected => no configured matching pool could serve it' on a bounded universe of 1-3 pool configurations x requests for both clouds, then the same universe is driven through the real front end code and every outcome is judged by TLC with that relation. Machine tables are data read from the repository at run time.",
    "note": "Trusts: TLC + CommunityModules; the rendering of abstract amounts as size strings (checks/_fn_cloud.py); the recording database stub; cloud disk limits (64 TiB / 32 TiB) are constants of the spec. Pool sizes come from the service's own possible_cores_from_worker_type: power-of-two sizes are covered in full, the remaining accepted sizes by one pool each (suite odd-pools). Cheapest-pool choice is not part of the property.",
    "design_ref": "DESIGN.md section 5, C12",
}

ALG_INVS = ["TypeOK", "DoneOk", "CandidateIsLeast", "NothingDropped"]
ALG_ACTIONS = ["RejectMalformed", "Accept", "StorageStep", "AdjustForMemory", "AdjustForPacking", "CheckWorker", "Decide",
               "PrivateSelect"]
KIND = {0: "placed", 1: "unsatisfiable", 2: "malformed", 3: "crashed"}
USERDATA = {"username": "u", "hail_credentials_secret_name": "s", "tokens_secret_name": "t"}


# ---- a database / file store that records what _create_jobs would write -----------------------------------
class _StubGap(Exception):
    """_create_jobs asked the recording stubs for something they do not provide: a harness problem (exit 2),
    never a verdict about the property."""


class _Strict:
    def __getattr__(self, name):
        if name.startswith("__"):
            raise AttributeError(name)
        raise _StubGap(f"{type(self).__name__}.{name} is not provided by the C12 harness")


class _App(dict):
    def __missing__(self, k):
        raise _StubGap(f"app[{k!r}] is not provided by the C12 harness")


class _Tx(_Strict):
    def __init__(self, log):
        self.log = log

    async def execute_many(self, sql, args, query_name=None):
        self.log[query_name] = list(args)

    async def execute_update(self, sql, args=None, query_name=None):
        self.log[query_name] = args


class _Start(_Strict):
    def __init__(self, log):
        self.log = log

    async def __aenter__(self):
        return _Tx(self.log)

    async def __aexit__(self, *a):
        return False


class _UpdateRow(dict):
    """The open update of a one-job batch: every id / count column the handler may read is 1."""

    def __missing__(self, k):
        return 1


class _DB(_Strict):
    def __init__(self):
        self.log = {}

    async def select_and_fetchone(self, sql, args=None, query_name=None):
        return _UpdateRow(state="open", format_version=7, committed=False, start_job_id=1, start_job_group_id=1,
                          update_n_jobs=1)

    def start(self, read_only=False):
        return _Start(self.log)


class _FileStore(_Strict):
    async def write_spec_file(self, *a, **k):
        return None


def _resources(q, v):
    r = {"storage": fc.render_amount(q["sto"], v), "preemptible": q["pre"]}
    if q["kind"] == "private":
        r["machine_type"] = q["machine"]
    else:
        r["cpu"] = fc.render_cpu(q["cpu"], v)
        r["memory"] = q["tier"] if q["tier"] else fc.render_amount(q["mem"], v + 1)
        if q["label"]:
            r["pool_label"] = q["label"]
    return r


_G = {}


def _setup():
    if _G:
        return
    loader.install()
    import batch.front_end.front_end as fe
    from aiohttp import web
    from batch.front_end.validate import validate_and_clean_jobs
    from batch.inst_coll_config import InstanceCollectionConfigs

    _G.update(fe=fe, web=web, validate=validate_and_clean_jobs, ICC=InstanceCollectionConfigs)


def _loop():
    """one event loop per process (the harness forks workers)"""
    if _G.get("loop_pid") != os.getpid():
        _G["loop"] = asyncio.new_event_loop()
        _G["loop_pid"] = os.getpid()
    return _G["loop"]


def _build(cfg):
    pools = {f"p{i + 1}": fc.pool_config(f"p{i + 1}", p) for i, p in enumerate(cfg["pools"])}
    names = {f"p{i + 1}": i + 1 for i in range(len(pools))}
    names["job-private"] = 0
    icc = _G["ICC"](pools, fc.jpim_config(cfg["jp"]), fc.CatchAllRates(), fc.CatchAllVersions())
    return icc, names


def _call(icc, names, q, v):
    """One request through the real front end.  Returns (outcome tuple for TLC, human readable detail)."""
    fe, web = _G["fe"], _G["web"]
    db = _DB()
    app = _App({"db": db, "file_store": _FileStore(), "inst_coll_configs": icc, "feature_flags": {}, "regions": {}, "n_tokens": 1})
    res = _resources(q, v)
    spec = {"job_id": 1, "process": {"type": "docker", "command": ["true"], "image": "img"}, "resources": dict(res)}
    _G["validate"]([spec])  # the job schema accepts it (a ValidationError here is a harness error)
    fe.CLOUD = q["cloud"]  # the deployment's cloud (a job spec has no cloud field)
    try:
        _loop().run_until_complete(fe._create_jobs(dict(USERDATA), [spec], 1, 1, app))
    except web.HTTPBadRequest as e:
        reason = e.reason or ""
        if "are unsatisfiable" in reason:
            kind = 1
        elif "bad resource request" in reason or "unknown machine type" in reason:
            kind = 2
        else:  # a rejection that is not about resources: the harness' job spec or database stub is out of date
            raise RuntimeError(f"unexpected rejection by _create_jobs: {reason!r} for {res}")
        return [kind, -1, 0, 0, 0, 0], {"resources": res, "rejected": reason}
    except _StubGap as e:
        raise RuntimeError(f"harness out of date: {e}") from e
    except Exception as e:  # neither placed nor rejected
        c = e
        while c is not None:  # e.g. ValueError('encountered exception while inserting a bunch') from a stub gap
            if isinstance(c, _StubGap):
                raise RuntimeError(f"harness out of date: {c}") from e
            c = c.__cause__ or c.__context__
        return [3, -1, 0, 0, 0, 0], {"resources": res, "exception": repr(e)[:300]}
    row = db.log["insert_jobs"][0]
    r = spec["resources"]
    if row[7] != r["cores_mcpu"]:
        return [3, -1, 0, 0, 0, 0], {"resources": res, "exception": f"jobs.cores_mcpu {row[7]} != spec cores_mcpu {r['cores_mcpu']}"}
    if row[9] not in names:
        return [3, -1, 0, 0, 0, 0], {"resources": res, "exception": f"unknown inst_coll {row[9]!r}"}
    hi, lo = fc.limbs(r["memory_bytes"])
    out = [0, names[row[9]], int(r["cores_mcpu"]), hi, lo, int(r["storage_gib"])]
    fc.check_ints(out, "outcome")
    return out, {"resources": res, "stored": {k: r[k] for k in ("cores_mcpu", "memory_bytes", "storage_gib", "preemptible")},
                 "inst_coll": row[9]}


def _work(item):
    """(suite index, cfg index, variant) -> one ndjson case line + outcome counts (suites are inherited by fork)."""
    _setup()
    si, ci, v = item
    cfg, reqs = _G["suites"][si]["cfgs"][ci], _G["suites"][si]["reqs"]
    icc, names = _build(cfg)
    outs = []
    counts = [0, 0, 0, 0]
    for ri, q in enumerate(reqs):
        o, _ = _call(icc, names, q, v + ri)
        outs.append(o)
        counts[o[0]] += 1
    return json.dumps({"s": si + 1, "c": ci + 1, "v": v, "outs": outs}, separators=(",", ":")), counts


def run(ctx):
    import time

    t0 = time.time()
    phases = {}

    def lap(name):
        nonlocal t0
        phases[name] = round(time.time() - t0, 1)
        t0 = time.time()

    _setup()
    level = "quick" if ctx.quick else "thorough"
    wd = tlc.prepare_dir(ctx.build / "tlc", ["fn"])
    tables = fc.write_tables(wd / "tables.json")
    env = {"RF_TABLES": wd / "tables.json", "RF_LEVEL": level, "RF_INPUTS": wd / "inputs.ndjson"}

    # (1) the pipeline model against the relation, on the spec alone
    alg_level = "model" if ctx.quick else "quick"
    (wd / "Alg.cfg").write_text(tlc.mk_cfg(spec="Spec", invariants=ALG_INVS, properties=["Termination"], deadlock=False))
    res = tlc.run(wd, "ResourceFitAlg", "Alg.cfg", workers=ctx.workers, coverage=True, env={**env, "RF_LEVEL": alg_level},
                  timeout=3000)
    ctx.add_tlc(res, f"ResourceFitAlg over the '{alg_level}' universe: {ALG_INVS} + Termination")
    for v in res.violations:
        ctx.violation(f"alg:{v.kind}:{v.name}", {"what": "the pipeline model violates the relation (specification error)",
                                                 "trace": [(h, s) for h, s in v.trace][-3:]})
    ctx.require_covered(res, ALG_ACTIONS, "ResourceFitAlg")
    lap("model_check")

    # (2) the universe, written by TLC
    tlc.evaluate(wd, "ResourceFitGen", env=env)
    suites = [json.loads(l) for l in (wd / "inputs.ndjson").read_text().splitlines() if l.strip()]
    lap("generate")
    nvar = 1
    items = []
    for si, su in enumerate(suites):
        for ci, cfg in enumerate(su["cfgs"]):
            for v in range(nvar):
                items.append((si, ci, (ctx.seed + 3 * v + ci) % 20))
    _G["suites"] = suites

    # (3) every call through the real front end
    nproc = max(1, min(ctx.workers, 16, len(items)))
    if nproc > 1 and hasattr(os, "fork"):
        with multiprocessing.get_context("fork").Pool(nproc) as pool:
            results = pool.map(_work, items, chunksize=max(1, len(items) // (nproc * 6)))
    else:
        results = [_work(it) for it in items]
    lines = [r[0] for r in results]
    counts = [sum(r[1][k] for r in results) for k in range(4)]
    ncalls = sum(counts)
    (wd / "cases.ndjson").write_text("\n".join(lines) + "\n")
    lap("real_code")

    # (4) the verdict, by TLC
    venv = {**env, "RF_CASES": wd / "cases.ndjson", "RF_VERDICT": wd / "verdict.json"}
    parts = fc.parallel_verdict(wd, "ResourceFitVerdict", venv, "RF_CASES", lines, "RF_VERDICT",
                                nchunks=min(ctx.workers, 8 if ctx.quick else 16))
    judged = sum(p[1]["n"] for p in parts)
    if judged != ncalls:
        raise RuntimeError(f"TLC judged {judged} calls, the harness made {ncalls}")
    bad = []
    for idx, verdict in parts:
        for b in verdict["bad"]:
            bad.append((idx[b["i"] - 1], b["r"] - 1, b["why"]))
    bad.sort()
    lap("verdict")
    bad_kinds = [0, 0, 0, 0]
    seen_sig = {}
    for li, ri, why in bad:
        si, ci, v = items[li]
        cfg, reqs = suites[si]["cfgs"][ci], suites[si]["reqs"]
        q = reqs[ri]
        icc, names = _build(cfg)
        o, detail = _call(icc, names, q, v + ri)
        bad_kinds[o[0]] += 1
        if o[0] == 3:
            exc = detail.get("exception", "")
            sig = f"fit:crash:{exc.split('(')[0]}"
        else:
            what = "private" if q["kind"] == "private" else ("tier" if q["tier"] else "sized")
            sig = f"fit:{KIND[o[0]]}:{why}:{what}"
        n = seen_sig.get(sig, 0)
        seen_sig[sig] = n + 1
        if n < 3:
            ctx.violation(sig, {"why": why, "suite": suites[si]["name"], "configuration": cfg, "request": q, **detail,
                                "outcome": dict(zip(("kind", "collection", "cores_mcpu", "mem_mib", "mem_bytes", "storage_gib"), o))})
    accepted = [counts[k] - bad_kinds[k] for k in range(4)]
    if accepted[0] == 0 or accepted[1] == 0 or accepted[2] == 0:
        raise RuntimeError(f"vacuous: accepted outcome kinds {dict(zip(KIND.values(), accepted))}")

    # a probe outside the universe: cpu strings within 1 mcpu of a packable size (parse exactness is C25's subject)
    icc, names = _build({"jp": "gcp", "pools": [{"cloud": "gcp", "type": "standard", "cores": 16, "pre": True, "label": "", "ssd": True}]})
    fe, web = _G["fe"], _G["web"]
    for s, mcpu in (("1.001", 1001), ("2.001", 2001)):
        q = {"kind": "pool", "cloud": "gcp", "cpu": 0, "tier": "standard", "mem": None, "sto": {"n": 0, "f": 0, "u": ""},
             "pre": True, "label": "", "machine": ""}
        orig = fc.render_cpu
        try:
            fc.render_cpu = lambda m, v=0, _s=s: _s
            o, d = _call(icc, names, q, 0)
        finally:
            fc.render_cpu = orig
        if o[0] == 0 and o[2] < mcpu:
            ctx.note(f"cpu '{s}' ({mcpu} mcpu) is granted {o[2]} mcpu: parse_cpu_in_mcpu truncates (property C25); such strings are outside this check's universe")

    ctx.cov.update(
        traces_validated_against_impl=ncalls, evaluations=ncalls,
        distinct_nontrivial=counts[0] + counts[1], exhaustive=True,
        rule=f"TLC enumerates {len(suites)} suites ({', '.join(s['name'] + ':' + str(len(s['cfgs'])) + 'x' + str(len(s['reqs'])) for s in suites)}; "
             f"configurations x requests, level {level}); every pair is rendered as size strings and run through validate_and_clean_jobs + _create_jobs; "
             "every outcome is judged by TLC with ResourceFit!Ok; non-trivial = placed or rejected as unsatisfiable (not malformed)")
    ctx.cov["states"] += 2 * ncalls
    ctx.cov["transitions"] += ncalls
    ctx.cov["outcomes"] = dict(zip(KIND.values(), counts))
    ctx.cov["accepted_by_spec"] = dict(zip(KIND.values(), accepted))
    ctx.cov["machine_types_from_repo"] = len(tables["machines"])
    ctx.cov["phase_wall_s"] = phases
    for li in (0, len(items) // 3, (2 * len(items)) // 3, len(items) - 1):
        si, ci, v = items[li]
        cfg, reqs = suites[si]["cfgs"][ci], suites[si]["reqs"]
        ri = (li * 7919) % len(reqs)
        icc, names = _build(cfg)
        o, detail = _call(icc, names, reqs[ri], v + ri)
        ctx.sample({"suite": suites[si]["name"], "pools": cfg["pools"], "request": detail["resources"], "outcome": KIND[o[0]],
                    "stored": detail.get("stored"), "inst_coll": detail.get("inst_coll"), "rejected": detail.get("rejected")})
    ctx.assume(
        "the deployment's CLOUD equals the request's cloud (a job spec has no cloud field); front_end.CLOUD is set per call",
        "pool sizes are the ones the service's pool-configuration form accepts (possible_cores_from_worker_type); sizes that are not a power of two are only exercised by the odd-pools suite (one pool, a one-core request by amount and by tier); a worker's memory is cores x the family's memory per core",
        "the largest disk one VM can have is 64 TiB on gcp and 32 TiB on azure (constants of the specification)",
        "a request naming a memory tier asks for the cloud's worker family with the least/middle/most memory per core, not for an amount",
        "cpu values in the universe are exact binary fractions (power-of-two quarter cores, and 0.125/0.75/1.5/3/6 as non-packable ones); decimal truncation in parse_cpu_in_mcpu belongs to C25",
        "a call/return pair is a two-state behaviour Call(cfg, request) -> Return(outcome); states/transitions count those in addition to the TLC runs",
        "product versions and resource rates are catch-all tables (every product has version '1', every resource a rate): price only ranks pools, which the relation does not constrain",
    )
